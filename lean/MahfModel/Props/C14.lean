/-
C14 — Initialisation and boundary repair keep every coordinate inside the domain.
Property theorems only; helper lemmas are in `Proofs/C14.lean`.  Exact arithmetic: the carrier is an
arbitrary linearly ordered field (`FloorRing` where the code calls `floor`), the domain is `a < b`,
"inside" is the closed interval `[a, b]`.
-/
import MahfModel.Proofs.C14
import Mathlib.Data.Rat.Floor
namespace MahfModel.Props.C14
open MahfModel.Boundary

section Repair
variable {F : Type} [Field F] [LinearOrder F] [IsStrictOrderedRing F]

/-! ### Saturation -/

/-- (`clamp` asserts `a ≤ b`; a one-point domain is fine for Saturation.) -/
theorem saturation_in_bounds (x a b : F) (hab : a ≤ b) :
    ∃ y, saturation x (a, b) = some y ∧ a ≤ y ∧ y ≤ b := by
  obtain ⟨y, h, h1, h2, _⟩ := clamp_spec x a b hab
  exact ⟨y, h, h1, h2⟩

theorem saturation_fix_inside (x a b : F) (h1 : a ≤ x) (h2 : x ≤ b) :
    saturation x (a, b) = some x := by
  obtain ⟨y, h, _, _, hfix⟩ := clamp_spec x a b (le_trans h1 h2)
  have e := hfix h1 h2
  subst e; exact h

/-- Whatever Saturation returns is inside (it returns nothing — `clamp` panics — iff `a > b`). -/
theorem saturation_result (x y a b : F) (h : saturation x (a, b) = some y) :
    a ≤ y ∧ y ≤ b ∧ (a ≤ x → x ≤ b → y = x) := by
  by_cases hab : a ≤ b
  · obtain ⟨y', h', h1, h2, hfix⟩ := clamp_spec x a b hab
    have : y = y' := Option.some.inj (h.symm.trans h')
    subst this
    exact ⟨h1, h2, hfix⟩
  · simp [saturation, clamp, hab] at h

theorem saturation_idem (x y a b : F) (h : saturation x (a, b) = some y) :
    saturation y (a, b) = some y := by
  obtain ⟨h1, h2, _⟩ := saturation_result x y a b h
  exact saturation_fix_inside y a b h1 h2

/-! ### Toroidal (the code's formula, `floor` instantiated with the floor of a `FloorRing`) -/

section Floor
variable [FloorRing F]

/-- `f64::floor` in exact arithmetic. -/
def floorF (x : F) : F := (⌊x⌋ : F)

theorem toroidal_in_bounds (x a b : F) (hab : a < b) :
    a ≤ toroidal floorF x (a, b) ∧ toroidal floorF x (a, b) ≤ b := by
  have hd : 0 < b - a := by linarith
  unfold toroidal
  simp only
  have hf0 : 0 ≤ (x - a) / (b - a) - floorF ((x - a) / (b - a)) := Int.fract_nonneg _
  have hf1 : (x - a) / (b - a) - floorF ((x - a) / (b - a)) < 1 := Int.fract_lt_one _
  split
  · rw [absF_eq, abs_of_nonneg hf0]
    constructor <;> nlinarith
  · split
    · constructor <;> nlinarith
    · rename_i h1 h2
      exact ⟨not_lt.mp h1, not_lt.mp h2⟩

theorem toroidal_fix_inside (x a b : F) (h1 : a ≤ x) (h2 : x ≤ b) :
    toroidal floorF x (a, b) = x := by
  unfold toroidal
  simp [not_lt.mpr h1, not_lt.mpr h2]

theorem toroidal_idem (x a b : F) (hab : a < b) :
    toroidal floorF (toroidal floorF x (a, b)) (a, b) = toroidal floorF x (a, b) :=
  toroidal_fix_inside _ a b (toroidal_in_bounds x a b hab).1 (toroidal_in_bounds x a b hab).2

end Floor

/-! ### Mirror (fold by `rem_euclid`, then reflect until inside)

`remE x m = x − m·⌊x/m⌋` is `f64::rem_euclid` in exact arithmetic; `triangle a b x` is the triangle wave of
period `2(b − a)` through `[a, b]` (both defined in `Proofs/C14.lean`). -/

/-- Every pass of the loop body reduces the distance to `[a, b]` by exactly the width (or to zero). -/
theorem mirror_step_progress (a b x : F) (hab : a < b) :
    excess a b (mirrorStep a b x) = max (excess a b x - (b - a)) 0 :=
  excess_step a b x hab

/-- The loop alone (the operator as it was before the fold) needs up to `⌈|x − a| / (b − a)⌉` passes:
linear in the distance — the reason for the fold. -/
theorem mirror_stepwise_terminates [FloorRing F] (a b x : F) (hab : a < b) :
    ∃ n, n ≤ ⌈|x - a| / (b - a)⌉₊ ∧ a ≤ mirrorIter a b n x ∧ mirrorIter a b n x ≤ b := by
  have hd : 0 < b - a := by linarith
  refine ⟨⌈|x - a| / (b - a)⌉₊, le_refl _, ?_⟩
  rw [← excess_zero_iff, excess_iter a b hab]
  apply max_eq_right
  have h1 : |x - a| / (b - a) ≤ (⌈|x - a| / (b - a)⌉₊ : F) := Nat.le_ceil _
  have h2 : |x - a| ≤ (⌈|x - a| / (b - a)⌉₊ : F) * (b - a) := by
    rwa [div_le_iff₀ hd] at h1
  have := excess_le_abs a b x hab
  linarith

section MirrorFold
variable [FloorRing F]

/-- `remE` is the Euclidean remainder: in `[0, m)` and congruent to `x` modulo `m` — and it is the only
such value. -/
theorem remE_is_euclidean_remainder (x m : F) (hm : 0 < m) :
    0 ≤ remE x m ∧ remE x m < m ∧ (∃ k : ℤ, x = remE x m + k * m) ∧
    ∀ (r : F) (k : ℤ), 0 ≤ r → r < m → x = r + k * m → r = remE x m :=
  ⟨remE_nonneg x m hm, remE_lt x m hm, ⟨_, remE_repr x m⟩,
   fun r k h0 h1 hx => (remE_unique x m r k hm h0 h1 hx).symm⟩

/-- Termination for EVERY coordinate, with an explicit bound: after the fold the loop body runs at
most once (so certainly at most twice) before the value is inside. -/
theorem mirror_terminates (a b x : F) (hab : a < b) :
    ∃ n, n ≤ 1 ∧ a ≤ mirrorIter a b n (mirrorFold remE a b x) ∧ mirrorIter a b n (mirrorFold remE a b x) ≤ b := by
  obtain ⟨h1, h2⟩ := mirrorFold_range a b x hab
  exact mirrorIter_one_of_near a b _ h1 h2

/-- The fuelled model returns, with a value inside, for every coordinate as soon as the fuel allows
one pass. -/
theorem mirror_returns (a b x : F) (hab : a < b) (fuel : Nat) (hf : 1 ≤ fuel) :
    ∃ y, mirror remE fuel x (a, b) = some y ∧ a ≤ y ∧ y ≤ b := by
  obtain ⟨n, hn, h1, h2⟩ := mirror_terminates a b x hab
  obtain ⟨y, hy⟩ := mirrorLoop_of_iter a b n fuel _ (le_trans hn hf) h1 h2
  obtain ⟨_, _, _, hb⟩ := mirrorLoop_eq_iter a b fuel _ y hy
  exact ⟨y, hy, hb⟩

/-- Closed form: the operator computes the triangle wave. -/
theorem mirror_closed_form (a b x : F) (hab : a < b) (fuel : Nat) (hf : 1 ≤ fuel) :
    mirror remE fuel x (a, b) = some (triangle a b x) := by
  obtain ⟨y, hy, _⟩ := mirror_returns a b x hab fuel hf
  rw [hy, mirrorLoop_eq_triangle a b _ y hab fuel hy, triangle_fold a b x hab]

/-- The step-by-step reflection (the operator before the fold), wherever it returns, returns the
same triangle wave … -/
theorem mirror_stepwise_closed_form (a b x y : F) (hab : a < b) (fuel : Nat)
    (h : mirrorStepwise fuel x (a, b) = some y) : y = triangle a b x :=
  mirrorLoop_eq_triangle a b x y hab fuel h

/-- … so for EVERY coordinate the folded operator returns exactly what step-by-step reflection
returns (given the fuel the latter needs): the fold changed the running time, not the result. -/
theorem mirror_agrees_with_stepwise (a b x y : F) (hab : a < b) (fuel fuel' : Nat) (hf : 1 ≤ fuel')
    (h : mirrorStepwise fuel x (a, b) = some y) : mirror remE fuel' x (a, b) = some y := by
  rw [mirror_closed_form a b x hab fuel' hf, mirror_stepwise_closed_form a b x y hab fuel h]

/-- … and step-by-step reflection does return once its fuel covers `⌈|x − a| / (b − a)⌉` passes. -/
theorem mirror_stepwise_returns (a b x : F) (hab : a < b) (fuel : Nat) (hf : ⌈|x - a| / (b - a)⌉₊ ≤ fuel) :
    mirrorStepwise fuel x (a, b) = some (triangle a b x) := by
  obtain ⟨n, hn, h1, h2⟩ := mirror_stepwise_terminates a b x hab
  obtain ⟨y, hy⟩ := mirrorLoop_of_iter a b n fuel x (le_trans hn hf) h1 h2
  have := mirror_stepwise_closed_form a b x y hab fuel hy
  subst this; exact hy

end MirrorFold

/-- For a coordinate within one width of the domain the fold is not taken, whatever `rem_euclid`
does: the operator IS the step-by-step reflection there (nothing changed, bit for bit). -/
theorem mirror_near_is_stepwise (rem : F → F → F) (a b x : F) (fuel : Nat)
    (h1 : a - (b - a) ≤ x) (h2 : x ≤ b + (b - a)) :
    mirror rem fuel x (a, b) = mirrorStepwise fuel x (a, b) := by
  simp only [mirror, mirrorStepwise, mirrorFold_near rem a b x h1 h2]

/-- Whatever the operator returns is inside (for any fuel, and whatever `rem_euclid` does: the loop
only exits inside). -/
theorem mirror_result_in_bounds (rem : F → F → F) (a b x y : F) (fuel : Nat)
    (h : mirror rem fuel x (a, b) = some y) : a ≤ y ∧ y ≤ b := by
  obtain ⟨_, _, _, hb⟩ := mirrorLoop_eq_iter a b fuel _ y h
  exact hb

theorem mirror_fix_inside (rem : F → F → F) (a b x : F) (fuel : Nat) (h1 : a ≤ x) (h2 : x ≤ b) :
    mirror rem fuel x (a, b) = some x := by
  have hd : 0 ≤ b - a := by linarith
  rw [mirror_near_is_stepwise rem a b x fuel (by linarith) (by linarith)]
  exact mirrorLoop_inside a b fuel x h1 h2

theorem mirror_idem (rem : F → F → F) (a b x y : F) (fuel fuel' : Nat) (h : mirror rem fuel x (a, b) = some y) :
    mirror rem fuel' y (a, b) = some y := by
  obtain ⟨h1, h2⟩ := mirror_result_in_bounds rem a b x y fuel h
  exact mirror_fix_inside rem a b y fuel' h1 h2

/-! ### Complete one-tailed normal correction (scripted deviates `s = |N(0, (b−a)/3)|`) -/

/-- If the loop exits, the result is inside and the unread script is a suffix of the script. -/
theorem onetailed_result_in_bounds (a b x y : F) (script rest : List F)
    (h : oneTailedLoop a b script x = some (y, rest)) :
    a ≤ y ∧ y ≤ b ∧ ∃ k, rest = script.drop k := oneTailedLoop_result a b script x y rest h

/-- Any standard-normal deviate within three standard deviations (`0 ≤ |z| ≤ 3`, i.e. a resampled
offset `(b − a)/3 · |z| ≤ b − a`) ends the loop in that pass. -/
theorem onetailed_exits_on_small_draw (a b x s : F) (rest : List F) (hab : a < b)
    (hout : x < a ∨ b < x) (h0 : 0 ≤ s) (h1 : s ≤ 3) :
    oneTailedLoop a b (s :: rest) x =
      some (if x < a then a + (b - a) / 3 * s else b - (b - a) / 3 * s, rest) := by
  have hd : 0 < b - a := by linarith
  have hsd : 0 ≤ (b - a) / 3 * s := mul_nonneg (by positivity) h0
  have hle : (b - a) / 3 * s ≤ b - a := by
    have : (b - a) / 3 * s ≤ (b - a) / 3 * 3 := mul_le_mul_of_nonneg_left h1 (by positivity)
    linarith [this]
  simp only [oneTailedLoop]
  by_cases hx : x < a
  · simp only [hx, if_true]
    exact oneTailedLoop_inside a b rest _ (by linarith) (by linarith)
  · have hx2 : x > b := by rcases hout with h | h; exact absurd h hx; exact h
    simp only [hx, hx2, if_false, if_true]
    exact oneTailedLoop_inside a b rest _ (by linarith) (by linarith)

/-- A coordinate inside is returned unchanged and consumes no deviate; hence the operator is idempotent. -/
theorem onetailed_fix_inside (a b x : F) (script : List F) (h1 : a ≤ x) (h2 : x ≤ b) :
    oneTailedLoop a b script x = some (x, script) := oneTailedLoop_inside a b script x h1 h2

theorem onetailed_idem (a b x y : F) (script rest script' : List F)
    (h : oneTailedLoop a b script x = some (y, rest)) :
    oneTailedLoop a b script' y = some (y, script') := by
  obtain ⟨h1, h2, _⟩ := onetailed_result_in_bounds a b x y script rest h
  exact onetailed_fix_inside a b y script' h1 h2

end Repair

/-! ### Whole solutions: every coordinate of the repaired solution lies within its own domain bounds -/

section Solutions
variable {F : Type} [Field F] [LinearOrder F] [IsStrictOrderedRing F]

theorem saturation_solution_in_bounds (sol : List F) (dom : List (F × F)) (hl : sol.length = dom.length)
    (hd : ∀ d ∈ dom, d.1 < d.2) :
    ∃ ys, zipDomainM saturation sol dom = some ys ∧ ys.length = sol.length ∧
      ∀ k (hk : k < ys.length) (hk' : k < dom.length), dom[k].1 ≤ ys[k] ∧ ys[k] ≤ dom[k].2 :=
  zipDomainM_all saturation (fun d y => d.1 ≤ y ∧ y ≤ d.2) sol dom hl
    (fun k _ hk' => saturation_in_bounds sol[k] dom[k].1 dom[k].2 (hd _ (List.getElem_mem hk')).le)

theorem toroidal_solution_in_bounds [FloorRing F] (sol : List F) (dom : List (F × F))
    (hl : sol.length = dom.length) (hd : ∀ d ∈ dom, d.1 < d.2) :
    ∀ k (hk : k < (zipDomain (toroidal floorF) sol dom).length) (hk' : k < dom.length),
      dom[k].1 ≤ (zipDomain (toroidal floorF) sol dom)[k] ∧ (zipDomain (toroidal floorF) sol dom)[k] ≤ dom[k].2 :=
  zipDomain_all (toroidal floorF) (fun d y => d.1 ≤ y ∧ y ≤ d.2) sol dom hl
    (fun x d hmem => toroidal_in_bounds x d.1 d.2 (hd d hmem))

/-- Mirror on a whole solution: every finite coordinate, fuel for a single pass. -/
theorem mirror_solution_in_bounds [FloorRing F] (sol : List F) (dom : List (F × F)) (fuel : Nat)
    (hl : sol.length = dom.length) (hd : ∀ d ∈ dom, d.1 < d.2) (hf : 1 ≤ fuel) :
    ∃ ys, zipDomainM (mirror remE fuel) sol dom = some ys ∧ ys.length = sol.length ∧
      ∀ k (hk : k < ys.length) (hk' : k < dom.length), dom[k].1 ≤ ys[k] ∧ ys[k] ≤ dom[k].2 :=
  zipDomainM_all (mirror remE fuel) (fun d y => d.1 ≤ y ∧ y ≤ d.2) sol dom hl
    (fun k _ hk' => mirror_returns dom[k].1 dom[k].2 sol[k] (hd _ (List.getElem_mem hk')) fuel hf)
/-- The resampling operator on a whole solution: if it returns, every coordinate is within its own bounds. -/
theorem onetailed_solution_in_bounds (sol : List F) (dom : List (F × F)) (script ys rest : List F)
    (hl : sol.length = dom.length) (h : oneTailedSolution sol dom script = some (ys, rest)) :
    ∀ k (hk : k < ys.length) (hk' : k < dom.length), dom[k].1 ≤ ys[k] ∧ ys[k] ≤ dom[k].2 :=
  oneTailedSolution_in_bounds sol dom script ys rest hl h
end Solutions

/-! ### Whole solutions and the driver `boundary_constraint`

`Repaired dom sol ys` (Proofs/C14.lean) is what the property demands of one solution: same dimension,
every coordinate `k` within `dom[k]`, and equal to `sol[k]` if that already was within `dom[k]`.
`satOp … otnOp` are the four operators as the driver sees them; `boundaryConstraint op stack s` is the
driver on the population stack (last = current). -/

section Driver
variable {F : Type} [Field F] [LinearOrder F] [IsStrictOrderedRing F]

theorem saturation_solution_repaired {S : Type} (dom : List (F × F)) (sol ys : List F) (s s' : S)
    (h : satOp dom sol s = some (ys, s')) : Repaired dom sol ys := by
  unfold satOp at h
  cases hz : zipDomainM saturation sol dom with
  | none => simp [hz] at h
  | some zs =>
    simp only [hz, Option.some.injEq, Prod.mk.injEq] at h
    obtain ⟨rfl, _⟩ := h
    exact zipDomainM_pointwise saturation RepairedCoord
      (fun x d y hy => saturation_result x y d.1 d.2 hy) sol dom zs hz

theorem toroidal_solution_repaired [FloorRing F] {S : Type} (dom : List (F × F)) (hd : ∀ d ∈ dom, d.1 < d.2)
    (sol ys : List F) (s s' : S) (h : torOp floorF dom sol s = some (ys, s')) : Repaired dom sol ys := by
  simp only [torOp, Option.some.injEq, Prod.mk.injEq] at h
  obtain ⟨rfl, _⟩ := h
  refine ⟨zipDomain_length _ sol dom, ?_⟩
  exact zipDomain_pointwise (toroidal floorF) RepairedCoord sol dom
    (fun x d hmem => ⟨(toroidal_in_bounds x d.1 d.2 (hd d hmem)).1, (toroidal_in_bounds x d.1 d.2 (hd d hmem)).2,
      fun h1 h2 => toroidal_fix_inside x d.1 d.2 h1 h2⟩)

/-- Mirror, whatever `rem_euclid` and the fuel are: if it returns, the solution is repaired. -/
theorem mirror_solution_repaired {S : Type} (rem : F → F → F) (fuel : Nat) (dom : List (F × F))
    (sol ys : List F) (s s' : S) (h : mirOp rem fuel dom sol s = some (ys, s')) : Repaired dom sol ys := by
  unfold mirOp at h
  cases hz : zipDomainM (mirror rem fuel) sol dom with
  | none => simp [hz] at h
  | some zs =>
    simp only [hz, Option.some.injEq, Prod.mk.injEq] at h
    obtain ⟨rfl, _⟩ := h
    refine zipDomainM_pointwise (mirror rem fuel) RepairedCoord (fun x d y hy => ?_) sol dom zs hz
    obtain ⟨h1, h2⟩ := mirror_result_in_bounds rem d.1 d.2 x y fuel hy
    refine ⟨h1, h2, fun hx1 hx2 => ?_⟩
    have := mirror_fix_inside rem d.1 d.2 x fuel hx1 hx2
    exact Option.some.inj (hy.symm.trans this)

theorem onetailed_solution_repaired (dom : List (F × F)) (sol ys script rest : List F)
    (h : otnOp dom sol script = some (ys, rest)) : Repaired dom sol ys := by
  refine oneTailedSolution_pointwise RepairedCoord (fun a b sc x y r hy => ?_) sol dom script ys rest h
  obtain ⟨h1, h2, _⟩ := oneTailedLoop_result a b sc x y r hy
  refine ⟨h1, h2, fun hx1 hx2 => ?_⟩
  have := oneTailedLoop_inside a b sc x hx1 hx2
  have e := Option.some.inj (hy.symm.trans this)
  exact (Prod.mk.inj e).1

/-- A solution that is inside in every coordinate is returned unchanged by each operator, and the
random source is not touched. -/
theorem operators_fix_inside_solutions [FloorRing F] (rem : F → F → F) (fuel : Nat) (dom : List (F × F))
    (ys : List F) (script : List F) (h : AllInside dom ys) :
    satOp dom ys script = some (ys, script) ∧ torOp floorF dom ys script = some (ys, script) ∧
    mirOp rem fuel dom ys script = some (ys, script) ∧ otnOp dom ys script = some (ys, script) := by
  refine ⟨?_, ?_, ?_, ?_⟩
  · have := zipDomainM_fixed saturation (fun d x => d.1 ≤ x ∧ x ≤ d.2)
      (fun x d hi => saturation_fix_inside x d.1 d.2 hi.1 hi.2) ys dom h
    simp [satOp, this]
  · have := zipDomain_fixed (toroidal floorF) (fun d x => d.1 ≤ x ∧ x ≤ d.2)
      (fun x d hi => toroidal_fix_inside x d.1 d.2 hi.1 hi.2) ys dom h
    simp [torOp, this]
  · have := zipDomainM_fixed (mirror rem fuel) (fun d x => d.1 ≤ x ∧ x ≤ d.2)
      (fun x d hi => mirror_fix_inside rem d.1 d.2 x fuel hi.1 hi.2) ys dom h
    simp [mirOp, this]
  · exact oneTailedSolution_fixed (fun d x => d.1 ≤ x ∧ x ≤ d.2)
      (fun a b sc x hi => oneTailedLoop_inside a b sc x hi.1 hi.2) ys dom script h

/-- The driver touches only the current population: the stack keeps its height, the populations
below are returned as they were, and the current one is what `constrainAll` makes of it.  On an empty
stack it does not return (`current_mut` panics). -/
theorem boundary_constraint_frame {S : Type} (op : List F → S → Option (List F × S))
    (stack stack' : List (List (List F))) (s s' : S) :
    boundaryConstraint op ([] : List (List (List F))) s = none ∧
    (boundaryConstraint op stack s = some (stack', s') →
      ∃ below top top', stack = below ++ [top] ∧ stack' = below ++ [top'] ∧
        constrainAll op top s = some (top', s')) :=
  ⟨boundaryConstraint_nil op s, boundaryConstraint_some op stack stack' s s'⟩

/-- Saturation through the driver: it returns; every solution of the current population is repaired
(in bounds per dimension, inside coordinates untouched, dimension kept), nothing else changes, and
applying it again changes nothing. -/
theorem saturation_population {S : Type} (dom : List (F × F)) (hd : ∀ d ∈ dom, d.1 ≤ d.2)
    (below : List (List (List F))) (top : List (List F)) (hdim : ∀ sol ∈ top, sol.length = dom.length) (s : S) :
    ∃ top', boundaryConstraint (satOp dom) (below ++ [top]) s = some (below ++ [top'], s) ∧
      List.Forall₂ (Repaired dom) top top' ∧
      ∀ s2 : S, boundaryConstraint (satOp dom) (below ++ [top']) s2 = some (below ++ [top'], s2) := by
  obtain ⟨top', hc⟩ := constrainAll_returns (satOp (S := S) dom) top s (fun sol hsol => by
    obtain ⟨ys, hys, _⟩ := zipDomainM_all saturation (fun _ _ => True) sol dom (hdim sol hsol)
      (fun k _ hk' => by
        obtain ⟨y, hy, _⟩ := saturation_in_bounds sol[k] dom[k].1 dom[k].2 (hd _ (List.getElem_mem hk'))
        exact ⟨y, hy, trivial⟩)
    exact ⟨ys, by simp [satOp, hys]⟩)
  have hb : boundaryConstraint (satOp dom) (below ++ [top]) s = some (below ++ [top'], s) := by
    rw [boundaryConstraint_concat, hc]
  obtain ⟨hr, hid⟩ := constrainAll_repairs (satOp (S := S) dom) dom
    (fun sol s y s' h => saturation_solution_repaired dom sol y s s' h)
    (fun ys s hi => by
      have := zipDomainM_fixed saturation (fun d x => d.1 ≤ x ∧ x ≤ d.2)
        (fun x d hi => saturation_fix_inside x d.1 d.2 hi.1 hi.2) ys dom hi
      simp [satOp, this])
    below top top' s s hc
  exact ⟨top', hb, hr, hid⟩

theorem toroidal_population [FloorRing F] {S : Type} (dom : List (F × F)) (hd : ∀ d ∈ dom, d.1 < d.2)
    (below : List (List (List F))) (top : List (List F)) (s : S) :
    ∃ top', boundaryConstraint (torOp floorF dom) (below ++ [top]) s = some (below ++ [top'], s) ∧
      List.Forall₂ (Repaired dom) top top' ∧
      ∀ s2 : S, boundaryConstraint (torOp floorF dom) (below ++ [top']) s2 = some (below ++ [top'], s2) := by
  obtain ⟨top', hc⟩ := constrainAll_returns (torOp (S := S) floorF dom) top s (fun sol _ => ⟨_, rfl⟩)
  have hb : boundaryConstraint (torOp floorF dom) (below ++ [top]) s = some (below ++ [top'], s) := by
    rw [boundaryConstraint_concat, hc]
  obtain ⟨hr, hid⟩ := constrainAll_repairs (torOp (S := S) floorF dom) dom
    (fun sol s y s' h => toroidal_solution_repaired dom hd sol y s s' h)
    (fun ys s hi => by
      have := zipDomain_fixed (toroidal floorF) (fun d x => d.1 ≤ x ∧ x ≤ d.2)
        (fun x d hi => toroidal_fix_inside x d.1 d.2 hi.1 hi.2) ys dom hi
      simp [torOp, this])
    below top top' s s hc
  exact ⟨top', hb, hr, hid⟩

/-- Mirror through the driver: for EVERY population of solutions of the problem's dimension it returns
(fuel for a single pass of the loop suffices), repaired, frame kept, idempotent. -/
theorem mirror_population [FloorRing F] {S : Type} (dom : List (F × F)) (hd : ∀ d ∈ dom, d.1 < d.2)
    (fuel : Nat) (hf : 1 ≤ fuel)
    (below : List (List (List F))) (top : List (List F)) (hdim : ∀ sol ∈ top, sol.length = dom.length) (s : S) :
    ∃ top', boundaryConstraint (mirOp remE fuel dom) (below ++ [top]) s = some (below ++ [top'], s) ∧
      List.Forall₂ (Repaired dom) top top' ∧
      ∀ s2 : S, boundaryConstraint (mirOp remE fuel dom) (below ++ [top']) s2 = some (below ++ [top'], s2) := by
  obtain ⟨top', hc⟩ := constrainAll_returns (mirOp (S := S) remE fuel dom) top s (fun sol hsol => by
    obtain ⟨ys, hys, _⟩ := zipDomainM_all (mirror remE fuel) (fun _ _ => True) sol dom (hdim sol hsol)
      (fun k _ hk' => by
        obtain ⟨y, hy, _⟩ := mirror_returns dom[k].1 dom[k].2 sol[k] (hd _ (List.getElem_mem hk')) fuel hf
        exact ⟨y, hy, trivial⟩)
    exact ⟨ys, by simp [mirOp, hys]⟩)
  have hb : boundaryConstraint (mirOp remE fuel dom) (below ++ [top]) s = some (below ++ [top'], s) := by
    rw [boundaryConstraint_concat, hc]
  obtain ⟨hr, hid⟩ := constrainAll_repairs (mirOp (S := S) remE fuel dom) dom
    (fun sol s y s' h => mirror_solution_repaired remE fuel dom sol y s s' h)
    (fun ys s hi => by
      have := zipDomainM_fixed (mirror remE fuel) (fun d x => d.1 ≤ x ∧ x ≤ d.2)
        (fun x d hi => mirror_fix_inside remE d.1 d.2 x fuel hi.1 hi.2) ys dom hi
      simp [mirOp, this])
    below top top' s s hc
  exact ⟨top', hb, hr, hid⟩

/-- The resampling operator through the driver, for every script of deviates: if it returns, the
frame is kept, every solution of the current population is repaired, and a second application —
with ANY further script — changes nothing and consumes nothing. -/
theorem onetailed_population (dom : List (F × F)) (stack stack' : List (List (List F)))
    (script rest : List F) (h : boundaryConstraint (otnOp dom) stack script = some (stack', rest)) :
    ∃ below top top', stack = below ++ [top] ∧ stack' = below ++ [top'] ∧
      List.Forall₂ (Repaired dom) top top' ∧
      ∀ script2 : List F, boundaryConstraint (otnOp dom) stack' script2 = some (stack', script2) :=
  boundaryConstraint_repairs (otnOp dom) dom
    (fun sol s y s' h => onetailed_solution_repaired dom sol y s s' h)
    (fun ys s hi => oneTailedSolution_fixed (fun d x => d.1 ≤ x ∧ x ≤ d.2)
      (fun a b sc x hi => oneTailedLoop_inside a b sc x hi.1 hi.2) ys dom s hi)
    stack stack' script rest h

end Driver

/-! ### Every operator keeps the dimension of the solution -/

theorem repair_keeps_dimension {F : Type} (f : F → F × F → F) (g : F → F × F → Option F)
    (xs : List F) (dom : List (F × F)) :
    (zipDomain f xs dom).length = xs.length ∧
    (∀ ys, zipDomainM g xs dom = some ys → ys.length = xs.length) :=
  ⟨zipDomain_length f xs dom, zipDomainM_length g xs dom⟩

theorem onetailed_keeps_dimension {F : Type} [Add F] [Sub F] [Mul F] [Div F] [LT F] [DecidableLT F] [OfNat F 3]
    (xs : List F) (dom : List (F × F)) (script ys rest : List F)
    (h : oneTailedSolution xs dom script = some (ys, rest)) : ys.length = xs.length :=
  oneTailedSolution_length xs dom script ys rest h

/-! ### Initialisation -/

/-- The initialisation driver pushes exactly one population and leaves the populations below alone;
its individuals are the generated solutions, all unevaluated. -/
theorem init_pushes_one {σ : Type} (stack : List (List (Ind σ))) (sols : List σ) :
    (initPush stack sols).length = stack.length + 1 ∧
    (initPush stack sols).take stack.length = stack ∧
    (initPush stack sols).getLast? = some (intoIndividuals sols) ∧
    (initEmpty stack).length = stack.length + 1 ∧ (initEmpty stack).getLast? = some [] := by
  simp [initPush, initEmpty]

/-- Whatever the generator returned (`RandomSpread`, `RandomPermutation`, `RandomBitstring` alike): the
pushed population holds exactly these solutions, in order, every one of them unevaluated. -/
theorem init_population_unevaluated {σ : Type} (stack : List (List (Ind σ))) (sols : List σ) :
    ∃ pop, (initPush stack sols).getLast? = some pop ∧ pop.length = sols.length ∧
      pop.map (·.sol) = sols ∧ ∀ ind ∈ pop, ind.evaluated = false := by
  refine ⟨intoIndividuals sols, by simp [initPush], by simp [intoIndividuals], ?_, ?_⟩
  · simp [intoIndividuals, Function.comp_def]
  · intro ind hind
    simp only [intoIndividuals, List.mem_map] at hind
    obtain ⟨_, _, rfl⟩ := hind
    rfl

/-- `RandomSpread` creates exactly `n` unevaluated individuals of the problem's dimension. -/
theorem init_count_dim_unevaluated {F : Type} (dom : List (F × F)) (n : Nat) (draw : Nat → Nat → F) :
    (intoIndividuals (randomSpread dom n draw)).length = n ∧
    (∀ i ∈ intoIndividuals (randomSpread dom n draw), i.evaluated = false ∧ i.sol.length = dom.length) := by
  constructor
  · simp [intoIndividuals, randomSpread]
  · intro i hi
    simp only [intoIndividuals, randomSpread, List.map_map, List.mem_map, List.mem_range] at hi
    obtain ⟨k, _, rfl⟩ := hi
    simp

/-- The sampler's contract, per draw: the value returned for coordinate `j` of any individual lies in
the range that was passed to THAT call, i.e. `domain[j]` (half-open, as `gen_range(a..b)` promises). -/
def SamplerContract {F : Type} [LT F] [LE F] (dom : List (F × F)) (draw : Nat → Nat → F) : Prop :=
  ∀ i j (hj : j < dom.length), dom[j].1 ≤ draw i j ∧ draw i j < dom[j].2

/-- The assembled population of `RandomSpread`: pushed as ONE new population of exactly `n`
unevaluated individuals, each of the problem's dimension, every coordinate `k` of every individual
within the bounds of ITS OWN dimension `k` — for per-dimension different ranges. -/
theorem random_spread_population {F : Type} [LT F] [LE F] (stack : List (List (Ind (List F))))
    (dom : List (F × F)) (n : Nat) (draw : Nat → Nat → F) (hc : SamplerContract dom draw) :
    (initPush stack (randomSpread dom n draw)).length = stack.length + 1 ∧
    ∃ pop, (initPush stack (randomSpread dom n draw)).getLast? = some pop ∧ pop.length = n ∧
      ∀ ind ∈ pop, ind.evaluated = false ∧ ind.sol.length = dom.length ∧
        ∀ k (hk : k < ind.sol.length) (hd : k < dom.length), dom[k].1 ≤ ind.sol[k] ∧ ind.sol[k] < dom[k].2 := by
  refine ⟨by simp [initPush], intoIndividuals (randomSpread dom n draw), by simp [initPush], by simp [intoIndividuals, randomSpread], ?_⟩
  intro ind hind
  simp only [intoIndividuals, randomSpread, List.map_map, List.mem_map, List.mem_range] at hind
  obtain ⟨i, _, rfl⟩ := hind
  refine ⟨rfl, by simp, ?_⟩
  intro k hk hd
  simpa using hc i k hd

/-- A sampler that ignores the per-coordinate range (one range for all coordinates) does NOT satisfy
the contract on a domain with different ranges: the hypothesis is about the sampler, not the result. -/
example : ¬ SamplerContract [((0 : Int), (1 : Int)), (10, 20)] (fun _ _ => 0) := by
  intro h; have := (h 0 1 (by decide)).1; revert this; decide
example : SamplerContract [((0 : Int), (1 : Int)), (10, 20), (-5, -4)]
    (fun _ j => if j = 0 then 0 else if j = 1 then 15 else -5) := by
  intro i j hj
  have : j = 0 ∨ j = 1 ∨ j = 2 := by simp at hj; omega
  rcases this with rfl | rfl | rfl <;> simp

/-- `RandomPermutation`: for every legal shuffle witness each individual is a permutation of all
positions `0..dim`, and there are exactly `n` of them. -/
theorem random_permutation_perm (dim n : Nat) (σ : Nat → List Nat) (pops : List (List Nat))
    (h : randomPermutation dim n σ = some pops) (hσ : ∀ i < n, (σ i).Perm (List.range dim)) :
    pops.length = n ∧ ∀ p ∈ pops, p.Perm (List.range dim) := by
  unfold randomPermutation at h
  have hmap := mapM_map_some _ _ _ h
  constructor
  · have := congrArg List.length hmap; simpa using this
  · intro p hp
    have : some p ∈ pops.map some := List.mem_map.mpr ⟨p, hp, rfl⟩
    rw [hmap] at this
    simp only [List.mem_map, List.mem_range] at this
    obtain ⟨i, hi, hsh⟩ := this
    exact shuffleBy_perm (σ i) (List.range dim) p hsh (by simpa using hσ i hi)

/-- … and for legal witnesses the model does not panic (every `σ i` has a source for each position). -/
theorem random_permutation_returns (dim n : Nat) (σ : Nat → List Nat)
    (hσ : ∀ i < n, (σ i).Perm (List.range dim)) :
    ∃ pops, randomPermutation dim n σ = some pops := by
  unfold randomPermutation
  have : ∀ l : List Nat, (∀ i ∈ l, i < n) →
      ∃ pops, l.mapM (fun i => shuffleBy (σ i) (List.range dim)) = some pops := by
    intro l
    induction l with
    | nil => intro _; exact ⟨[], rfl⟩
    | cons a t ih =>
      intro h
      obtain ⟨ps, hps⟩ := ih (fun i hi => h i (by simp [hi]))
      have ha := hσ a (h a (by simp))
      obtain ⟨r, hr⟩ : ∃ r, shuffleBy (σ a) (List.range dim) = some r := by
        unfold shuffleBy
        have hall : ∀ i ∈ σ a, i < (List.range dim).length := by
          intro i hi; simpa using ha.mem_iff.mp hi
        generalize σ a = w at hall
        induction w with
        | nil => exact ⟨[], rfl⟩
        | cons x w ihw =>
          obtain ⟨r, hr⟩ := ihw (fun i hi => hall i (by simp [hi]))
          have hx := hall x (by simp)
          exact ⟨(List.range dim)[x] :: r, by simp [List.mapM_cons, List.getElem?_eq_getElem hx, hr]⟩
      exact ⟨r :: ps, by simp [List.mapM_cons, hr, hps]⟩
  exact this (List.range n) (by intro i hi; simpa using hi)

/-- `RandomBitstring` with a probability in `[0,1]` creates `n` bitstrings of the problem's dimension. -/
theorem random_bitstring_shape (dim n : Nat) (bit : Nat → Nat → Bool) :
    ∃ pops, randomBitstring dim n true bit = some pops ∧ pops.length = n ∧ ∀ s ∈ pops, s.length = dim := by
  unfold randomBitstring
  by_cases hn : n = 0
  · subst hn; exact ⟨[], by simp, rfl, by simp⟩
  · refine ⟨(List.range n).map fun i => (List.range dim).map fun j => bit i j, by simp [hn], by simp, ?_⟩
    intro s hs
    simp only [List.mem_map, List.mem_range] at hs
    obtain ⟨i, _, rfl⟩ := hs
    simp

/-! Non-vacuity: the hypotheses are satisfiable on concrete inputs (integer arithmetic). -/
example : saturation (7 : Int) (-1, 1) = some 1 := by decide
example : saturation (7 : Int) (3, 3) = some 3 := by decide
example : mirrorIter (-1 : Int) 1 3 7 = -1 := by decide
example : mirrorLoop (-10 : Int) 10 5 (-65) = some 5 := by decide
example : oneTailedLoop (0 : Int) 9 [5, 1] (-4) = some (6, []) := by decide
example : randomPermutation 3 2 (fun i => if i = 0 then [2, 0, 1] else [1, 0, 2]) = some [[2, 0, 1], [1, 0, 2]] := by decide
example : ([2, 0, 1] : List Nat).Perm (List.range 3) := by decide
example : ∀ d ∈ [((-1 : Rat), (1 : Rat)), (0, 10)], d.1 < d.2 := by
  intro d hd; simp at hd; rcases hd with rfl | rfl <;> norm_num
example : (0 : Rat) ≤ 7 ∧ (7 : Rat) ≤ 10 - 0 := by norm_num
/-- the fuel hypothesis of `mirror_stepwise_returns` is met by a concrete coordinate -/
example : ⌈|(7 : Rat) - (-1)| / (1 - (-1))⌉₊ ≤ 4 := by
  rw [Nat.ceil_le]; norm_num
/-- the fold on a concrete far coordinate (integer carrier, `rem_euclid` = `Int.emod`): 1e17 on [-1,1] -/
example : mirror (fun x m : Int => x % m) 1 100000000000000000 (-1, 1) = some 0 := by decide
example : mirror (fun x m : Int => x % m) 1 (-65) (-10, 10) = some 5 := by decide
example : mirrorStepwise 5 (-65 : Int) (-10, 10) = some 5 := by decide
/-- the driver on a stack of two populations (integer carrier): only the current one is repaired -/
example : boundaryConstraint (satOp [((-1 : Int), 1), (0, 10)]) [[[5, 50]], [[-7, 3], [0, 12]]] () =
    some ([[[5, 50]], [[-1, 3], [0, 10]]], ()) := by decide
example : boundaryConstraint (mirOp (fun x m : Int => x % m) 1 [((-1 : Int), 1), (0, 10)]) [[[5, 50]], [[-7, 3], [0, 12]]] () =
    some ([[[5, 50]], [[1, 3], [0, 8]]], ()) := by decide
example : boundaryConstraint (otnOp [((0 : Int), 9)]) [[[-4], [5]]] [6, 1] = some ([[[6], [5]]], []) := by decide
/-- a coordinate within one width: the hypotheses of `mirror_near_is_stepwise` -/
example : (-1 : Rat) - (1 - (-1)) ≤ -3 ∧ (-3 : Rat) ≤ 1 + (1 - (-1)) := by norm_num

end MahfModel.Props.C14
