/-
C16 — every shipped heuristic template keeps the population stack balanced.

* `balanced_sound` / `loop_passes_balanced`: the stack-effect analysis is sound for EVERY execution of
  the abstract interpreter (all condition outcomes, all iteration counts, all failure points, any fuel).
* `<template>_v<i>_balanced`: the analysis, evaluated by the kernel on the component tree that the
  real constructor built in THIS run (`Generated/Templates.lean`, regenerated from `/repo` on every
  check), answers `true` for all 21 templates (the iterated-local-search templates since repair 364645e; before
  it their loop body had net effect +1).  For ALL parameter values: `Props/C16Param.lean`.
-/
import MahfModel.Proofs.C16
import MahfModel.Generated.Templates
namespace MahfModel.Props.C16
open MahfModel.Tpl MahfModel.Generated

/-- Soundness: if the analysis assigns effect `k`, every terminating execution changes the height by
exactly `k`, and every loop pass completed during it ended at the height it started from. -/
theorem effect_sound (o : Oracle) (fuel : Nat) (c : Comp) (s s' : St) (k : Int)
    (he : effect c = some k) (h : exec o fuel c s = some s') :
    s'.height = s.height + k ∧ (s.passesBalanced = true → s'.passesBalanced = true) :=
  exec_sound o fuel c s s' k he h

/-- A balanced configuration started on the empty stack ends with exactly one population, and every
loop pass of the run was height-neutral — whatever the conditions, seeds and iteration counts. -/
theorem balanced_sound (o : Oracle) (fuel : Nat) (c : Comp) (s' : St)
    (hb : balanced c = true)
    (h : exec o fuel c { height := 0, tick := 0, passesBalanced := true } = some s') :
    s'.height = 1 ∧ s'.passesBalanced = true := by
  have he : effect c = some 1 := by simpa [balanced] using hb
  have := exec_sound o fuel c _ s' 1 he h
  exact ⟨by simpa using this.1, this.2 rfl⟩

/-- A loop whose body has a definite non-zero effect is rejected by the analysis. -/
theorem loop_needs_neutral_body (b : Comp) (k : Int) (hk : k ≠ 0) (hb : effect b = some k) :
    effect (.loop b) = none := by
  simp only [effect, hb]
  split
  · rename_i h; exact absurd (Option.some.inj h) hk
  · rfl

/-- An unknown component is never assumed harmless. -/
theorem opaque_refused : effect (.leaf .opaque) = none := rfl

/-- ILS after the repair 364645e (the scoped local search is the `ls` loop only), on the tree as regenerated from
the code: one outer pass with one pass of the nested local search ends with ONE population on the stack and every
pass was height-neutral. (Before the repair the same execution ended with two populations: the scoped search brought
its own initialisation.) The general statement is `real_ils_v*_balanced` / `permutation_ils_v*_balanced` below
together with `balanced_sound`. -/
theorem ils_pass_balanced_exhibited :
    (exec ⟨fun t => t == 3 || t == 8, fun _ => false, fun _ => 0⟩ 200 real_ils_v0
      { height := 0, tick := 0, passesBalanced := true }).map (fun s => (s.height, s.passesBalanced))
      = some (1, true) := by decide

/-! Non-vacuity: a concrete run of a concrete balanced tree. -/
example : balanced real_ga_v0 = true := by decide
example : (exec ⟨fun t => t < 40, fun _ => false, fun _ => 0⟩ 200 real_ga_v0
    { height := 0, tick := 0, passesBalanced := true }).map (·.height) = some 1 := by decide

/-! ### Per-template obligations on the regenerated trees -/
theorem real_ga_v0_balanced : balanced real_ga_v0 = true := by decide
theorem real_ga_v1_balanced : balanced real_ga_v1 = true := by decide
theorem real_ga_v2_balanced : balanced real_ga_v2 = true := by decide
theorem real_ga_v3_balanced : balanced real_ga_v3 = true := by decide
theorem binary_ga_v0_balanced : balanced binary_ga_v0 = true := by decide
theorem binary_ga_v1_balanced : balanced binary_ga_v1 = true := by decide
theorem binary_ga_v2_balanced : balanced binary_ga_v2 = true := by decide
theorem binary_ga_v3_balanced : balanced binary_ga_v3 = true := by decide
theorem real_es_v0_balanced : balanced real_es_v0 = true := by decide
theorem real_es_v1_balanced : balanced real_es_v1 = true := by decide
theorem real_es_v2_balanced : balanced real_es_v2 = true := by decide
theorem real_es_v3_balanced : balanced real_es_v3 = true := by decide
theorem real_de_v0_balanced : balanced real_de_v0 = true := by decide
theorem real_de_v1_balanced : balanced real_de_v1 = true := by decide
theorem real_de_v2_balanced : balanced real_de_v2 = true := by decide
theorem real_de_v3_balanced : balanced real_de_v3 = true := by decide
theorem real_pso_v0_balanced : balanced real_pso_v0 = true := by decide
theorem real_pso_v1_balanced : balanced real_pso_v1 = true := by decide
theorem real_pso_v2_balanced : balanced real_pso_v2 = true := by decide
theorem real_pso_v3_balanced : balanced real_pso_v3 = true := by decide
theorem real_sa_v0_balanced : balanced real_sa_v0 = true := by decide
theorem real_sa_v1_balanced : balanced real_sa_v1 = true := by decide
theorem real_sa_v2_balanced : balanced real_sa_v2 = true := by decide
theorem real_sa_v3_balanced : balanced real_sa_v3 = true := by decide
theorem permutation_sa_v0_balanced : balanced permutation_sa_v0 = true := by decide
theorem permutation_sa_v1_balanced : balanced permutation_sa_v1 = true := by decide
theorem permutation_sa_v2_balanced : balanced permutation_sa_v2 = true := by decide
theorem permutation_sa_v3_balanced : balanced permutation_sa_v3 = true := by decide
theorem real_ls_v0_balanced : balanced real_ls_v0 = true := by decide
theorem real_ls_v1_balanced : balanced real_ls_v1 = true := by decide
theorem real_ls_v2_balanced : balanced real_ls_v2 = true := by decide
theorem real_ls_v3_balanced : balanced real_ls_v3 = true := by decide
theorem permutation_ls_v0_balanced : balanced permutation_ls_v0 = true := by decide
theorem permutation_ls_v1_balanced : balanced permutation_ls_v1 = true := by decide
theorem permutation_ls_v2_balanced : balanced permutation_ls_v2 = true := by decide
theorem permutation_ls_v3_balanced : balanced permutation_ls_v3 = true := by decide
theorem real_ils_v0_balanced : balanced real_ils_v0 = true := by decide
theorem real_ils_v1_balanced : balanced real_ils_v1 = true := by decide
theorem real_ils_v2_balanced : balanced real_ils_v2 = true := by decide
theorem real_ils_v3_balanced : balanced real_ils_v3 = true := by decide
theorem permutation_ils_v0_balanced : balanced permutation_ils_v0 = true := by decide
theorem permutation_ils_v1_balanced : balanced permutation_ils_v1 = true := by decide
theorem permutation_ils_v2_balanced : balanced permutation_ils_v2 = true := by decide
theorem permutation_ils_v3_balanced : balanced permutation_ils_v3 = true := by decide
theorem real_rs_v0_balanced : balanced real_rs_v0 = true := by decide
theorem real_rs_v1_balanced : balanced real_rs_v1 = true := by decide
theorem real_rs_v2_balanced : balanced real_rs_v2 = true := by decide
theorem real_rs_v3_balanced : balanced real_rs_v3 = true := by decide
theorem permutation_rs_v0_balanced : balanced permutation_rs_v0 = true := by decide
theorem permutation_rs_v1_balanced : balanced permutation_rs_v1 = true := by decide
theorem permutation_rs_v2_balanced : balanced permutation_rs_v2 = true := by decide
theorem permutation_rs_v3_balanced : balanced permutation_rs_v3 = true := by decide
theorem real_rw_v0_balanced : balanced real_rw_v0 = true := by decide
theorem real_rw_v1_balanced : balanced real_rw_v1 = true := by decide
theorem real_rw_v2_balanced : balanced real_rw_v2 = true := by decide
theorem real_rw_v3_balanced : balanced real_rw_v3 = true := by decide
theorem permutation_rw_v0_balanced : balanced permutation_rw_v0 = true := by decide
theorem permutation_rw_v1_balanced : balanced permutation_rw_v1 = true := by decide
theorem permutation_rw_v2_balanced : balanced permutation_rw_v2 = true := by decide
theorem permutation_rw_v3_balanced : balanced permutation_rw_v3 = true := by decide
theorem real_iwo_v0_balanced : balanced real_iwo_v0 = true := by decide
theorem real_iwo_v1_balanced : balanced real_iwo_v1 = true := by decide
theorem real_iwo_v2_balanced : balanced real_iwo_v2 = true := by decide
theorem real_iwo_v3_balanced : balanced real_iwo_v3 = true := by decide
theorem real_fa_v0_balanced : balanced real_fa_v0 = true := by decide
theorem real_fa_v1_balanced : balanced real_fa_v1 = true := by decide
theorem real_fa_v2_balanced : balanced real_fa_v2 = true := by decide
theorem real_fa_v3_balanced : balanced real_fa_v3 = true := by decide
theorem real_bh_v0_balanced : balanced real_bh_v0 = true := by decide
theorem real_bh_v1_balanced : balanced real_bh_v1 = true := by decide
theorem real_bh_v2_balanced : balanced real_bh_v2 = true := by decide
theorem real_bh_v3_balanced : balanced real_bh_v3 = true := by decide
theorem real_cro_v0_balanced : balanced real_cro_v0 = true := by decide
theorem real_cro_v1_balanced : balanced real_cro_v1 = true := by decide
theorem real_cro_v2_balanced : balanced real_cro_v2 = true := by decide
theorem real_cro_v3_balanced : balanced real_cro_v3 = true := by decide
theorem ant_system_v0_balanced : balanced ant_system_v0 = true := by decide
theorem ant_system_v1_balanced : balanced ant_system_v1 = true := by decide
theorem ant_system_v2_balanced : balanced ant_system_v2 = true := by decide
theorem ant_system_v3_balanced : balanced ant_system_v3 = true := by decide
theorem max_min_ant_system_v0_balanced : balanced max_min_ant_system_v0 = true := by decide
theorem max_min_ant_system_v1_balanced : balanced max_min_ant_system_v1 = true := by decide
theorem max_min_ant_system_v2_balanced : balanced max_min_ant_system_v2 = true := by decide
theorem max_min_ant_system_v3_balanced : balanced max_min_ant_system_v3 = true := by decide

end MahfModel.Props.C16
