/-
C12 — Replacement merges the two top populations as its name says.
Property theorems only; helper lemmas are in `Proofs/C12.lean`.

`F` is the carrier of objective values: a preorder in which any two values are comparable
(`TotalLE F`) — antisymmetry is not assumed, so the theorems apply to `f64` without NaN, where `0.0`
and `-0.0` are different values that compare equal.  `w` is the witness permutation standing for the
shuffle of `RandomReplacement` and for the tie order of `sort_unstable` in `MuPlusLambda`
(`Legal w n` : `w` is a permutation of `0 … n-1`).  All theorems hold for every legal witness.
-/
import MahfModel.Proofs.C12
import MahfModel.Proofs.C12Uniform
namespace MahfModel.Props.C12
open MahfModel.Replacement

variable {F : Type} [Preorder F] [DecidableLE F] [DecidableLT F]

/-- Every individual of both populations carries an objective value. -/
def Evaluated (parents offspring : Pop F) : Prop := ∀ x ∈ parents ++ offspring, x.obj.isSome

/-- Two populations are consumed and exactly one is pushed when `replace` succeeds; when it fails
(`Err`, or a panic) both are gone and nothing is pushed; everything below is untouched. -/
theorem replace_frame (op : Op) (w : List Nat) (offspring parents : Pop F) (rest : List (Pop F)) :
    (∃ r, replace op w parents offspring = .ok r ∧
          step op w (offspring :: parents :: rest) = (r :: rest, .ok)) ∨
    (replace op w parents offspring = .error .exec ∧
          step op w (offspring :: parents :: rest) = (rest, .err)) ∨
    (replace op w parents offspring = .error .panic ∧
          step op w (offspring :: parents :: rest) = (rest, .panic)) := by
  simp only [step]
  cases h : replace op w parents offspring with
  | ok r => simp
  | error e => cases e <;> simp

/-- On evaluated populations no operator panics, and the only `Err` is `KeepBetterAtIndex` on
populations of unequal size. -/
theorem replace_outcome (op : Op) (w : List Nat) (parents offspring : Pop F)
    (hev : Evaluated parents offspring) :
    replace op w parents offspring ≠ .error .panic ∧
    (replace op w parents offspring = .error .exec ↔
      op = .keepBetterAtIndex ∧ parents.length ≠ offspring.length) := by
  have hany : (parents ++ offspring).any (fun i => i.obj.isNone) = false := by
    rw [List.any_eq_false]
    intro x hx
    have := hev x hx
    cases hx' : x.obj <;> simp_all
  cases op with
  | discardOffspring => simp [replace]
  | generational => simp [replace]
  | merge => simp [replace]
  | muPlusLambda mu => simp [replace, hany]
  | randomReplacement mu => simp [replace]
  | keepBetterAtIndex =>
    by_cases hl : parents.length = offspring.length
    · obtain ⟨r, hr⟩ := keepBetter_ok parents offspring hl
        (fun x hx => hev x (by simp [hx])) (fun x hx => hev x (by simp [hx]))
      simp [replace, hl, hr]
    · simp [replace, hl]

/-- The result contains only individuals (tag *and* objective) of parents and offspring, each at
most as often as it occurred there. -/
theorem replace_subbag (op : Op) (w : List Nat) (parents offspring r : Pop F)
    (hw : Legal w (parents ++ offspring).length)
    (h : replace op w parents offspring = .ok r) : SubBag r (parents ++ offspring) := by
  cases op with
  | discardOffspring =>
    simp only [replace] at h; injection h with h; subst h
    exact ⟨offspring, List.Perm.refl _⟩
  | generational =>
    simp only [replace] at h; injection h with h; subst h
    exact ⟨parents, List.perm_append_comm⟩
  | merge =>
    simp only [replace] at h; injection h with h; subst h
    exact subBag_refl _
  | muPlusLambda mu =>
    simp only [replace] at h
    split at h
    · cases h
    · injection h with h; subst h
      exact subBag_take_of_perm ((List.mergeSort_perm _ _).trans (permute_perm _ w hw)) mu
  | randomReplacement mu =>
    simp only [replace] at h; injection h with h; subst h
    exact subBag_take_of_perm (permute_perm _ w hw) mu
  | keepBetterAtIndex =>
    simp only [replace] at h
    split at h
    · exact keepBetter_subBag _ _ _ h
    · cases h

theorem discard_offspring_eq_parents (w : List Nat) (parents offspring : Pop F) :
    replace .discardOffspring w parents offspring = .ok parents := rfl

theorem generational_eq_offspring (w : List Nat) (parents offspring : Pop F) :
    replace .generational w parents offspring = .ok offspring := rfl

theorem merge_eq_append (w : List Nat) (parents offspring : Pop F) :
    replace .merge w parents offspring = .ok (parents ++ offspring) := rfl

/-- `MuPlusLambda(μ)` keeps `min μ (a+b)` individuals, the kept and the discarded ones together are
exactly parents + offspring, and no discarded individual is strictly better than a kept one —
whatever order `sort_unstable` gives to equal keys. -/
theorem mu_plus_lambda_k_best (tot : TotalLE F) (mu : Nat) (w : List Nat) (parents offspring : Pop F)
    (hw : Legal w (parents ++ offspring).length) (hev : Evaluated parents offspring) :
    ∃ kept discarded, replace (.muPlusLambda mu) w parents offspring = .ok kept ∧
      kept.length = min mu (parents.length + offspring.length) ∧
      (kept ++ discarded).Perm (parents ++ offspring) ∧
      ∀ x ∈ kept, ∀ y ∈ discarded, ∀ a b, x.obj = some a → y.obj = some b → ¬ b < a := by
  have hany : (parents ++ offspring).any (fun i => i.obj.isNone) = false := by
    rw [List.any_eq_false]
    intro x hx
    have := hev x hx
    cases hx' : x.obj <;> simp_all
  let sorted := (permute (parents ++ offspring) w).mergeSort leInd
  refine ⟨sorted.take mu, sorted.drop mu, ?_, ?_, ?_, ?_⟩
  · simp [replace, hany, sorted]
  · simp only [sorted, List.length_take, List.length_mergeSort, permute_length _ w hw, List.length_append]
  · rw [List.take_append_drop]
    exact (List.mergeSort_perm _ _).trans (permute_perm _ w hw)
  · have hs : List.Pairwise (fun a b => leInd a b = true) sorted :=
      List.pairwise_mergeSort leInd_trans (leInd_total tot) _
    rw [← List.take_append_drop mu sorted, List.pairwise_append] at hs
    intro x hx y hy a b ha hb
    have := hs.2.2 x hx y hy
    simp only [leInd, ha, hb, leO, decide_eq_true_eq] at this
    exact not_lt_of_ge this

/-- `RandomReplacement(μ)` keeps `min μ (a+b)` individuals, each taken from parents + offspring at
most as often as it occurred there. -/
theorem random_replacement_subbag_len (mu : Nat) (w : List Nat) (parents offspring : Pop F)
    (hw : Legal w (parents ++ offspring).length) :
    ∃ r, replace (.randomReplacement mu) w parents offspring = .ok r ∧
      r.length = min mu (parents.length + offspring.length) ∧ SubBag r (parents ++ offspring) := by
  refine ⟨_, rfl, ?_, subBag_take_of_perm (permute_perm _ w hw) mu⟩
  simp only [List.length_take, permute_length _ w hw, List.length_append]

/-- The property predicate cannot tell two orders of `MuPlusLambda`'s result apart: which
individuals survive is fixed (up to ties), their order inside the population is not part of the
statement.  This is what allows the correspondence check to compare `MuPlusLambda` results as
multisets (`agreeUpToOrder`). -/
theorem mu_plus_lambda_order_free {G : Type} [DecidableEq G] [LT G] [DecidableLT G] (mu : Nat)
    (stack : List (Pop G)) (r r' : Pop G) (rest' : List (Pop G)) (h : r.Perm r') :
    violation (.muPlusLambda mu) stack (r :: rest') .ok
      = violation (.muPlusLambda mu) stack (r' :: rest') .ok := by
  match stack with
  | [] => simp [violation]
  | [_] => simp [violation]
  | offspring :: parents :: rest =>
    simp only [violation]
    rw [subBagB_perm _ h, h.length_eq, bagDiff_perm_right _ h,
      noBetterDiscardedB_perm h (List.Perm.refl _)]

/-- Soundness of the order-insensitive comparison used for `MuPlusLambda` in step K: whenever it
accepts, the implementation's result is a permutation of the model's result over the same rest of
the stack, and the property predicate gives the same verdict on both. -/
theorem agree_up_to_order_sound (op : Op) (stack mstack stack' : List (Pop Bits)) (mout out : Outcome)
    (h : agreeUpToOrder op mstack mout stack' out = true) :
    (∃ mu m r rest, op = .muPlusLambda mu ∧ mout = .ok ∧ out = .ok ∧ mstack = m :: rest ∧
      stack' = r :: rest ∧ m.Perm r) ∧
    violation op stack stack' out = violation op stack mstack mout := by
  unfold agreeUpToOrder at h
  split at h
  · next mu m mrest r rest =>
    simp only [Bool.and_eq_true, decide_eq_true_eq] at h
    obtain ⟨hrest, hp⟩ := h
    subst hrest
    have hp := permB_iff.1 hp
    exact ⟨⟨mu, m, r, mrest, rfl, rfl, rfl, rfl, rfl, hp⟩,
      (mu_plus_lambda_order_free mu stack m r mrest hp).symm⟩
  · cases h

/-- The second relaxation of step K (`agreeOutsideDomain`: the exact point at which `MuPlusLambda`
panics on an unevaluated individual is not pinned) can only ever accept inputs outside the
property's quantifier — a stack whose two top populations contain an unevaluated individual, on
which the property predicate does not judge. -/
theorem agree_outside_domain_is_outside (op : Op) (w : List Nat) (stack stack' : List (Pop Bits))
    (out : Outcome) (h : agreeOutsideDomain op w stack stack' out = true) :
    (∃ o p rest, stack = o :: p :: rest ∧ ∃ x ∈ p ++ o, x.obj = none) ∧
    violation op stack stack' out = none := by
  unfold agreeOutsideDomain at h
  split at h
  · next mu o p rest =>
    simp only [Bool.and_eq_true] at h
    have hany := h.1
    refine ⟨⟨o, p, rest, rfl, ?_⟩, ?_⟩
    · obtain ⟨x, hx, hn⟩ := List.any_eq_true.1 hany
      exact ⟨x, hx, by simpa using hn⟩
    · simp [violation, hany]
  · cases h

/-- `RandomReplacement(μ)` keeps exactly the individuals at the positions named by the first `μ`
entries of the witness. -/
theorem random_replacement_kept_positions (mu : Nat) (w : List Nat) (parents offspring : Pop F)
    (hw : Legal w (parents ++ offspring).length) :
    replace (.randomReplacement mu) w parents offspring
      = .ok (permute (parents ++ offspring) (w.take mu)) := by
  simp only [replace]
  rw [permute_take _ w mu hw]

/-- "μ *random* ones": the legal witnesses for `n` individuals are exactly the members of
`witnesses n`, each listed once, `n!` in all — a uniform shuffle picks each with the same
probability — and exactly `min μ n · (n-1)!` of them keep position `i` (written without division).
So under a uniform shuffle every parent and every offspring survives with the same probability
`min μ n / n`.  (That `SliceRandom::shuffle` is uniform is trusted and tied by the frequency oracle
of the check, sites `RandomReplacement/freq`.) -/
theorem random_replacement_uniform_survival (mu n i : Nat) (hi : i < n) :
    (∀ w, w ∈ witnesses n ↔ Legal w n) ∧ (witnesses n).Nodup ∧
    (witnesses n).length = n.factorial ∧
    (witnesses n).countP (fun w => decide (i ∈ w.take mu)) * n = min mu n * n.factorial :=
  ⟨fun _ => mem_witnesses, witnesses_nodup n, witnesses_length n, by
    rw [countP_eq_keepCard]; exact keepCard_mul n mu i hi⟩

/-- `KeepBetterAtIndex`: unequal sizes are an `Err`; otherwise position `i` of the result is the
offspring iff it is strictly better than the parent at `i` — ties and worse offspring keep the parent
(third conjunct: the second one read with `≤`). -/
theorem keep_better_at_index (w : List Nat) (parents offspring : Pop F)
    (hev : Evaluated parents offspring) :
    (parents.length ≠ offspring.length →
      replace .keepBetterAtIndex w parents offspring = .error .exec) ∧
    (parents.length = offspring.length →
      ∃ r, replace .keepBetterAtIndex w parents offspring = .ok r ∧ r.length = parents.length ∧
        ∀ i (hp : i < parents.length) (ho : i < offspring.length) (hr : i < r.length) (a b : F),
          parents[i].obj = some a → offspring[i].obj = some b →
          (b < a → r[i] = offspring[i]) ∧ (¬ b < a → r[i] = parents[i]) ∧
          (a ≤ b → r[i] = parents[i])) := by
  constructor
  · intro hl; simp [replace, hl]
  · intro hl
    obtain ⟨r, hr⟩ := keepBetter_ok parents offspring hl
      (fun x hx => hev x (by simp [hx])) (fun x hx => hev x (by simp [hx]))
    refine ⟨r, by simp [replace, hl, hr], keepBetter_length _ _ _ hl hr, ?_⟩
    intro i hp ho hri a b ha hb
    have := keepBetter_spec parents offspring r hr hl i hp ho hri a b ha hb
    refine ⟨?_, ?_, ?_⟩
    · intro hlt; simp [this, hlt]
    · intro hnlt; simp [this, hnlt]
    · intro hle; simp [this, not_lt_of_ge hle]

/-- The executable predicate the correspondence check evaluates on the implementation's output
(`violation … = none` ⇔ "C12 holds on this observation") is satisfied by the model on every stack,
for every legal witness. -/
theorem model_satisfies_predicate [DecidableEq F] (tot : TotalLE F) (op : Op) (w : List Nat) (stack : List (Pop F))
    (hw : ∀ o p rest, stack = o :: p :: rest → Legal w (p ++ o).length) :
    violation op stack (step op w stack).1 (step op w stack).2 = none := by
  match stack, hw with
  | [], _ => simp [violation]
  | [_], _ => simp [violation]
  | offspring :: parents :: rest, hw =>
    have hw := hw _ _ _ rfl
    simp only [violation]
    split
    · rfl
    · next hany =>
      have hev : Evaluated parents offspring := by
        intro x hx
        have := List.any_eq_false.mp (eq_false_of_ne_true hany) x hx
        cases hx' : x.obj <;> simp_all
      have hout := replace_outcome op w parents offspring hev
      rcases replace_frame op w offspring parents rest with ⟨r, hr, hs⟩ | ⟨hr, hs⟩ | ⟨hr, _⟩
      · have hne : ¬ (op = .keepBetterAtIndex ∧ parents.length ≠ offspring.length) := by
          intro hc; have := hout.2.mpr hc; rw [hr] at this; cases this
        have hsub := replace_subbag op w parents offspring r hw hr
        have hsubB := subBagB_of_subBag hsub
        rw [hs]
        cases op with
        | discardOffspring => simp_all [replace]
        | generational => simp_all [replace]
        | merge => simp_all [replace]
        | muPlusLambda mu =>
          obtain ⟨kept, disc, h1, h2, h3, h4⟩ := mu_plus_lambda_k_best tot mu w parents offspring hw hev
          rw [hr] at h1; injection h1 with h1; subst h1
          have hd := bagDiff_perm r disc _ h3
          have hnb : noBetterDiscardedB r (bagDiff (parents ++ offspring) r) = true := by
            simp only [noBetterDiscardedB, List.all_eq_true]
            intro x hx y hy
            have hy' := hd.mem_iff.mp hy
            split
            · next a b ha hb => simpa using h4 x hx y hy' a b ha hb
            · rfl
          simp [hsubB, hnb, h2]
        | randomReplacement mu =>
          obtain ⟨r', h1, h2, _⟩ := random_replacement_subbag_len mu w parents offspring hw
          rw [hr] at h1; injection h1 with h1; subst h1
          simp [hsubB, h2]
        | keepBetterAtIndex =>
          have hl : parents.length = offspring.length := by
            by_contra hc; exact hne ⟨rfl, hc⟩
          have hk : keepBetter parents offspring = .ok r := by simpa [replace, hl] using hr
          have hspec := keepBetterSpecB_of_keepBetter parents offspring r hl hk
          simp [hsubB, hspec, hl]
      · have := hout.2.mp hr
        rw [hs]
        simp [this.1, this.2]
      · exact absurd hr hout.1

/-! Non-vacuity: concrete evaluated populations and a legal, non-identity witness. -/
def exParents : Pop Int := [⟨1, some 5⟩, ⟨2, some 3⟩]
def exOffspring : Pop Int := [⟨3, some 3⟩, ⟨4, some 9⟩]
example : Legal [2, 0, 3, 1] (exParents ++ exOffspring).length := by unfold Legal; decide
example : Evaluated exParents exOffspring := by
  intro x hx; simp [exParents, exOffspring] at hx; rcases hx with h | h | h | h <;> subst h <;> rfl
example : replace (.muPlusLambda 2) [2, 0, 3, 1] exParents exOffspring
    = .ok [⟨3, some 3⟩, ⟨2, some 3⟩] := by
  simp [replace, permute, exParents, exOffspring, List.mergeSort, List.MergeSort.Internal.splitInTwo, leInd, leO]
example : replace .keepBetterAtIndex [] exParents [⟨3, some 3⟩, ⟨4, some 3⟩]
    = .ok [⟨3, some 3⟩, ⟨2, some 3⟩] := by decide
example : replace .keepBetterAtIndex [] exParents [] = .error .exec := by decide

example : TotalLE Int := fun a b => Int.le_total a b
example : Legal [2, 0, 1] 3 := by unfold Legal; decide
/-- 3 individuals, μ = 2: 4 of the 6 witnesses keep position 1 (`4 · 3 = 2 · 3!`). -/
example : (witnesses 3).countP (fun w => decide (1 ∈ w.take 2)) * 3 = 2 * 6 :=
  (random_replacement_uniform_survival 2 3 1 (by omega)).2.2.2

/-! `SZ` (Proofs/C12.lean): a carrier that is *not* a linear order — two different values tie. -/
example : TotalLE SZ := fun a b => Int.le_total a.v b.v
example : (⟨0, true⟩ : SZ) ≤ ⟨0, false⟩ ∧ (⟨0, false⟩ : SZ) ≤ ⟨0, true⟩ ∧ (⟨0, true⟩ : SZ) ≠ ⟨0, false⟩ := by
  refine ⟨?_, ?_, by decide⟩ <;> exact Int.le_refl 0
example : replace .keepBetterAtIndex [] [(⟨1, some ⟨0, false⟩⟩ : Ind SZ)] [⟨2, some ⟨0, true⟩⟩]
    = .ok [⟨1, some ⟨0, false⟩⟩] := by decide

end MahfModel.Props.C12
