/-
C13 — the adaptable parameters (`MutationRate<T>` / `MutationStrength<T>`) across the life of a `State`:
`init` establishes the component's OWN parameters whatever the state already holds — values left by an
earlier `Configuration::run`, owned by an instance of the same type and identifier in an enclosing scope, or
belonging to instances with other identifiers — so the rate-zero / dimension clauses hold there as well.
Property theorems only; helper lemmas are in `Proofs/C13State.lean`.
-/
import MahfModel.Proofs.C13State
namespace MahfModel.Props.C13
open MahfModel.Variation

variable {α : Type}

section Registry
variable {F : Type}

/-- `init` of an instance makes ITS constructor values the ones its `execute` reads — for every registry stack:
any depth, any stale `MutationRate` / `MutationStrength` of the same type and identifier in the top-most
registry (earlier run) or in any parent (enclosing scope). -/
theorem init_establishes_own_parameters (c : PComp F) (ch : PChain F) :
    compSeen c (compInit c ch) = some c.own :=
  compSeen_compInit_self c ch

/-- `init` of an instance neither changes what an instance of another type or another identifier reads, nor
touches any parent registry. -/
theorem init_leaves_other_instances (c d : PComp F) (ch : PChain F) (h : ¬ (d.kind = c.kind ∧ d.ident = c.ident)) :
    compSeen d (compInit c ch) = compSeen d ch ∧ (compInit c ch).below = ch.below :=
  ⟨compSeen_compInit_other c d ch h, compInit_below c ch⟩
end Registry

section Clause
variable {F : Type} [Field F] [LinearOrder F]

/-- After its own `init` an instance executes exactly as on a fresh state, whatever the state held before. -/
theorem execution_independent_of_prior_state (c : PComp F) (ch ch' : PChain F) (masks : List (List Bool))
    (vals pop : List (List α)) :
    compRun c (compInit c ch) masks vals pop = compRun c (compInit c ch') masks vals pop ∧
    compRun c (compInit c ch) masks vals pop = kindExec c.kind c.own (gatedPop masks vals pop) := by
  simp [compRun, init_establishes_own_parameters]

/-- The rate-zero clause on ANY state: an instance constructed with rate 0 (and, for `NormalMutation` /
`UniformMutation`, a strength its guard accepts) that has been initialised leaves the whole population
unchanged and succeeds under every legal witness — also when the state held rate 1 (or an invalid rate) of the
same type and identifier from an earlier run or an enclosing scope. -/
theorem rate_zero_identity_on_any_state (c : PComp F) (ch : PChain F) (hr : c.rate = .fin 0)
    (hs : kindExec c.kind ⟨c.strength, .fin 0⟩ () = .ok ())
    (masks : List (List Bool)) (vals pop : List (List α)) (hm : masksLegal (Param.fin (0 : F)) masks pop = true) :
    compRun c (compInit c ch) masks vals pop = .ok pop := by
  have hz : rateIsZero (Param.fin (0 : F)) = true := by simp [rateIsZero]
  have hid := gatedPop_rate_zero (Param.fin (0 : F)) hz masks vals pop hm
  rw [(execution_independent_of_prior_state c ch ch masks vals pop).2, hid]
  simp only [PComp.own, hr]
  revert hs
  cases c.kind <;> simp only [kindExec, normalExec, uniformExec, rateExec] <;> intro hs
  · split at hs
    · cases hs
    · split at hs
      · cases hs
      · simp_all
  · split at hs
    · cases hs
    · cases hs
    · split at hs <;> simp_all
  all_goals (split at hs <;> simp_all)

/-- The dimension clause on ANY state, initialised or not, whatever parameters it holds: an execution that
succeeds keeps the number of individuals and every individual's dimension. -/
theorem dimension_kept_on_any_state (c : PComp F) (ch : PChain F) (masks : List (List Bool))
    (vals pop out : List (List α)) (h : compRun c ch masks vals pop = .ok out) :
    out.length = pop.length ∧ out.map List.length = pop.map List.length := by
  have key : out = gatedPop masks vals pop := by
    unfold compRun at h
    split at h
    · cases h
    · revert h
      cases c.kind <;> simp only [kindExec, normalExec, uniformExec, rateExec] <;> intro h
      · split at h
        · cases h
        · split at h
          · cases h
          · exact (Outcome.ok.inj h).symm
      · split at h
        · cases h
        · cases h
        · split at h
          · exact (Outcome.ok.inj h).symm
          · cases h
      all_goals (split at h; exact (Outcome.ok.inj h).symm; cases h)
  rw [key]
  exact ⟨gatedPop_length masks vals pop, gatedPop_dims masks vals pop⟩
end Clause

section Config
variable {F : Type} [DecidableEq F] [LE F] [DecidableLE F] [OfNat F 0] [OfNat F 1] [OfNat F 2]

/-- Whole configurations, several runs on ONE state: blocks, loops and scopes nested to any depth, instances of
any of the six types under any identifiers; the only requirement is that instances of the same type and
identifier AT ONE LEVEL were given the same values (`wellFormed`). Then, starting from ANY state, every
execution of every instance — in every run, at every depth, in every loop pass — reads its own values. -/
theorem every_execution_reads_own_parameters (cfgs : List (Cfg F)) (ch : PChain F)
    (hw : ∀ cfg ∈ cfgs, cfg.wellFormed = true) :
    ∀ t ∈ (runAll cfgs ch).1, ∀ o ∈ t, o.seen = some o.comp.own :=
  runAll_own (fun a b => decide (a = b)) (fun _ _ h => of_decide_eq_true h) cfgs ch hw

/-- A nested scope leaves the registry stack of the enclosing configuration exactly as it found it, whatever
instances it initialised: executing a block (with all its scopes and loops) does not change the state's
parameter registries, and `init` of a block only writes the top-most registry. -/
theorem scope_leaves_enclosing_state (cfg : Cfg F) (st : RunSt F) (ch : PChain F) :
    (cfg.exec st).chain = st.chain ∧ (cfg.init ch).below = ch.below :=
  ⟨Cfg.exec_chain cfg st, Cfg.init_below cfg ch⟩

/-- A run in which no guard fails executes exactly the instances of the configuration in program order, loops
unrolled and scopes entered (`unroll`) — the order in which the check pairs the observed populations with the
instances whose own parameters they are judged against. -/
theorem run_executes_unrolled_instances (cfg : Cfg F) (ch : PChain F) (h : (cfg.run ch).live = true) :
    (cfg.run ch).trace.map (·.comp) = cfg.unroll :=
  Cfg.run_comps cfg ch h

/-- `Branch` (`if_` / `if_else_`, either arm, whatever the condition says): the `init` of a block that contains a
branch establishes the own parameters of EVERY instance in the if body and in the else body — on any state,
whatever stale values of the same type and identifier it holds — provided the level (both arms and the rest of
the block) gives instances of one type and identifier the same values. -/
theorem branch_init_establishes_both_arms (b : Bool) (tb eb rest : Cfg F) (ch : PChain F)
    (hw : levelConsistent (fun x y => decide (x = y)) (Cfg.branch b tb eb rest).level = true) :
    ∀ d ∈ tb.level ++ eb.level, compSeen d ((Cfg.branch b tb eb rest).init ch) = some d.own := by
  intro d hd
  have hmem : d ∈ (Cfg.branch b tb eb rest).level := by
    simp only [Cfg.level, List.mem_append] at hd ⊢
    rcases hd with h | h
    · exact Or.inl h
    · exact Or.inr (Or.inl h)
  exact Cfg.init_sees _ (fun _ _ h => of_decide_eq_true h) _ d ch
    (fun c hc => (levelConsistent_iff _ _).mp hw c hc d hmem) (Or.inl hmem)

/-- A run of a well-formed configuration that starts with a branch, on ANY state: the branch executes exactly the
instances of the arm its condition selects (nothing of the other arm), then the rest of the block — and every
one of these executions reads its own values. -/
theorem branch_runs_selected_arm_with_own_parameters (b : Bool) (tb eb rest : Cfg F) (ch : PChain F)
    (hw : (Cfg.branch b tb eb rest).wellFormed = true) (h : ((Cfg.branch b tb eb rest).run ch).live = true) :
    ((Cfg.branch b tb eb rest).run ch).trace.map (·.comp) = (if b then tb.unroll else eb.unroll) ++ rest.unroll ∧
    ∀ o ∈ ((Cfg.branch b tb eb rest).run ch).trace, o.seen = some o.comp.own :=
  ⟨by rw [Cfg.run_comps _ ch h]; rfl,
   Cfg.run_own (fun x y => decide (x = y)) (fun _ _ h => of_decide_eq_true h) _ ch hw⟩

/-- In particular an instance constructed with rate 0 never reads another rate. -/
theorem rate_zero_instance_reads_zero (cfgs : List (Cfg F)) (ch : PChain F)
    (hw : ∀ cfg ∈ cfgs, cfg.wellFormed = true) (z : Param F) :
    ∀ t ∈ (runAll cfgs ch).1, ∀ o ∈ t, o.comp.rate = z → ∃ p, o.seen = some p ∧ p.rate = z := by
  intro t ht o ho hz
  exact ⟨o.comp.own, every_execution_reads_own_parameters cfgs ch hw t ht o ho, hz⟩
end Config

/-! Hypotheses are satisfiable; the statements are about non-trivial states. -/

/-- a state that holds rate 1 in its top registry (earlier run) and rate 1 in a parent (enclosing scope) -/
def staleChain : PChain Int :=
  ⟨[(⟨.normal, 0, true⟩, .fin 1), (⟨.normal, 0, false⟩, .fin 25)], [[(⟨.normal, 0, true⟩, .fin 1)], []]⟩

def pairOf (p : MutParams Int) : Param Int × Param Int := (p.strength, p.rate)
example : (compSeen ⟨.normal, 0, .fin 3, .fin 0⟩ staleChain).map pairOf = some (.fin 25, .fin 1) := by decide
example : (compSeen ⟨.normal, 0, .fin 3, .fin 0⟩ (compInit ⟨.normal, 0, .fin 3, .fin 0⟩ staleChain)).map pairOf =
    some (.fin 3, .fin 0) := by decide
example : (compSeen ⟨.normal, 1, .fin 3, .fin 0⟩ staleChain).map pairOf = none := by decide
example : compRun ⟨.normal, 0, .fin 3, .fin 0⟩ (compInit ⟨.normal, 0, .fin 3, .fin 0⟩ staleChain)
    [[false, false]] [[50, 60]] [[7, 8]] = .ok [[7, 8]] := by decide
example : kindExec PKind.uniform (⟨.fin 2, .fin 0⟩ : MutParams Int) () = .ok () ∧
    kindExec PKind.bits (⟨.fin 9, .fin 0⟩ : MutParams Int) () = .ok () := by decide

/-- rm = 1 outside, rm = 0 in a scope (same type and identifier), the outer instance again afterwards, twice:
well-formed; the executions read 1, 0, 1, 1, 0, 1. A second run with rate 0 on the same state reads 0. -/
def nestedCfg : Cfg Int :=
  .loop 2 (.leaf ⟨.bitflip, 0, .nan, .fin 1⟩ (.scope (.leaf ⟨.bitflip, 0, .nan, .fin 0⟩ .done)
    (.leaf ⟨.bitflip, 0, .nan, .fin 1⟩ .done))) .done

example : nestedCfg.wellFormed = true := by decide
example : ((runAll [nestedCfg, .leaf ⟨.bitflip, 0, .nan, .fin 0⟩ .done] staleChain).1.map
    (·.map fun o => o.seen.map (·.rate))) =
    [[some (.fin 1), some (.fin 0), some (.fin 1), some (.fin 1), some (.fin 0), some (.fin 1)], [some (.fin 0)]] := by
  decide
example : (nestedCfg.run staleChain).live = true ∧ nestedCfg.unroll.length = 6 := by decide
/-- rate 1 outside; in a scope an `if_else_` whose IF arm holds the rate-0 instance of the same type and identifier
(else arm: another identifier), condition true / false; then a plain `if_` in a loop: well-formed, the executions
read 1, 0 (if arm) resp. 1, 1 (else arm, identifier 1), then 0 twice (identifier 2). -/
def branchCfg (b : Bool) : Cfg Int :=
  .leaf ⟨.bitflip, 0, .nan, .fin 1⟩
    (.scope (.branch b (.leaf ⟨.bitflip, 0, .nan, .fin 0⟩ .done) (.leaf ⟨.bitflip, 1, .nan, .fin 1⟩ .done) .done)
      (.loop 2 (.branch true (.leaf ⟨.bitflip, 2, .nan, .fin 0⟩ .done) .done .done) .done))

example : (branchCfg true).wellFormed = true ∧ (branchCfg false).wellFormed = true := by decide
example : ((branchCfg true).run staleChain).trace.map (fun o => o.seen.map (·.rate)) =
    [some (.fin 1), some (.fin 0), some (.fin 0), some (.fin 0)] := by decide
example : ((branchCfg false).run staleChain).trace.map (fun o => (o.comp.ident, o.seen.map (·.rate))) =
    [(0, some (.fin 1)), (1, some (.fin 1)), (2, some (.fin 0)), (2, some (.fin 0))] := by decide
/-- both arms belong to the level of the enclosing block: the same type and identifier with different rates in the
if arm and in the else arm is NOT well-formed (the else arm's `init` comes later and wins) -/
example : (Cfg.branch true (.leaf ⟨.bitflip, 0, .nan, .fin 0⟩ .done) (.leaf ⟨.bitflip, 0, .nan, .fin (1 : Int)⟩ .done) .done).wellFormed = false ∧
    ((Cfg.branch true (.leaf ⟨.bitflip, 0, .nan, .fin 0⟩ .done) (.leaf ⟨.bitflip, 0, .nan, .fin (1 : Int)⟩ .done) .done).run ⟨[], []⟩).trace.map
      (fun o => o.seen.map (·.rate)) = [some (.fin 1)] := by decide
/-- hypotheses of `branch_init_establishes_both_arms` / `branch_runs_selected_arm_with_own_parameters` -/
example : levelConsistent (fun x y => decide (x = y))
    (Cfg.branch true (.leaf ⟨.normal, 0, .fin 3, .fin 0⟩ .done) (.leaf ⟨.normal, 1, .fin 25, .fin (1 : Int)⟩ .done) .done).level = true ∧
    ((Cfg.branch true (.leaf ⟨.normal, 0, .fin 3, .fin 0⟩ .done) (.leaf ⟨.normal, 1, .fin 25, .fin (1 : Int)⟩ .done) .done).run staleChain).live = true := by
  decide

/-- two instances of one type and identifier with different rates at ONE level are not well-formed (the later
`init` wins: both read rate 0) -/
example : (Cfg.leaf ⟨.scramble, 0, .nan, .fin 1⟩ (.leaf ⟨.scramble, 0, .nan, .fin (0 : Int)⟩ .done)).wellFormed = false ∧
    ((Cfg.leaf ⟨.scramble, 0, .nan, .fin 1⟩ (.leaf ⟨.scramble, 0, .nan, .fin (0 : Int)⟩ .done)).run ⟨[], []⟩).trace.map
      (fun o => o.seen.map (·.rate)) = [some (.fin 0), some (.fin 0)] := by decide
/-- … with different identifiers they are, and each reads its own rate -/
example : (Cfg.leaf ⟨.scramble, 1, .nan, .fin 1⟩ (.leaf ⟨.scramble, 0, .nan, .fin (0 : Int)⟩ .done)).wellFormed = true ∧
    ((Cfg.leaf ⟨.scramble, 1, .nan, .fin 1⟩ (.leaf ⟨.scramble, 0, .nan, .fin (0 : Int)⟩ .done)).run ⟨[], []⟩).trace.map
      (fun o => o.seen.map (·.rate)) = [some (.fin 1), some (.fin 0)] := by decide

end MahfModel.Props.C13
