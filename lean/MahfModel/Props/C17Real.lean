/-
C17 — the abstract hypotheses on `exp` (`ExpSpec`) are satisfied by the real exponential function,
so the theorems of `Props/C17.lean` apply to `Real.exp` (the function `f64::exp` approximates).
-/
import MahfModel.Props.C17
import Mathlib.Analysis.Complex.Exponential
namespace MahfModel.Props.C17
open MahfModel.Sa

theorem expSpec_real : ExpSpec Real.exp :=
  ⟨Real.exp_zero, Real.exp_add, fun x => by have := Real.add_one_le_exp x; linarith⟩

/-- The Metropolis limits for the real exponential function. -/
theorem accept_limits_real (cur cand ε : ℝ) (h : cur < cand) (hε : 0 < ε) :
    (∀ T u, 0 < T → T ≤ ε * (cand - cur) → ε ≤ u → accepts Real.exp cur cand T u = false) ∧
    (∀ T u, (cand - cur) / ε ≤ T → u < 1 - ε → accepts Real.exp cur cand T u = true) :=
  accept_limits expSpec_real cur cand ε h hε

end MahfModel.Props.C17
