/-
C17 — Simulated-annealing acceptance follows the Metropolis rule; geometric cooling.
Property theorems only; helper lemmas are in `Proofs/C17.lean`.  The carrier `F` is an arbitrary
ordered field (exact arithmetic); `exp` is abstract (`ExpSpec`, satisfied by `Real.exp`, see
`Props/C17Real.lean`); `u` is the uniform draw.
-/
import MahfModel.Proofs.C17
namespace MahfModel.Props.C17
open MahfModel.Sa

variable {F : Type} [Field F] [LinearOrder F] [IsStrictOrderedRing F]

/-- A candidate at least as good as the current solution always replaces it — for every
temperature, every draw and every `exp` (the comparison short-circuits before `p` is looked at). -/
theorem accept_better_or_equal (exp : F → F) (cur cand T u : F) (hle : cand ≤ cur) :
    accepts exp cur cand T u = true ∧ drawsUsed cur cand = 0 := by
  simp [accepts, drawsUsed, hle]

example : accepts (fun x : Rat => 1 + x) 3 3 (1 / 2) (9 / 10) = true :=
  (accept_better_or_equal _ _ _ _ _ (le_refl _)).1

/-- The same on the IEEE-like carrier `Ext F` (`±∞`, `NaN`): whenever `f(cand) <= f(cur)` in the
IEEE sense — in particular for two equal `+∞` objective values, where `p = exp(∞ − ∞) = NaN` —
the candidate is accepted without a draw. (Before the `<=` fix in /repo this case was rejected.) -/
theorem accept_better_or_equal_ext (exp : Ext F → Ext F) (cur cand T u : Ext F) (hle : cand ≤ cur) :
    accepts exp cur cand T u = true ∧ drawsUsed cur cand = 0 := by
  simp [accepts, drawsUsed, hle]

theorem accept_equal_inf (exp : Ext F → Ext F) (T u : Ext F) :
    accepts exp .pinf .pinf T u = true ∧ drawsUsed (.pinf : Ext F) .pinf = 0 :=
  accept_better_or_equal_ext exp .pinf .pinf T u (by show Ext.leb _ _ = true; rfl)

/-- Infinite objective values (`+∞` = infeasible) on the IEEE-like carrier, with `exp(−∞) = 0`:
an infeasible candidate never replaces a feasible current solution (`p = exp(−∞) = 0`, no draw
`u ≥ 0` is below it), and a feasible candidate always replaces an infeasible current one. -/
theorem accept_inf_candidate (f : F → F) (atPinf : Ext F) (x t y : F) (ht : 0 < t) (hy : 0 ≤ y) :
    accepts (Ext.lift f atPinf (.fin 0)) (.fin x) .pinf (.fin t) (.fin y) = false ∧
    accepts (Ext.lift f atPinf (.fin 0)) .pinf (.fin x) (.fin t) (.fin y) = true := by
  have h1 : ((Ext.fin x : Ext F) - .pinf) / .fin t = .ninf := by
    show (if 0 ≤ t then Ext.ninf else Ext.pinf) = _
    simp [le_of_lt ht]
  constructor
  · simp only [accepts, prob, h1, Ext.lift]
    have : ¬ ((Ext.pinf : Ext F) ≤ .fin x) := by show ¬ (Ext.leb _ _ = true); simp [Ext.leb]
    have h2 : ¬ ((Ext.fin y : Ext F) < .fin 0) := by rw [Ext.fin_lt_fin]; exact not_lt.mpr hy
    simp [this, h2]
  · have : ((Ext.fin x : Ext F) ≤ .pinf) := by show (Ext.leb _ _ = true); simp [Ext.leb]
    simp [accepts, this]

example : (0 : Rat) < 1 / 1000 ∧ (0 : Rat) ≤ 0 := by norm_num

/-- A worse candidate is accepted exactly when the draw falls below `exp(−(f(cand) − f(cur)) / T)`. -/
theorem accept_worse_iff (exp : F → F) (cur cand T u : F) (h : cur < cand) :
    accepts exp cur cand T u = true ↔ u < exp (-(cand - cur) / T) := by
  have hn : ¬ cand ≤ cur := not_le.mpr h
  have e : (cur - cand) / T = -(cand - cur) / T := by ring
  simp [accepts, prob, hn, e]

example : accepts (fun x : Rat => 1 + x) 1 2 4 (1 / 2) = true :=
  (accept_worse_iff _ 1 2 4 (1 / 2) (by norm_num)).mpr (by norm_num)

/-- The acceptance probability `p = exp(−Δ/T)` of a candidate worse by `Δ > 0` lies in
`[1 − Δ/T, T/(T+Δ)]`; it grows with the temperature and shrinks with the margin. -/
theorem accept_prob_bounds {exp : F → F} (he : ExpSpec exp) (cur cand T : F) (h : cur < cand) (hT : 0 < T) :
    1 - (cand - cur) / T ≤ prob exp cur cand T ∧ prob exp cur cand T ≤ T / (T + (cand - cur)) := by
  have hd : 0 < cand - cur := sub_pos.mpr h
  have e : (cur - cand) / T = -((cand - cur) / T) := by ring
  constructor
  · have := he.lower ((cur - cand) / T)
    simp only [prob]; rw [e] at this ⊢; linarith
  · have hx : 0 ≤ (cand - cur) / T := le_of_lt (div_pos hd hT)
    have := he.neg_le_inv hx
    simp only [prob]; rw [e]
    have e2 : 1 / (1 + (cand - cur) / T) = T / (T + (cand - cur)) := by
      field_simp
    rw [← e2]; exact this

theorem accept_prob_monotone {exp : F → F} (he : ExpSpec exp) (cur cand T₁ T₂ : F) (h : cur ≤ cand)
    (h1 : 0 < T₁) (h12 : T₁ ≤ T₂) : prob exp cur cand T₁ ≤ prob exp cur cand T₂ := by
  apply he.mono
  have hd : cur - cand ≤ 0 := sub_nonpos.mpr h
  have h2 : 0 < T₂ := lt_of_lt_of_le h1 h12
  rw [div_le_div_iff₀ h1 h2]
  nlinarith

/-- Limits, stated as explicit bounds (no analysis library needed).
*Cold:* once `T ≤ ε·Δ` the acceptance probability is at most `ε`, so every draw `u ≥ ε` rejects a
candidate worse by `Δ` — "never as T approaches zero".
*Hot:* once `T ≥ Δ/ε` the probability is at least `1 − ε`, so every draw `u < 1 − ε` accepts —
"always as T grows without bound". -/
theorem accept_limits {exp : F → F} (he : ExpSpec exp) (cur cand ε : F) (h : cur < cand) (hε : 0 < ε) :
    (∀ T u, 0 < T → T ≤ ε * (cand - cur) → ε ≤ u → accepts exp cur cand T u = false) ∧
    (∀ T u, (cand - cur) / ε ≤ T → u < 1 - ε → accepts exp cur cand T u = true) := by
  have hd : 0 < cand - cur := sub_pos.mpr h
  constructor
  · intro T u hT hTs hu
    have hb := (accept_prob_bounds he cur cand T h hT).2
    have hp : prob exp cur cand T ≤ ε := by
      refine le_trans hb ?_
      rw [div_le_iff₀ (by linarith)]
      nlinarith
    have hiff := accept_worse_iff exp cur cand T u h
    have : ¬ u < exp (-(cand - cur) / T) := by
      have e : (cur - cand) / T = -(cand - cur) / T := by ring
      simp only [prob, e] at hp
      exact not_lt.mpr (le_trans hp hu)
    cases hacc : accepts exp cur cand T u with
    | false => rfl
    | true => exact absurd (hiff.mp hacc) this
  · intro T u hT hu
    have hTpos : 0 < T := lt_of_lt_of_le (div_pos hd hε) hT
    have hb := (accept_prob_bounds he cur cand T h hTpos).1
    have hq : (cand - cur) / T ≤ ε := by
      rw [div_le_iff₀ hTpos]
      rw [div_le_iff₀ hε] at hT
      linarith [mul_comm T ε]
    apply (accept_worse_iff exp cur cand T u h).mpr
    have e : (cur - cand) / T = -(cand - cur) / T := by ring
    simp only [prob, e] at hb
    linarith

/-- Stack frame: two single-individual populations (candidate on top, current below) are reduced
to one population holding the survivor; everything below is untouched; at most one draw is used
(none for a candidate that is at least as good). -/
theorem accept_frame (exp : F → F) (T u : F) (cand cur : Ind F) (rest : Stk F) :
    acceptStep exp T u ([cand] :: [cur] :: rest) =
      (.ok, [if accepts exp cur.obj cand.obj T u then cand else cur] :: rest,
       drawsUsed cur.obj cand.obj) := by
  simp only [acceptStep]
  split <;> simp

/-- Malformed frames: an empty population is an `Err` and fewer than two populations a panic;
the stack is left as it was and no draw is consumed. -/
theorem accept_frame_errors (exp : F → F) (T u : F) (p : Pop F) (i : Ind F) (q : Pop F) (rest : Stk F) :
    acceptStep exp T u (p :: [] :: rest) = (.err, p :: [] :: rest, 0) ∧
    acceptStep exp T u ([] :: (i :: q) :: rest) = (.err, [] :: (i :: q) :: rest, 0) ∧
    acceptStep exp T u [p] = (.panic, [p], 0) ∧
    acceptStep exp T u [] = (.panic, [], 0) := by
  simp [acceptStep]

/-- Geometric cooling: each execution multiplies the temperature by `alpha` exactly once — after
`n` executions the temperature is `T·alphaⁿ`, and the `k`-th recorded value is `T·alpha^(k+1)`. -/
theorem cooling_once (alpha T : F) (n : Nat) :
    cool alpha T = alpha * T ∧
    iter (cool alpha) n T = T * alpha ^ n ∧
    (coolTrace alpha n T).length = n ∧
    ∀ k, k < n → (coolTrace alpha n T)[k]? = some (T * alpha ^ (k + 1)) :=
  ⟨by simp [cool, mul_comm], iter_cool alpha n T, coolTrace_length alpha n T,
   fun k hk => coolTrace_get alpha n T k hk⟩

/-- Counting theorem behind the acceptance *probability*: `gen::<f64>()` maps a 64-bit word `w`
to `u = (w >> 11)·2⁻⁵³`. If `m = ⌈p·2⁵³⌉` (i.e. `(m−1)/2⁵³ < p ≤ m/2⁵³`, `m ≤ 2⁵³`), then exactly
`m·2¹¹` of the `2⁶⁴` words give `u < p`: the frequency over uniformly distributed words is
`m/2⁵³ ∈ [p, p + 2⁻⁵³)`. -/
theorem draws_below_count (p : F) (m : Nat) (hm : m ≤ 2 ^ 53)
    (hlo : ((m : F) - 1) / 2 ^ 53 < p) (hhi : p ≤ (m : F) / 2 ^ 53) :
    (List.range (2 ^ 64)).countP (fun w => decide (((unitNumer w : Nat) : F) / 2 ^ 53 < p)) = m * 2 ^ 11 := by
  have key : ∀ w ∈ List.range (2 ^ 64),
      (decide (((unitNumer w : Nat) : F) / 2 ^ 53 < p)) = true ↔ decide (w < m * 2 ^ 11) = true := by
    intro w hw
    have hw' : w < 2 ^ 64 := List.mem_range.mp hw
    rw [unitNumer_of_lt hw']
    have h53 : (0 : F) < 2 ^ 53 := by positivity
    have iff1 : ((w / 2 ^ 11 : Nat) : F) / 2 ^ 53 < p ↔ w / 2 ^ 11 < m := by
      constructor
      · intro hlt
        have : ((w / 2 ^ 11 : Nat) : F) / 2 ^ 53 < (m : F) / 2 ^ 53 := lt_of_lt_of_le hlt hhi
        rw [div_lt_div_iff_of_pos_right h53] at this
        exact_mod_cast this
      · intro hlt
        have h1 : w / 2 ^ 11 + 1 ≤ m := hlt
        have h2 : ((w / 2 ^ 11 : Nat) : F) + 1 ≤ (m : F) := by exact_mod_cast h1
        have h3 : ((w / 2 ^ 11 : Nat) : F) / 2 ^ 53 ≤ ((m : F) - 1) / 2 ^ 53 := by
          rw [div_le_div_iff_of_pos_right h53]; linarith
        exact lt_of_le_of_lt h3 hlo
    have iff2 : w / 2 ^ 11 < m ↔ w < m * 2 ^ 11 := Nat.div_lt_iff_lt_mul (by norm_num)
    rw [decide_eq_true_iff, decide_eq_true_iff, iff1, iff2]
  rw [List.countP_congr key, countP_lt_range]
  have : m * 2 ^ 11 ≤ 2 ^ 64 := by
    calc m * 2 ^ 11 ≤ 2 ^ 53 * 2 ^ 11 := Nat.mul_le_mul_right _ hm
      _ = 2 ^ 64 := by norm_num
  exact Nat.min_eq_left this

/-- …hence the number of generator words for which a worse candidate is accepted. -/
theorem accept_worse_count (exp : F → F) (cur cand T : F) (h : cur < cand) (m : Nat) (hm : m ≤ 2 ^ 53)
    (hlo : ((m : F) - 1) / 2 ^ 53 < exp (-(cand - cur) / T)) (hhi : exp (-(cand - cur) / T) ≤ (m : F) / 2 ^ 53) :
    (List.range (2 ^ 64)).countP (fun w => accepts exp cur cand T (((unitNumer w : Nat) : F) / 2 ^ 53)) = m * 2 ^ 11 := by
  rw [← draws_below_count (exp (-(cand - cur) / T)) m hm hlo hhi]
  apply List.countP_congr
  intro w _
  rw [decide_eq_true_iff]
  exact accept_worse_iff exp cur cand T (((unitNumer w : Nat) : F) / 2 ^ 53) h

/-- The hypotheses of `draws_below_count` are satisfiable: `p = 1/2`, `m = 2⁵²`. -/
example : ((( (2 ^ 52 : Nat) : Rat) - 1) / 2 ^ 53 < 1 / 2) ∧ ((1 : Rat) / 2 ≤ ((2 ^ 52 : Nat) : Rat) / 2 ^ 53) := by
  constructor <;> norm_num

end MahfModel.Props.C17
