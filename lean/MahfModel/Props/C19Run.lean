/-
C19 — ant colony, second part: the greedy route with the tie-breaking left open, legal sampling witnesses
("always yields"), and runs ("every pheromone state the algorithm can reach").
Property theorems only; helper lemmas are in `Proofs/C19Run.lean`.
-/
import MahfModel.Props.C19
import MahfModel.Proofs.C19Run
set_option linter.unusedSectionVars false
namespace MahfModel.Props.C19
open MahfModel.Aco

/-! ### Which of several equally strong trails the greedy route follows is not part of the property -/

section generation
variable {F : Type} [Add F] [Sub F] [Mul F] [Div F] [LT F] [LE F] [DecidableLT F] [DecidableLE F]
  [OfNat F 0] [OfNat F 1]

/-- Count and permutation clauses for EVERY way of breaking ties in the greedy route (`gw`), every
comparison `le`, every matrix, distance function, back-end and sampling witness. -/
theorem generation_any_greedy_witness (N : Num F) (le : F → F → Bool) (pm : PM F) (dist : Nat → Nat → F)
    (α β : F) (n numAnts : Nat) (gw : List Nat) (wits ts : List (List Nat)) (hn : 1 ≤ n)
    (h : generateW N le pm dist α β n numAnts gw wits = .tours ts) :
    ts.length = 1 + numAnts ∧ ∀ t ∈ ts, t.Perm (List.range n) ∧ t.head? = some 0 := by
  obtain ⟨hl, hall⟩ := generateW_spec N le pm dist α β n numAnts gw wits ts h
  refine ⟨hl, fun t ht => ?_⟩
  obtain ⟨hp, hpre⟩ := hall t ht
  refine ⟨by rw [range_eq_zero_cons n hn]; exact hp, ?_⟩
  obtain ⟨r, rfl⟩ := hpre
  simp

/-- With all trails equal every index is a legal greedy choice: the first-maximum route `0 1 2 3` and the
code's last-maximum route `0 3 2 1` are both accepted. -/
example : generateW intNum intNum.tle (PM.new 4 1) (fun _ _ => 1) 1 1 4 1 [0, 0, 0] [[1, 0, 0]] =
      .tours [[0, 1, 2, 3], [0, 2, 1, 3]] ∧
    generateW intNum intNum.tle (PM.new 4 1) (fun _ _ => 1) 1 1 4 1 [2, 1, 0] [[1, 0, 0]] =
      .tours [[0, 3, 2, 1], [0, 2, 1, 3]] ∧
    generate intNum (PM.new 4 1) (fun _ _ => 1) 1 1 4 1 [[1, 0, 0]] = .tours [[0, 3, 2, 1], [0, 2, 1, 3]] := by
  decide

/-- A choice that is not a maximal trail is refused. -/
example : generateW intNum intNum.tle ⟨3, [0, 1, 5, 1, 0, 1, 5, 1, 0]⟩ (fun _ _ => 1) 1 1 3 0 [0, 0] [] =
    .badWitness := by decide

/-- A legal sampling witness exists for every instance size and every number of ants (always take the
first remaining city) … -/
theorem legal_witness_exists (n numAnts : Nat) :
    witsLegal n numAnts (List.replicate numAnts (List.replicate (n - 1) 0)) = true := by
  simp only [witsLegal, List.length_replicate, beq_self_eq_true, Bool.true_and, List.all_eq_true]
  intro w hw
  rw [(List.mem_replicate.mp hw).2]
  exact witLegalGo_zeros (n - 1)

/-- … and the model never rejects a legal one — for every matrix, distance function, back-end: the outcome
of generation on legal draws is either a population or a panic, never "bad witness". -/
theorem legal_witness_never_rejected (N : Num F) (pm : PM F) (dist : Nat → Nat → F) (α β : F)
    (n numAnts : Nat) (wits : List (List Nat)) (hw : witsLegal n numAnts wits = true) :
    generate N pm dist α β n numAnts wits ≠ .badWitness := by
  simp only [witsLegal, Bool.and_eq_true, beq_iff_eq, List.all_eq_true] at hw
  obtain ⟨hlen, hall⟩ := hw
  have hs : ∀ (ants : Nat) (ws : List (List Nat)), ws.length = ants →
      (∀ w ∈ ws, witLegalGo w (n - 1) = true) → sampleAll N pm dist α β n ants ws ≠ .badWitness := by
    intro ants
    induction ants with
    | zero =>
      intro ws hl _
      have : ws = [] := List.length_eq_zero_iff.mp hl
      subst this
      simp [sampleAll]
    | succ ants ih =>
      intro ws hl hleg
      cases ws with
      | nil => simp at hl
      | cons w ws =>
        simp only [sampleAll]
        have h1 := sampleGo_not_bad N pm dist α β w [0] 0 (remaining0 n)
          (by rw [remaining0_length]; exact hleg w (by simp))
        cases hgo : sampleGo N pm dist α β w [0] 0 (remaining0 n) with
        | panic => simp
        | badWitness => exact absurd hgo h1
        | ok t =>
          simp only
          have h2 := ih ws (by simpa using hl) (fun v hv => hleg v (by simp [hv]))
          cases hr : sampleAll N pm dist α β n ants ws with
          | panic => simp
          | badWitness => exact absurd hr h2
          | tours ts => simp
  simp only [generate]
  cases greedyTour N pm n with
  | none => simp
  | some g =>
    simp only
    have h3 := hs numAnts wits hlen hall
    cases hr : sampleAll N pm dist α β n numAnts wits with
    | panic => simp
    | badWitness => exact absurd hr h3
    | tours ts => simp

example : witsLegal 4 2 [[1, 0, 0], [2, 1, 0]] = true ∧ witsLegal 4 2 [[1, 0, 0], [2, 2, 0]] = false ∧
    witsLegal 1 3 [[], [], []] = true := by decide

end generation

section greedy
variable {F : Type} [LinearOrder F] [OfNat F 0]

/-- Whatever legal tie-breaking the greedy route follows, it is greedy: at every step it moves to a
remaining city whose trail from the current city is maximal among all remaining cities. -/
theorem greedy_any_legal_witness_is_argmax (pm : PM F) (n : Nat) (gw g : List Nat)
    (h : greedyTourW dle pm n gw = .ok g) : greedyOk pm n g = true := by
  obtain ⟨suffix, hg, hok⟩ := greedyGoW_ok pm gw [0] 0 (remaining0 n) g (remaining0_nodup n) h
  subst hg
  simp [greedyOk, hok]

/-- The code's greedy route (`max_by(total_cmp)`, the last maximal trail) is the route of a legal witness:
the tie-agnostic model contains the code-shaped one. -/
theorem argmax_last_is_legal_witness (N : Num F) (hN : N.tle = dle) (pm : PM F) (n : Nat) (g : List Nat)
    (h : greedyTour N pm n = some g) : ∃ gw, greedyTourW dle pm n gw = .ok g :=
  greedyGo_refines N hN pm _ [0] 0 (remaining0 n) g (Nat.le_refl _) h

example : greedyTour intNum ⟨3, [0, 1, 5, 1, 0, 1, 5, 1, 0]⟩ 3 = some [0, 2, 1] ∧
    greedyTourW dle (⟨3, [0, 1, 5, 1, 0, 1, 5, 1, 0]⟩ : PM Int) 3 [1, 0] = .ok [0, 2, 1] := by decide

section
variable [Add F] [Sub F] [Mul F] [Div F] [OfNat F 1]

/-- Every generation of the code-shaped model is a generation of the tie-agnostic one. -/
theorem generate_refines_generateW (N : Num F) (hN : N.tle = dle) (pm : PM F) (dist : Nat → Nat → F) (α β : F)
    (n numAnts : Nat) (wits ts : List (List Nat)) (h : generate N pm dist α β n numAnts wits = .tours ts) :
    ∃ gw, generateW N dle pm dist α β n numAnts gw wits = .tours ts := by
  simp only [generate] at h
  cases hg : greedyTour N pm n with
  | none => simp [hg] at h
  | some g =>
    obtain ⟨gw, hgw⟩ := argmax_last_is_legal_witness N hN pm n g hg
    refine ⟨gw, ?_⟩
    simp only [hg] at h
    simp only [generateW, hgw]
    exact h

/-- `∀ input, ∀ legal witnesses, holds input (model input)` for generation with the tie-breaking left open:
all property clauses (count, permutations from city 0, first route greedy) hold of every outcome. -/
theorem holds_generation_any_witness (N : Num F) (pm : PM F) (dist : Nat → Nat → F) (α β : F)
    (n numAnts : Nat) (gw : List Nat) (wits ts : List (List Nat)) (hn : 1 ≤ n)
    (h : generateW N dle pm dist α β n numAnts gw wits = .tours ts) : holdsGen pm n numAnts ts = true := by
  obtain ⟨hc, hp⟩ := generation_any_greedy_witness N dle pm dist α β n numAnts gw wits ts hn h
  obtain ⟨g, ss, rfl, hg, _⟩ := generateW_tours N dle pm dist α β n numAnts gw wits ts h
  simp only [holdsGen, Bool.and_eq_true, beq_iff_eq, List.all_eq_true]
  exact ⟨⟨hc, fun t ht => isPermFromZero_of_perm n t (hp t ht).1 (hp t ht).2⟩,
    greedy_any_legal_witness_is_argmax pm n gw g hg⟩

example : generateW intNum dle (PM.new 4 (1 : Int)) (fun _ _ => 1) 1 1 4 1 [0, 1, 0] [[1, 0, 0]] =
      .tours [[0, 1, 3, 2], [0, 2, 1, 3]] ∧
    holdsGen (PM.new 4 (1 : Int)) 4 1 [[0, 1, 3, 2], [0, 2, 1, 3]] = true := by decide

end
end greedy

section field
variable {F : Type} [Field F] [LinearOrder F] [IsStrictOrderedRing F]

/-- "Always yields": in exact arithmetic, on a well-formed non-negative matrix and positive distances between
distinct cities, generation returns a population for EVERY legal sequence of draws (and legal sequences
exist, `legal_witness_exists`) — it neither panics nor gets stuck. -/
theorem generation_total (N : Num F) (hfin : ∀ x, N.fin x = true)
    (hpow : ∀ x a, 0 ≤ x → 0 ≤ N.pow x a) (heps : 0 < N.eps) (pm : PM F) (hwf : pm.wf = true)
    (hn : 1 ≤ pm.dim) (hnn : ∀ x ∈ pm.inner, 0 ≤ x) (dist : Nat → Nat → F)
    (hd : ∀ i j, i ≠ j → 0 < dist i j) (α β : F) (numAnts : Nat) (wits : List (List Nat))
    (hw : witsLegal pm.dim numAnts wits = true) :
    ∃ ts, generate N pm dist α β pm.dim numAnts wits = .tours ts := by
  have h1 := generation_never_panics N hfin hpow heps pm hwf hn hnn dist hd α β numAnts wits
  have h2 := legal_witness_never_rejected N pm dist α β pm.dim numAnts wits hw
  cases hg : generate N pm dist α β pm.dim numAnts wits with
  | panic => exact absurd hg h1
  | badWitness => exact absurd hg h2
  | tours ts => exact ⟨ts, rfl⟩

example : ∃ ts, generate ratNum (PM.new 3 (1 / 2 : ℚ)) (fun i j => if i = j then 0 else 7) 1 5 3 2 [[1, 0], [0, 0]] =
    .tours ts :=
  generation_total ratNum (fun _ => rfl) (fun _ _ h => h) (by norm_num [ratNum]) _ rfl (by decide)
    (by intro x hx; simp [PM.new] at hx; rw [hx]; norm_num) _
    (by intro i j h; simp [h]) _ _ _ _ (by decide)

/-! ### Runs -/

/-! `RunValid N c` (defined in `Proofs/C19Run.lean`) bundles what a run must satisfy for the property to be
claimed: an exact back-end (`fin`, `close`), a `powf` that keeps non-negative bases non-negative, the positive
offset `1e-15`, comparison = the order, at least two cities, positive distances between distinct cities, a
non-negative initial trail and valid update parameters (`kindOk`: `ρ ∈ [0,1]`, `c ≥ 0` / `0 ≤ min ≤ max`). -/

/-- Every pheromone state a run can reach — after any number of passes, whatever the sampler drew and however
greedy ties were broken — is a well-formed `n × n` matrix of non-negative trails. -/
theorem reachable_states_valid (N : Num F) (c : RunCfg F) (hv : RunValid N c) (pm : PM F)
    (h : Reach N dle c pm) : pm.wf = true ∧ pm.dim = c.n ∧ ∀ x ∈ pm.inner, 0 ≤ x := by
  induction h with
  | init => exact ⟨new_wf _ _, rfl, fun x hx => by rw [new_mem _ _ hx]; exact hv.init⟩
  | @pass pm pm' gw wits ts objs _ hstep ih =>
    obtain ⟨hwf, hdim, hnn⟩ := ih
    obtain ⟨hgen, _, hupd⟩ := stepOf_ok _ _ _ _ _ _ _ hstep
    obtain ⟨_, hperm⟩ := generation_any_greedy_witness N dle pm c.dist c.α c.β c.n c.numAnts gw wits ts
      (by have := hv.cities; omega) hgen
    obtain ⟨hr, ho⟩ := popOf_valid c.dist hv.dist c.n hv.cities ts (fun t ht => (hperm t ht).1)
    obtain ⟨q, hq, hqwf, hqdim, hqnn, _⟩ := update_valid c.kind hv.kind pm hwf hnn (popOf c.dist ts)
      (fun ind hi => by rw [hdim]; exact hr ind (List.mem_of_mem_drop hi))
      (fun ind hi => ho ind (List.mem_of_mem_drop hi))
    rw [hq] at hupd
    injection hupd with hupd
    subst hupd
    exact ⟨hqwf, hqdim.trans hdim, hqnn⟩

/-- In a max-min run every reachable state except the initial one lies within the configured bounds (the
initial matrix holds `default_pheromones`, which the constructor does not relate to the bounds). -/
theorem reachable_mmas_within_bounds (N : Num F) (c : RunCfg F) (hv : RunValid N c) (ρ hi lo : F)
    (hk : c.kind = .mmas ρ hi lo) (pm : PM F) (h : Reach N dle c pm) :
    pm = PM.new c.n c.τ0 ∨ ∀ x ∈ pm.inner, lo ≤ x ∧ x ≤ hi := by
  cases h with
  | init => exact Or.inl rfl
  | @pass pm0 _ gw wits ts objs hreach hstep =>
    right
    obtain ⟨_, _, hupd⟩ := stepOf_ok _ _ _ _ _ _ _ hstep
    have hb : lo ≤ hi := by have := hv.kind; rw [hk] at this; exact this.2
    rw [hk] at hupd
    exact (mmas_within_bounds pm0 ρ hi lo _ pm hb hupd).1

/-- On every reachable state a loop pass cannot panic — neither in generation (every weight vector handed to
`WeightedIndex::new` is legal) nor in the update — for ANY draws and ANY greedy choices, legal or not. -/
theorem pass_never_panics (N : Num F) (c : RunCfg F) (hv : RunValid N c) (pm : PM F)
    (h : Reach N dle c pm) (gw : List Nat) (wits : List (List Nat)) :
    stepW N dle c.kind pm c.dist c.α c.β c.n c.numAnts gw wits ≠ .genPanic ∧
      ∀ ts objs, stepW N dle c.kind pm c.dist c.α c.β c.n c.numAnts gw wits ≠ .updPanic ts objs := by
  obtain ⟨hwf, hdim, hnn⟩ := reachable_states_valid N c hv pm h
  have hn1 : 1 ≤ c.n := by have := hv.cities; omega
  have hgen : generateW N dle pm c.dist c.α c.β c.n c.numAnts gw wits ≠ .panic := by
    have hrem : ∀ r ∈ remaining0 pm.dim, r < pm.dim ∧ r ≠ 0 := fun r h => remaining0_mem h
    have hg := greedyGoW_no_panic dle pm hwf gw [0] 0 (remaining0 pm.dim) (by omega) (fun r h => (hrem r h).1)
    have hs := generation_never_panics N hv.fin hv.pow hv.eps pm hwf (by omega) hnn c.dist hv.dist c.α c.β
      c.numAnts wits
    rw [hdim] at hg hs
    simp only [generateW, greedyTourW]
    cases hgw : greedyGoW dle pm gw [0] 0 (remaining0 c.n) with
    | panic => exact absurd hgw hg
    | badWitness => simp
    | ok g =>
      simp only
      simp only [generate] at hs
      obtain ⟨g', hg'⟩ := Option.isSome_iff_exists.mp
        (greedyGo_isSome N pm hwf (remaining0 c.n).length [0] 0 (remaining0 c.n) (by omega)
          (fun r h => by have := (remaining0_mem h).1; omega))
      simp only [greedyTour, hg'] at hs
      cases hsa : sampleAll N pm c.dist c.α c.β c.n c.numAnts wits with
      | panic => simp [hsa] at hs
      | badWitness => simp
      | tours ss => simp
  refine ⟨stepOf_not_genPanic _ _ _ _ hgen, ?_⟩
  intro ts objs hcon
  simp only [stepW] at hcon
  cases hg : generateW N dle pm c.dist c.α c.β c.n c.numAnts gw wits with
  | panic => simp [hg, stepOf] at hcon
  | badWitness => simp [hg, stepOf] at hcon
  | tours ts' =>
    obtain ⟨_, hperm⟩ := generation_any_greedy_witness N dle pm c.dist c.α c.β c.n c.numAnts gw wits ts' hn1 hg
    obtain ⟨hr, ho⟩ := popOf_valid c.dist hv.dist c.n hv.cities ts' (fun t ht => (hperm t ht).1)
    obtain ⟨q, hq, _⟩ := update_valid c.kind hv.kind pm hwf hnn (popOf c.dist ts')
      (fun ind hi => by rw [hdim]; exact hr ind (List.mem_of_mem_drop hi))
      (fun ind hi => ho ind (List.mem_of_mem_drop hi))
    rw [hg, stepOf_of_update _ _ _ _ _ hq] at hcon
    simp at hcon

/-- Every pass from a reachable state satisfies the whole property: the population is `1 + num_ants`
permutations from city 0 with a greedy first route, its objective values are the (positive) tour lengths, and
the updated matrix satisfies every clause of the update property (entry formula, non-negative, symmetric if
it was, within the bounds for the max-min variant). -/
theorem pass_satisfies_property (N : Num F) (c : RunCfg F) (hv : RunValid N c) (pm : PM F)
    (h : Reach N dle c pm) (gw : List Nat) (wits ts : List (List Nat)) (objs : List F) (pm' : PM F)
    (hstep : stepW N dle c.kind pm c.dist c.α c.β c.n c.numAnts gw wits = .ok ts objs pm') :
    holdsGen pm c.n c.numAnts ts = true ∧ objs = ts.map (tourLen c.dist) ∧ (∀ o ∈ objs, 0 < o) ∧
      holdsUpd N c.kind pm (popOf c.dist ts) pm' = true := by
  obtain ⟨hwf, hdim, hnn⟩ := reachable_states_valid N c hv pm h
  have hn1 : 1 ≤ c.n := by have := hv.cities; omega
  obtain ⟨hgen, hobjs, hupd⟩ := stepOf_ok _ _ _ _ _ _ _ hstep
  have hholds := holds_generation_any_witness N pm c.dist c.α c.β c.n c.numAnts gw wits ts hn1 hgen
  obtain ⟨_, hperm⟩ := generation_any_greedy_witness N dle pm c.dist c.α c.β c.n c.numAnts gw wits ts hn1 hgen
  obtain ⟨hr, ho⟩ := popOf_valid c.dist hv.dist c.n hv.cities ts (fun t ht => (hperm t ht).1)
  have hr' : routesValid pm.dim ((popOf c.dist ts).drop 1) = true :=
    (routesValid_iff _ _).mpr (fun ind hi => by rw [hdim]; exact hr ind (List.mem_of_mem_drop hi))
  have ho' : ∀ ind ∈ (popOf c.dist ts).drop 1, ∃ o, ind.obj = some o ∧ 0 < o :=
    fun ind hi => ho ind (List.mem_of_mem_drop hi)
  refine ⟨hholds, hobjs, ?_, ?_⟩
  · intro o hoo
    rw [hobjs] at hoo
    obtain ⟨t, ht, rfl⟩ := List.mem_map.mp hoo
    obtain ⟨o', h1, h2⟩ := ho ⟨t, some (tourLen c.dist t)⟩ (List.mem_map.mpr ⟨t, ht, rfl⟩)
    injection h1 with h1
    rw [h1]; exact h2
  · have hk := hv.kind
    cases hkind : c.kind with
    | as ρ cc =>
      rw [hkind] at hk hupd
      obtain ⟨q, hq, hh⟩ := holds_as_update N hv.fin hv.close pm ρ cc (popOf c.dist ts) hwf hr' ⟨hk.1, hk.2.1⟩
        hk.2.2 ho' hnn
      simp only [update] at hupd
      rw [hq] at hupd
      injection hupd with hupd
      subst hupd
      exact hh
    | mmas ρ hi lo =>
      rw [hkind] at hk hupd
      obtain ⟨q, hq, hh⟩ := holds_mmas_update_any N hv.fin hv.close pm ρ hi lo (popOf c.dist ts) hwf hr'
        (fun ind hi' => by obtain ⟨o, h1, _⟩ := ho' ind hi'; simp [h1]) hk.1 hk.2
      simp only [update] at hupd
      rw [hq] at hupd
      injection hupd with hupd
      subst hupd
      exact hh

/-- On every reachable state, for every legal sequence of draws, the code-shaped pass (greedy ties broken
as `max_by` does) completes, and the state it produces is reachable again — so runs of any length exist and
stay inside the states the theorems above speak about. -/
theorem pass_total (N : Num F) (c : RunCfg F) (hv : RunValid N c) (pm : PM F) (h : Reach N dle c pm)
    (wits : List (List Nat)) (hw : witsLegal c.n c.numAnts wits = true) :
    ∃ ts objs pm', step N c.kind pm c.dist c.α c.β c.n c.numAnts wits = .ok ts objs pm' ∧
      Reach N dle c pm' := by
  obtain ⟨hwf, hdim, hnn⟩ := reachable_states_valid N c hv pm h
  have hn1 : 1 ≤ c.n := by have := hv.cities; omega
  obtain ⟨ts, hts⟩ := generation_total N hv.fin hv.pow hv.eps pm hwf (by omega) hnn c.dist hv.dist c.α c.β
    c.numAnts wits (by rw [hdim]; exact hw)
  rw [hdim] at hts
  obtain ⟨gw, hgw⟩ := generate_refines_generateW N hv.tle pm c.dist c.α c.β c.n c.numAnts wits ts hts
  obtain ⟨_, hperm⟩ := generation_any_greedy_witness N dle pm c.dist c.α c.β c.n c.numAnts gw wits ts hn1 hgw
  obtain ⟨hr, ho⟩ := popOf_valid c.dist hv.dist c.n hv.cities ts (fun t ht => (hperm t ht).1)
  obtain ⟨q, hq, _⟩ := update_valid c.kind hv.kind pm hwf hnn (popOf c.dist ts)
    (fun ind hi => by rw [hdim]; exact hr ind (List.mem_of_mem_drop hi))
    (fun ind hi => ho ind (List.mem_of_mem_drop hi))
  refine ⟨ts, ts.map (tourLen c.dist), q, ?_, ?_⟩
  · simp only [step, hts]
    exact stepOf_of_update _ _ _ _ _ hq
  · refine Reach.pass gw wits ts (ts.map (tourLen c.dist)) h ?_
    simp only [stepW, hgw]
    exact stepOf_of_update _ _ _ _ _ hq

/-- The hypotheses are satisfiable: a 3-city max-min run over ℚ, and a reachable state after one pass. -/
def demoCfg : RunCfg ℚ :=
  { kind := .mmas (1 / 10) 5 1, dist := fun i j => if i = j then 0 else 7, α := 1, β := 5, n := 3, numAnts := 2,
    τ0 := 1 / 2 }

def demoNum : Num ℚ := { ratNum with close := fun a b => decide (a = b) }

example : RunValid demoNum demoCfg :=
  { fin := fun _ => rfl, close := fun _ _ => rfl, pow := fun _ _ h => h, eps := by norm_num [demoNum, ratNum],
    tle := rfl, cities := by decide, dist := by intro i j h; simp [demoCfg, h], init := by norm_num [demoCfg],
    kind := by simp [demoCfg, kindOk] }

example : (match step demoNum demoCfg.kind (PM.new 3 (1 / 2)) demoCfg.dist 1 5 3 2 [[1, 0], [0, 0]] with
    | .ok ts _ pm' => ts == [[0, 2, 1], [0, 2, 1], [0, 1, 2]] && pm'.inner.all (fun x => decide (1 ≤ x ∧ x ≤ 5))
    | _ => false) = true := by decide +kernel

/-! ### Exactly the tour's edges; bounded trails -/

/-- "Exactly the edges between consecutive cities": a tour (no city twice) deposits on the pair `{i, j}` once
if `i` and `j` are consecutive cities of the route (in either direction) and not at all otherwise — never
twice, never on the closing edge. -/
theorem tour_deposits_exactly_its_edges (route : List Nat) (hnd : route.Nodup) (i j : Nat) :
    hits route i j = if (i, j) ∈ edges route ∨ (j, i) ∈ edges route then 1 else 0 := by
  have h1 := hits_le_one route hnd i j
  have h2 := hits_pos_iff route i j
  split
  · rename_i h; have := h2.mpr h; omega
  · rename_i h
    by_contra hne
    exact h (h2.mp (Nat.pos_of_ne_zero hne))

example : hits [0, 2, 1, 3] 1 2 = 1 ∧ hits [0, 2, 1, 3] 3 0 = 0 ∧ edges [0, 2, 1, 3] = [(0, 2), (2, 1), (1, 3)] := by
  decide

/-- Closed form of the max-min entry: `clamp(min, max, (1 - ρ)·τ_ij + hits·(1 / length))` for the rewarded
tour (`hits` ∈ {0, 1} for a tour, `tour_deposits_exactly_its_edges`). -/
theorem mmas_update_closed_form (pm : PM F) (ρ hi lo : F) (best : Ind F) (o : F) (i j : Nat) :
    mmasSpecWith pm ρ hi lo (some (best, o)) i j =
      clamp lo hi ((1 - ρ) * pm.getD i j 0 + (hits best.route i j : F) * (1 / o)) := by
  simp only [mmasSpecWith, depositEdges_closed, hits]
  congr 1
  ring

/-- Trails stay bounded (the exact-arithmetic counterpart of "finite"): if no trail exceeds `B`, every sampled
route visits no city twice and is at least `L > 0` long, then after the ant-system update no trail exceeds
`(1 - ρ)·B + m·c/L`, `m` the number of sampled ants. -/
theorem as_trails_bounded (pm : PM F) (ρ c B L : F) (pop : List (Ind F)) (i j : Nat)
    (hρ : ρ ≤ 1) (hc : 0 ≤ c) (hL : 0 < L) (hx : pm.getD i j 0 ≤ B)
    (hnd : ∀ ind ∈ pop.drop 1, ind.route.Nodup)
    (ho : ∀ ind ∈ pop.drop 1, ∃ o, ind.obj = some o ∧ L ≤ o) :
    asSpec pm ρ c pop i j ≤ (1 - ρ) * B + ((pop.drop 1).length : F) * (c / L) := by
  have ho' : ∀ ind ∈ pop.drop 1, ind.obj.isSome = true := by
    intro ind h; obtain ⟨o, h1, _⟩ := ho ind h; simp [h1]
  rw [as_update_closed_form pm ρ c pop i j ho']
  have hsum : ∀ l : List (Ind F), (∀ ind ∈ l, ind.route.Nodup) → (∀ ind ∈ l, ∃ o, ind.obj = some o ∧ L ≤ o) →
      (l.map (fun ind => (hits ind.route i j : F) * (c / ind.obj.getD 1))).sum ≤ (l.length : F) * (c / L) := by
    intro l
    induction l with
    | nil => intro _ _; simp
    | cons ind rest ih =>
      intro h1 h2
      obtain ⟨o, hobj, hLo⟩ := h2 ind (by simp)
      have hh : (hits ind.route i j : F) ≤ 1 := by
        exact_mod_cast hits_le_one ind.route (h1 ind (by simp)) i j
      have hh0 : (0 : F) ≤ (hits ind.route i j : F) := by positivity
      have hco : c / o ≤ c / L := div_le_div_of_nonneg_left hc hL hLo
      have hco0 : 0 ≤ c / o := div_nonneg hc (le_trans hL.le hLo)
      have hterm : (hits ind.route i j : F) * (c / o) ≤ c / L := by
        calc (hits ind.route i j : F) * (c / o) ≤ 1 * (c / o) := mul_le_mul_of_nonneg_right hh hco0
          _ = c / o := one_mul _
          _ ≤ c / L := hco
      have := ih (fun x hx => h1 x (by simp [hx])) (fun x hx => h2 x (by simp [hx]))
      simp only [List.map_cons, List.sum_cons, List.length_cons, hobj, Option.getD_some]
      push_cast
      linarith
  have h3 := hsum (pop.drop 1) hnd ho
  have h4 : (1 - ρ) * pm.getD i j 0 ≤ (1 - ρ) * B := mul_le_mul_of_nonneg_left hx (by linarith)
  linarith

/-- Hence `B` is an invariant bound as soon as `ρ·B ≥ m·c/L`: along a run with `ρ > 0` the trails never exceed
`max(τ₀, m·c/(ρ·L))`. -/
theorem as_trails_invariant_bound (pm : PM F) (ρ c B L : F) (pop : List (Ind F)) (i j : Nat)
    (hρ : ρ ≤ 1) (hc : 0 ≤ c) (hL : 0 < L) (hx : pm.getD i j 0 ≤ B)
    (hnd : ∀ ind ∈ pop.drop 1, ind.route.Nodup)
    (ho : ∀ ind ∈ pop.drop 1, ∃ o, ind.obj = some o ∧ L ≤ o)
    (hB : ((pop.drop 1).length : F) * (c / L) ≤ ρ * B) :
    asSpec pm ρ c pop i j ≤ B := by
  have := as_trails_bounded pm ρ c B L pop i j hρ hc hL hx hnd ho
  linarith

example : asSpec (PM.new 3 (4 : ℚ)) (1 / 2) 3 [⟨[0, 1, 2], some 4⟩, ⟨[0, 2, 1], some 6⟩, ⟨[0, 1, 2], some 3⟩] 1 2 ≤ 4 :=
  as_trails_invariant_bound _ _ _ 4 3 _ _ _ (by norm_num) (by norm_num) (by norm_num)
    (by simp [PM.getD, PM.get?, PM.row?, PM.new])
    (by intro ind h; simp at h; rcases h with rfl | rfl <;> decide)
    (by intro ind h; simp at h; rcases h with rfl | rfl
        · exact ⟨6, rfl, by norm_num⟩
        · exact ⟨3, rfl, by norm_num⟩)
    (by norm_num)

end field

end MahfModel.Props.C19
