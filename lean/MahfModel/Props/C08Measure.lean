/-
C08 — thread / scheduling independence of the components that compute and publish a value (the diversity
measures, whose value is logged and, through a lens and a mapping, steers the search).

Model: `Model/DeterminismMeasure.lean` (code-shaped left folds for the four measures, tied to the code by
the measure-* sites; tree reductions `treeSum` for what a reduction handed to the ambient rayon pool does;
configurations whose leaves may look at the execution context).
-/
import MahfModel.Model.DeterminismMeasure
import Mathlib.Algebra.BigOperators.Group.List.Basic
namespace MahfModel.Props.C08Measure
open MahfModel.Determinism MahfModel.DeterminismMeasure

/-- A run is independent of the execution contexts (pool size, inside / outside a pool, schedule — a
possibly different one at every single component execution) as soon as every leaf component is: for all
configurations (sequences, nested loops), all context assignments and all start states. -/
theorem run_context_independent {C σ : Type} (cfg : Cfg C σ) (h : cfg.ContextFree) (ctx ctx' : Nat → C)
    (p : Nat × σ) : cfg.exec ctx p = cfg.exec ctx' p := by
  induction cfg generalizing p with
  | leaf c => obtain ⟨i, s⟩ := p; simp only [Cfg.exec]; rw [h (ctx i) (ctx' i) s]
  | seq a b iha ihb => simp only [Cfg.exec]; rw [iha h.1, ihb h.2]
  | loop n body ih =>
    have hb : body.ContextFree := h
    simp only [Cfg.exec]
    clear h
    induction n with
    | zero => rfl
    | succ k ihk => simp only []; rw [ihk, ih hb]

/-- The measure → mapping → mutation → log loop with any of the four measures AS THEY ARE (left folds that
do not look at the context): population, diversity state, mutation strength, generator position and log
are the same under all context assignments, for every carrier (in particular `Float`), every start state,
every number of passes. -/
theorem feedback_loop_thread_independent {C F : Type} [Add F] [Sub F] [Mul F] [Div F] [OfNat F 0] [LT F]
    [DecidableLT F] (o : Ops F) (m d : Nat) (start stop : F) (stream : Nat → F) (n : Nat) (ctx ctx' : Nat → C)
    (p : Nat × MSt F) :
    (feedbackLoop (fun _ => measure o m d) start stop stream n).exec ctx p
      = (feedbackLoop (fun _ => measure o m d) start stop stream n).exec ctx' p :=
  run_context_independent _
    (by simp [feedbackLoop, Cfg.ContextFree, measureLeaf, linearLeaf, mutateLeaf, logLeaf]) ctx ctx' p

/-- In exact arithmetic (any additive monoid, e.g. a field) the shape of a reduction is irrelevant: every
tree reduction equals the left fold. This is why a parallel sum LOOKS harmless — -/
theorem treeSum_eq_sumL {F : Type} [AddMonoid F] (xs : List F) (t : Split) : treeSum xs t = sumL xs := by
  have hs : ∀ ys : List F, sumL ys = ys.sum := fun ys => by
    simp only [sumL]; exact (List.sum_eq_foldl).symm
  induction t generalizing xs with
  | leaf => rfl
  | node k l r ihl ihr =>
    simp only [treeSum, ihl, ihr, hs]
    rw [← List.sum_append, List.take_append_drop]

/-- — and why it is not: with rounding (two significant digits) the same four numbers reduce to different
values under different split trees, … -/
theorem rounding_sum_depends_on_tree :
    treeSum ([⟨950⟩, ⟨40⟩, ⟨40⟩, ⟨40⟩] : List R2) .leaf ≠ treeSum [⟨950⟩, ⟨40⟩, ⟨40⟩, ⟨40⟩] (.node 1 .leaf .leaf) := by
  decide

/-- … so a measure whose sum is handed to the pool (`dtapPar`, the split tree being part of the context) gives
runs of the feedback loop that differ in population AND log between two contexts: such a component violates the
property; `Cfg.ContextFree` is exactly what it lacks. -/
theorem parallel_sum_measure_violates :
    let cfg : Cfg Split (MSt R2) :=
      feedbackLoop (fun t sols => dtapPar r2ops 1 sols t) ⟨100⟩ ⟨300⟩ (fun i => if i % 8 = 0 then ⟨0⟩ else ⟨100⟩) 3
    let s0 : MSt R2 := ⟨[[⟨1000⟩], [⟨400⟩], [⟨400⟩], [⟨400⟩], [⟨400⟩], [⟨0⟩], [⟨0⟩], [⟨0⟩]], ⟨0⟩, ⟨0⟩, ⟨0⟩, 0, []⟩
    ((cfg.exec (fun _ => .leaf) (0, s0)).2.pop ≠ (cfg.exec (fun _ => .node 1 .leaf .leaf) (0, s0)).2.pop)
    ∧ ((cfg.exec (fun _ => .leaf) (0, s0)).2.log ≠ (cfg.exec (fun _ => .node 1 .leaf .leaf) (0, s0)).2.log) := by
  decide +kernel

-- the hypotheses are satisfiable / the objects are not degenerate
example : (Cfg.seq (.leaf fun (_ : Nat) (s : Nat) => s + 1) (.loop 3 (.leaf fun _ s => 2 * s))).ContextFree :=
  ⟨fun _ _ _ => rfl, fun _ _ _ => rfl⟩
example : ((Cfg.seq (.leaf fun (_ : Nat) (s : Nat) => s + 1) (.loop 3 (.leaf fun _ s => 2 * s))).exec id (0, 1)) = (4, 16) := by
  decide
example : ¬ (Cfg.leaf fun (c : Nat) (s : Nat) => s + c).ContextFree := fun h => by simpa using h 0 1 0
example : measure r2ops 3 1 [[⟨1000⟩], [⟨2000⟩], [⟨6000⟩]] = ⟨30000⟩ := by decide
example : measure r2ops 1 1 [[⟨1000⟩], [⟨2000⟩], [⟨6000⟩]] = ⟨230000⟩ := by decide
example : measure r2ops 0 1 [[⟨1000⟩], [⟨2000⟩], [⟨6000⟩]] = ⟨1000⟩ := by decide
example : measure r2ops 2 1 [[⟨1000⟩], [⟨2000⟩], [⟨6000⟩]] = ⟨50000⟩ := by decide

end MahfModel.Props.C08Measure
