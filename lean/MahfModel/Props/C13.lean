/-
C13 — Variation operators keep solutions well-formed and conserve parental genes.
Property theorems only; helper lemmas are in `Proofs/C13.lean`.
-/
import MahfModel.Proofs.C13
import MahfModel.Proofs.C13Cycle
import MahfModel.Proofs.C13Pop
namespace MahfModel.Props.C13
open MahfModel.Variation

variable {α : Type}

/-! ## Functional helpers -/

/-- `circular_swap` returns a permutation of its input whenever it returns. -/
theorem circular_swap_perm (l l' : List α) (idx : List Nat) (h : circularSwap l idx = some l') :
    l'.Perm l := circularSwap_perm l l' idx h

/-- `circular_swap2` returns a permutation of its input whenever it returns. -/
theorem circular_swap2_perm (l l' : List α) (idx : List Nat) (h : circularSwap2 l idx = some l') :
    l'.Perm l := circularSwap2_perm l l' idx h

/-- On every valid input (at least two distinct in-range indices) neither implementation panics
and the two agree. -/
theorem circular_swap_agree (l : List α) (idx : List Nat) (hn : idx.Nodup) (h2 : 2 ≤ idx.length)
    (hr : ∀ i ∈ idx, i < l.length) :
    ∃ r, circularSwap l idx = some r ∧ circularSwap2 l idx = some r := by
  obtain ⟨r1, e1, c1⟩ := circularSwap_cyc l idx hn h2 hr
  obtain ⟨r2, e2, c2⟩ := circularSwap2_cyc l idx hn h2 hr
  exact ⟨r1, e1, by rw [e2, Cyc.unique l _ r1 r2 c1 c2]⟩

/-- Closed form: the element at `i_k` moves to `i_{(k+1) mod n}`; every other position is untouched. -/
theorem circular_swap_closed_form (l : List α) (idx : List Nat) (hn : idx.Nodup) (h2 : 2 ≤ idx.length)
    (hr : ∀ i ∈ idx, i < l.length) :
    ∃ r, circularSwap l idx = some r ∧ r.length = l.length ∧
      (∀ k (hk : k < idx.length),
        r[idx[(k + 1) % idx.length]'(Nat.mod_lt _ (Nat.lt_of_le_of_lt (Nat.zero_le k) hk))]? = l[idx[k]]?) ∧
      (∀ p, p ∉ idx → r[p]? = l[p]?) := by
  obtain ⟨r, e, c⟩ := circularSwap_cyc l idx hn h2 hr
  exact ⟨r, e, c.len, fun k hk => Cyc.moves l idx r c k hk, fun p hp => c.off p (by simpa using hp)⟩

/-- Both translocation helpers return a permutation of the input (under the code's own contracts,
a well-formed range and the fitting assertion). -/
theorem translocate_perm (l : List α) (s e i : Nat) (h : translocValid l.length s e i = true) :
    ∃ r, translocateSlice l s e i = some r ∧ r.Perm l := by
  refine ⟨_, translocateSlice_eq l s e i h, translocSpec_perm l s e i ?_⟩
  simp only [translocValid, Bool.and_eq_true, decide_eq_true_eq] at h
  exact h.1.2

/-- The two implementations agree on every valid input: both take the slice out and re-insert it
at `index` of the remainder … -/
theorem translocate_agree (l : List α) (s e i : Nat) (h : translocValid l.length s e i = true) :
    translocateSlice l s e i = some (translocSpec l s e i) ∧
    translocateSlice2 l s e i = some (translocSpec l s e i) :=
  ⟨translocateSlice_eq l s e i h, translocateSlice2_eq l s e i h⟩

/-- … and on every other input both panic; hence they agree on all inputs. -/
theorem translocate_agree_everywhere (l : List α) (s e i : Nat) :
    translocateSlice l s e i = translocateSlice2 l s e i := by
  cases h : translocValid l.length s e i with
  | true => rw [translocateSlice_eq l s e i h, translocateSlice2_eq l s e i h]
  | false => rw [(translocate_invalid l s e i h).1, (translocate_invalid l s e i h).2]

/-- The executable predicate evaluated in step O (`valid input ⇒ both outputs present, equal, a
permutation, and equal to the closed form`) holds on the model for EVERY input. -/
theorem circular_swap_holds (l : List Nat) (idx : List Nat) :
    cswapHolds l idx (circularSwap l idx) (circularSwap2 l idx) = true := cswapHolds_model l idx

/-- Likewise for the translocation helpers. -/
theorem translocate_holds (l : List Nat) (s e i : Nat) :
    translocHolds l s e i (translocateSlice l s e i) (translocateSlice2 l s e i) = true :=
  translocHolds_model l s e i

/-- Multi-point crossover on parents of equal length with cut points in `0..=len`: no panic, the
children have the parents' length, and position `k` of child 1 holds the gene of parent 2 exactly
when an odd number of cut points is `≤ k` (child 2: the other gene). -/
theorem multi_point_positionwise (p1 p2 : List α) (idx : List Nat) (hl : p1.length = p2.length)
    (hne : idx ≠ []) (hlt : idx.length < p1.length) (hr : ∀ x ∈ idx, x ≤ p1.length) :
    ∃ c1 c2, multiPointCrossover p1 p2 idx = some (c1, c2) ∧
      c1.length = p1.length ∧ c2.length = p1.length ∧
      ∀ k : Nat, c1[k]? = (if idx.countP (· ≤ k) % 2 = 1 then p2[k]? else p1[k]?) ∧
           c2[k]? = (if idx.countP (· ≤ k) % 2 = 1 then p1[k]? else p2[k]?) := by
  obtain ⟨d1, d2, h, l1, l2, hk⟩ := mpxLoop_spec p1 p2 idx.length hl idx 0 p1 p2 hl hr
  refine ⟨d1, d2, ?_, l1, l2, hk⟩
  unfold multiPointCrossover
  have e1 : idx.isEmpty = false := by cases idx <;> simp_all
  have e2 : ¬ ¬ idx.length < p1.length := by omega
  have e3 : ¬ ¬ idx.length < p2.length := by omega
  simp only [e1, e2, e3, if_false, Bool.false_eq_true, h]

/-- Both genes of every position are conserved across the two children (multi-point). -/
theorem multi_point_genes_conserved (p1 p2 : List α) (idx : List Nat) (hl : p1.length = p2.length)
    (hne : idx ≠ []) (hlt : idx.length < p1.length) (hr : ∀ x ∈ idx, x ≤ p1.length) :
    ∃ c1 c2, multiPointCrossover p1 p2 idx = some (c1, c2) ∧
      ∀ k : Nat, (c1[k]? = p1[k]? ∧ c2[k]? = p2[k]?) ∨ (c1[k]? = p2[k]? ∧ c2[k]? = p1[k]?) := by
  obtain ⟨c1, c2, h, _, _, hk⟩ := multi_point_positionwise p1 p2 idx hl hne hlt hr
  refine ⟨c1, c2, h, fun k => ?_⟩
  have := hk k
  by_cases hc : idx.countP (· ≤ k) % 2 = 1
  · right; simpa [hc] using this
  · left; simpa [hc] using this

/-- Uniform crossover on parents of equal length with a mask of that length: no panic, and the
children are, position by position, the parental genes swapped where the mask is set. -/
theorem uniform_positionwise (p1 p2 : List α) (mask : List Bool) (hl : p1.length = p2.length)
    (hm : mask.length = p1.length) :
    ∃ c1 c2, uniformCrossover p1 p2 mask = some (c1, c2) ∧
      c1.length = p1.length ∧ c2.length = p1.length ∧
      ∀ k (hk : k < p1.length),
        c1[k]? = (if mask[k]'(hm ▸ hk) then p2[k]? else p1[k]?) ∧
        c2[k]? = (if mask[k]'(hm ▸ hk) then p1[k]? else p2[k]?) := by
  have hv : uxValid p1.length p2.length mask = true := by simp [uxValid, hm, ← hl]
  refine ⟨_, _, uniformCrossover_eq p1 p2 mask hv, ?_, ?_, ?_⟩
  · simp [uxSpec, List.length_zipWith, hm, ← hl]
  · simp [uxSpec, List.length_zipWith, hm, ← hl]
  · intro k hk
    have hk2 : k < p2.length := hl ▸ hk
    have hkm : k < mask.length := hm ▸ hk
    simp only [uxSpec, List.getElem?_zipWith, List.getElem?_zip_eq_some, List.getElem?_eq_getElem hkm,
      List.getElem?_eq_getElem hk, List.getElem?_eq_getElem hk2]
    have hz : (p1.zip p2)[k]? = some (p1[k], p2[k]) := by
      rw [List.getElem?_zip_eq_some]; simp [hk, hk2]
    rw [hz]
    cases mask[k] <;> simp

/-- Both genes of every position are conserved across the two children (uniform). -/
theorem uniform_genes_conserved (p1 p2 : List α) (mask : List Bool) (hl : p1.length = p2.length)
    (hm : mask.length = p1.length) :
    ∃ c1 c2, uniformCrossover p1 p2 mask = some (c1, c2) ∧
      ∀ k : Nat, k < p1.length →
        (c1[k]? = p1[k]? ∧ c2[k]? = p2[k]?) ∨ (c1[k]? = p2[k]? ∧ c2[k]? = p1[k]?) := by
  obtain ⟨c1, c2, h, _, _, hk⟩ := uniform_positionwise p1 p2 mask hl hm
  refine ⟨c1, c2, h, fun k hlt => ?_⟩
  have := hk k hlt
  cases hmk : mask[k]'(hm ▸ hlt)
  · left; simpa [hmk] using this
  · right; simpa [hmk] using this

/-- Cycle crossover on two permutations of the same elements: no panic (all three contracts hold,
the `unwrap` succeeds, the loop terminates within its fuel), the children have the parents' length
and every position holds the two parental genes of that position (both conserved). -/
theorem cycle_crossover_positionwise [DecidableEq α] (p1 p2 : List α) (h1 : p1.Nodup) (hp : p1.Perm p2) :
    ∃ c1 c2, cycleCrossover p1 p2 = some (c1, c2) ∧ c1.length = p1.length ∧ c2.length = p1.length ∧
      ∀ k : Nat, k < p1.length →
        (c1[k]? = p1[k]? ∧ c2[k]? = p2[k]?) ∨ (c1[k]? = p2[k]? ∧ c2[k]? = p1[k]?) := by
  obtain ⟨c1, c2, h, l1, l2, hk, _, _⟩ := cycleCrossover_spec p1 p2 h1 hp
  exact ⟨c1, c2, h, l1, l2, hk⟩

/-- The children of two permutations are permutations of the same elements. -/
theorem cycle_crossover_perm [DecidableEq α] (p1 p2 : List α) (h1 : p1.Nodup) (hp : p1.Perm p2) :
    ∃ c1 c2, cycleCrossover p1 p2 = some (c1, c2) ∧ c1.Perm p1 ∧ c2.Perm p1 := by
  obtain ⟨c1, c2, h, _, _, _, q1, q2⟩ := cycleCrossover_spec p1 p2 h1 hp
  exact ⟨c1, c2, h, q1, q2⟩

section Arith
variable {F : Type} [Field F] [LinearOrder F] [IsStrictOrderedRing F]

/-- Arithmetic crossover: no panic on parents and alphas of one length; for `α ∈ [0,1]` every child
coordinate is a convex combination (lies between the two parental coordinates), and the two
children together conserve the coordinate sum. -/
theorem arithmetic_convex (p1 p2 al : List F) (hl : p1.length = p2.length) (ha : al.length = p1.length)
    (h01 : ∀ t ∈ al, 0 ≤ t ∧ t ≤ 1) :
    ∃ c1 c2, arithmeticCrossover p1 p2 al = some (c1, c2) ∧
      c1.length = p1.length ∧ c2.length = p1.length ∧
      ∀ k (hk : k < p1.length), ∃ x y, c1[k]? = some x ∧ c2[k]? = some y ∧
        min p1[k] (p2[k]'(hl ▸ hk)) ≤ x ∧ x ≤ max p1[k] (p2[k]'(hl ▸ hk)) ∧
        min p1[k] (p2[k]'(hl ▸ hk)) ≤ y ∧ y ≤ max p1[k] (p2[k]'(hl ▸ hk)) ∧
        x + y = p1[k] + p2[k]'(hl ▸ hk) := by
  refine ⟨_, _, arithmeticCrossover_eq p1 p2 al hl ha, ?_, ?_, ?_⟩
  · simp [axSpec, ha, ← hl]
  · simp [axSpec, ha, ← hl]
  · intro k hk
    have hk2 : k < p2.length := hl ▸ hk
    have hka : k < al.length := ha ▸ hk
    have hz : (al.zip (p1.zip p2))[k]? = some (al[k], (p1[k], p2[k])) := by
      rw [List.getElem?_zip_eq_some]
      refine ⟨List.getElem?_eq_getElem hka, ?_⟩
      rw [List.getElem?_zip_eq_some]; simp [hk, hk2]
    have ht := h01 al[k] (List.getElem_mem hka)
    refine ⟨al[k] * p1[k] + (1 - al[k]) * p2[k], al[k] * p2[k] + (1 - al[k]) * p1[k], ?_, ?_, ?_⟩
    · simp [axSpec, List.getElem?_map, hz]
    · simp [axSpec, List.getElem?_map, hz]
    · have c1 := convex_between p1[k] p2[k] al[k] ht.1 ht.2
      have c2 := convex_between p2[k] p1[k] al[k] ht.1 ht.2
      rw [min_comm, max_comm] at c2
      exact ⟨c1.1, c1.2, c2.1, c2.2, convex_sum _ _ _⟩
end Arith


/-! ## Components (functions of explicit witnesses; the theorems quantify over every legal witness) -/

/-- Real- and bit-valued rate-gated mutations keep the dimension, whatever the gate did. -/
theorem mutation_keeps_dimension {F : Type} [Add F] (mask : List Bool) (vals sol : List α)
    (deltas xs : List F) (bits : List Bool) :
    (gated mask vals sol).length = sol.length ∧ (resample mask vals sol).length = sol.length ∧
    (addDeltas mask deltas xs).length = xs.length ∧ (bitFlip mask bits).length = bits.length :=
  ⟨gated_length _ _ _, gated_length _ _ _, gated_length _ _ _, gated_length _ _ _⟩

/-- A mutation rate of zero (`gen_bool(0)` never fires: every legal mask is all-false) leaves every
solution unchanged. -/
theorem rate_zero_is_identity {F : Type} [Add F] (rmOne : Bool) (mask : List Bool) (vals sol : List α)
    (deltas xs : List F) (bits : List Bool) :
    (maskLegal true rmOne mask sol.length = true → gated mask vals sol = sol) ∧
    (maskLegal true rmOne mask xs.length = true → addDeltas mask deltas xs = xs) ∧
    (maskLegal true rmOne mask bits.length = true → bitFlip mask bits = bits) := by
  refine ⟨?_, ?_, ?_⟩ <;> intro h <;>
    simp only [maskLegal, Bool.not_true, Bool.false_or, Bool.and_eq_true] at h <;>
    exact gated_all_false _ _ _ h.1.2

/-- Swap, inversion, insertion, translocation and scramble return a permutation of the solution
for every legal witness, and never panic or err on it. -/
theorem permutation_mutations_perm (sol : List α) :
    (∀ k w, 2 ≤ k → k ≤ sol.length → swapLegal k sol.length w = true →
      ∃ r, swapMutation k sol w = .ok r ∧ r.Perm sol) ∧
    (∀ w, inversionLegal sol.length w = true → ∃ r, inversionMutation sol w = some r ∧ r.Perm sol) ∧
    (∀ w, insertionLegal sol.length w = true → ∃ r, insertionMutation sol w = some r ∧ r.Perm sol) ∧
    (∀ w, translocationLegal sol.length w = true → ∃ r, translocationMutation sol w = some r ∧ r.Perm sol) ∧
    (∀ rmZero σ, scrambleLegal rmZero sol.length σ = true →
      ∃ r, scrambleMutation sol σ = some r ∧ r.Perm sol ∧ (rmZero = true → r = sol)) :=
  ⟨fun k w h1 h2 h => swapMutation_legal k sol w h1 h2 h, inversion_legal sol, insertion_legal sol,
   translocation_legal sol, fun z σ h => scramble_legal z sol σ h⟩

/-- Legal witnesses exist for every solution length (the quantifiers above are not vacuous). -/
theorem permutation_witnesses_exist (n : Nat) :
    (2 ≤ n → swapLegal 2 n [0, 1] = true) ∧
    (inversionLegal n (if n < 2 then none else some (0, 1)) = true) ∧
    (0 < n → insertionLegal n (0, 0) = true) ∧
    (translocationLegal n (if n < 2 then none else some (0, 1, 0)) = true) ∧
    (scrambleLegal false n (List.range n).reverse = true) := by
  refine ⟨?_, ?_, ?_, ?_, ?_⟩
  · intro h; simp [swapLegal, nodupNat, allBelow]; omega
  · split <;> simp [inversionLegal] <;> omega
  · intro h; simp [insertionLegal, h]
  · split <;> simp [translocationLegal] <;> omega
  · simp only [scrambleLegal, Bool.not_false, Bool.true_or, Bool.and_true]
    exact List.isPerm_iff.mpr (List.reverse_perm _)

/-! ### Parameter guards: which parameter values every constructor / `execute` accepts.
The guards are functions of the parameter VALUE (`Param F`: a finite number, `±∞` or NaN); the driver
calls the same definitions on the `f64` the harness passed to the real component. -/

section GuardTheorems
variable {F : Type} [Field F] [LinearOrder F] [IsStrictOrderedRing F] {β : Type}

/-- A mutation rate is accepted exactly when it is a finite number in `[0, 1]`. -/
theorem rate_guard_exact (p : Param F) :
    rateGuard p = true ↔ ∃ x, p = .fin x ∧ 0 ≤ x ∧ x ≤ 1 := by
  cases p <;> simp [rateGuard]

/-- `NormalMutation::execute` never panics on its parameters; it succeeds exactly for a finite
standard deviation (negative ones included — the sampler mirrors them) and an accepted rate; in
particular every documented value (`σ ≥ 0` finite, rate in `[0,1]`) is accepted. -/
theorem normal_mutation_guards (σ rm : Param F) (r : β) :
    (normalExec σ rm r = .ok r ↔ (∃ s, σ = .fin s) ∧ rateGuard rm = true) ∧
    normalExec σ rm r ≠ .panic ∧
    (∀ s x : F, 0 ≤ s → 0 ≤ x → x ≤ 1 → normalExec (.fin s) (.fin x) r = .ok r) := by
  refine ⟨?_, ?_, ?_⟩
  · cases σ <;> cases h : rateGuard rm <;> simp [normalExec, normalStrengthGuard, h]
  · cases σ <;> cases h : rateGuard rm <;> simp [normalExec, normalStrengthGuard, h]
  · intro s x _ h0 h1; simp [normalExec, normalStrengthGuard, rateGuard, h0, h1]

/-- `UniformMutation::execute` succeeds exactly for a finite bound `≥ 0` (zero included) and an
accepted rate; the only panic is the infinite bound, which passes `bound >= 0` and fails inside
`Uniform::new_inclusive` (outside the documented domain). -/
theorem uniform_mutation_guards (b rm : Param F) (r : β) :
    (uniformExec b rm r = .ok r ↔ (∃ x, b = .fin x ∧ 0 ≤ x) ∧ rateGuard rm = true) ∧
    (uniformExec b rm r = .panic ↔ b = .posInf) := by
  constructor
  · cases b with
    | fin x => by_cases hx : 0 ≤ x <;> cases h : rateGuard rm <;> simp [uniformExec, uniformBoundGuard, hx, h]
    | posInf => simp [uniformExec, uniformBoundGuard]
    | negInf => simp [uniformExec, uniformBoundGuard]
    | nan => simp [uniformExec, uniformBoundGuard]
  · cases b with
    | fin x => by_cases hx : 0 ≤ x <;> cases h : rateGuard rm <;> simp [uniformExec, uniformBoundGuard, hx, h]
    | posInf => simp [uniformExec, uniformBoundGuard]
    | negInf => simp [uniformExec, uniformBoundGuard]
    | nan => simp [uniformExec, uniformBoundGuard]

/-- The components that guard only their rate accept exactly the accepted rates. -/
theorem rate_only_guards (rm : Param F) (r : β) :
    (rateExec rm r = .ok r ↔ rateGuard rm = true) ∧ rateExec rm r ≠ .panic := by
  cases h : rateGuard rm <;> simp [rateExec, h]

/-- `DEMutation::from_params` accepts exactly `y ∈ {1, 2}` with a finite `f ∈ [0, 2]` (the documented
`(0, 2]` plus `f = 0`). -/
theorem de_ctor_guard_exact (y : Nat) (f : Param F) :
    deCtorGuard y f = true ↔ (y = 1 ∨ y = 2) ∧ ∃ x, f = .fin x ∧ 0 ≤ x ∧ x ≤ 2 := by
  cases f <;> simp [deCtorGuard, and_assoc]
end GuardTheorems

/-- `SwapMutation`: the constructor accepts exactly `num_swap ≥ 2`, `execute` errs exactly when
`num_swap` exceeds the solution length (and then never panics first). -/
theorem swap_guards_exact (k : Nat) (sol : List α) (w : List Nat) :
    (swapCtorGuard k = true ↔ 2 ≤ k) ∧ (swapMutation k sol w = .err ↔ sol.length < k) := by
  refine ⟨by simp [swapCtorGuard], ?_⟩
  unfold swapMutation
  by_cases h : sol.length < k
  · simp [h]
  · simp only [h, if_false, iff_false]
    cases circularSwap sol w <;> simp

/-! ### `NPointCrossover` / `UniformCrossover` as components (`recombine` on one pair) -/

/-- `NPointCrossover` with `1 ≤ n < dim` on parents of the problem's dimension: for every legal
witness (the `n` distinct cut positions `choose_multiple` returned) no panic, and the child(ren)
are position-wise with both genes conserved. Partial: the region `n = 0 ∨ n ≥ dim`, which the
constructor also accepts, is excluded — see `npoint_n_out_of_range_violates`. -/
theorem npoint_component_partial (n : Nat) (p1 p2 : List α) (cuts : List Nat) (hl : p1.length = p2.length)
    (h1 : 1 ≤ n) (h2 : n < p1.length) (hc : nPointLegal n p1.length cuts = true) (insertBoth : Bool) :
    ∃ c1 c2, nPointRecombine true cuts insertBoth p1 p2 = some (OptPair.fromPair (c1, c2) insertBoth) ∧
      c1.length = p1.length ∧ c2.length = p1.length ∧
      ∀ k : Nat, (c1[k]? = p1[k]? ∧ c2[k]? = p2[k]?) ∨ (c1[k]? = p2[k]? ∧ c2[k]? = p1[k]?) := by
  simp only [nPointLegal, Bool.and_eq_true, beq_iff_eq, allBelow_iff] at hc
  obtain ⟨⟨hlen, _⟩, hr⟩ := hc
  have hlen' : cuts.length = n := by omega
  have hne : cuts ≠ [] := by intro h; rw [h] at hlen'; simp at hlen'; omega
  obtain ⟨c1, c2, h, l1, l2, _⟩ := multi_point_positionwise p1 p2 cuts hl hne (by omega)
    (fun x hx => Nat.le_of_lt (hr x hx))
  obtain ⟨d1, d2, h', hk⟩ := multi_point_genes_conserved p1 p2 cuts hl hne (by omega)
    (fun x hx => Nat.le_of_lt (hr x hx))
  have : (d1, d2) = (c1, c2) := Option.some.inj (h'.symm.trans h)
  obtain ⟨rfl, rfl⟩ := Prod.mk.inj this
  exact ⟨d1, d2, by simp [nPointRecombine, recombine, h], l1, l2, hk⟩

/-- The full statement (no panic for every `n` the constructor accepts), kept visible; it is refuted below. -/
def npoint_component_full : Prop :=
  ∀ (n : Nat) (p1 p2 : List Nat) (cuts : List Nat), p1.length = p2.length → 0 < p1.length →
    nPointLegal n p1.length cuts = true → (nPointRecombine true cuts true p1 p2).isSome

/-- Counterexample region: with `n = 0` or `n ≥ dim` EVERY legal witness makes a crossed pair panic
in the `#[requires]` contract of `multi_point_crossover` (an empty cut list, resp. as many cuts as genes). -/
theorem npoint_n_out_of_range_violates (n : Nat) (p1 p2 : List α) (cuts : List Nat)
    (hc : nPointLegal n p1.length cuts = true) (hbad : n = 0 ∨ p1.length ≤ n) (insertBoth : Bool) :
    nPointRecombine true cuts insertBoth p1 p2 = none := by
  simp only [nPointLegal, Bool.and_eq_true, beq_iff_eq] at hc
  obtain ⟨⟨hlen, _⟩, _⟩ := hc
  simp only [nPointRecombine, recombine, if_true, multiPointCrossover]
  rcases hbad with h0 | hge
  · have : cuts = [] := by
      apply List.eq_nil_of_length_eq_zero; rw [hlen, h0]; simp
    simp [this]
  · have hl : cuts.length = p1.length := by rw [hlen]; exact Nat.min_eq_right hge
    by_cases he : cuts.isEmpty = true
    · simp [he]
    · simp [he, hl]

theorem npoint_component_full_refuted : ¬ npoint_component_full := by
  intro h
  have := h 0 [1, 2] [3, 4] [] rfl (by decide) (by decide)
  revert this; decide

/-- `UniformCrossover` on a pair of the problem's dimension: no panic for every mask, position-wise. -/
theorem uniform_component (p1 p2 : List α) (mask : List Bool) (hl : p1.length = p2.length)
    (hm : mask.length = min p1.length p2.length) (insertBoth : Bool) :
    ∃ c1 c2, uniformRecombine true mask insertBoth p1 p2 = some (OptPair.fromPair (c1, c2) insertBoth) ∧
      ∀ k : Nat, k < p1.length →
        (c1[k]? = p1[k]? ∧ c2[k]? = p2[k]?) ∨ (c1[k]? = p2[k]? ∧ c2[k]? = p1[k]?) := by
  obtain ⟨c1, c2, h, hk⟩ := uniform_genes_conserved p1 p2 mask hl (by omega)
  exact ⟨c1, c2, by simp [uniformRecombine, recombine, h], hk⟩

/-- Offspring counts: every pair contributes both parents (no crossover), one child (insert-one) or
two children (insert-both); an odd remainder passes through. -/
theorem recombination_counts {β : Type} (parents : List β) (rs : List (OptPair β))
    (h : rs.length = parents.length / 2) :
    (frame parents rs).length =
      2 * countNone rs + countSingle rs + 2 * countBoth rs + parents.length % 2 :=
  frame_length parents rs h

/-- What one `recombine` call contributes follows the crossover decision and `insert_both`. -/
theorem recombine_cases {β : Type} (crossed insertBoth : Bool) (c : β × β) :
    recombine crossed (some c) insertBoth =
      some (if crossed then (if insertBoth then .both c.1 c.2 else .single c.1) else .none) := by
  cases crossed <;> cases insertBoth <;> rfl

section Gate
variable {F : Type} [Field F] [LinearOrder F] [IsStrictOrderedRing F]

/-- The crossover gate `u < pc` for a uniform draw `u ∈ [0,1)`: a pair is crossed exactly when the
draw is below the probability; hence probability 0 never crosses and probability 1 always
crosses, for every draw. -/
theorem crossover_gate (u pc : F) (h0 : 0 ≤ u) (h1 : u < 1) :
    (crossedBy u pc = true ↔ u < pc) ∧ crossedBy u 0 = false ∧ crossedBy u 1 = true := by
  refine ⟨by simp [crossedBy], ?_, ?_⟩
  · simp [crossedBy, not_lt.mpr h0]
  · simp [crossedBy, h1]

/-- With crossover probability 0 the population passes through `recombination` unchanged, whatever
the draws and whatever the crossover helper would return. -/
theorem recombination_pc_zero_identity {β : Type} (parents : List β) (us : List F) (hu : ∀ u ∈ us, 0 ≤ u)
    (children : List (Option (β × β))) (insertBoth : Bool) (rs : List (OptPair β))
    (hrs : (List.zipWith (fun u c => recombine (crossedBy u 0) c insertBoth) us children) = rs.map some) :
    frame parents rs = parents := by
  have hall : ∀ r ∈ rs, r = OptPair.none := by
    intro r hr
    have : some r ∈ rs.map some := List.mem_map.mpr ⟨r, hr, rfl⟩
    rw [← hrs] at this
    obtain ⟨i, hi, hget⟩ := List.getElem_of_mem this
    simp only [List.getElem_zipWith] at hget
    have hlt : i < us.length := by simp only [List.length_zipWith] at hi; omega
    have : crossedBy us[i] (0 : F) = false := by
      simp [crossedBy, not_lt.mpr (hu _ (List.getElem_mem hlt))]
    rw [this] at hget
    simpa [recombine] using hget.symm
  exact frame_none_id parents rs hall
end Gate

section DE
variable {F : Type} [Field F]

/-- `DEMutation` accepts exactly the populations whose length is a multiple of `2y+1` and returns
one mutant per group, each of the dimension of a member of the population. -/
theorem de_mutation_format (y : Nat) (f : F) (pop : List (List F)) :
    (deMutation y f pop = .err ↔ pop.length % (y * 2 + 1) ≠ 0) ∧
    (∀ r, deMutation y f pop = .ok r →
      pop.length % (y * 2 + 1) = 0 ∧ r.length = pop.length / (y * 2 + 1) ∧
      ∀ m ∈ r, ∃ b ∈ pop, m.length = b.length) :=
  deMutation_format y f pop
end DE

/-- DE binomial / exponential crossover: the trial vector keeps the dimension and every position
holds the mutant's or the base's coordinate, for every mask. -/
theorem de_crossover_positionwise (dim : Nat) (mask : List Bool) (mutant base : List α)
    (h1 : dim ≤ mutant.length) (h2 : dim ≤ base.length) :
    ∃ r, deCross dim mask mutant base = some r ∧ r.length = mutant.length ∧
      ∀ i : Nat, r[i]? = mutant[i]? ∨ r[i]? = base[i]? :=
  deCross_positionwise dim mask mutant base h1 h2


/-! ## Population level: `recombination()` as a whole, settings, constructors -/

/-- A `recombination()` run that does not panic is the frame over the results of its `recombine`
calls, one per pair. -/
theorem recombination_is_frame {β W : Type} (rec : β → β → W → Option (OptPair β)) (ps : List β) (ws : List W)
    (out : List β) (h : recombinationRun rec ps ws = some out) (hl : ps.length / 2 ≤ ws.length) :
    ∃ rs, rs.length = ps.length / 2 ∧ pairResults rec ps ws = rs.map some ∧ out = frame ps rs :=
  recombinationRun_frame rec ps ws out h hl

/-- Offspring count in terms of the SETTINGS: every pair whose draw is not below the crossover
probability contributes its two parents, every crossed pair one child (insert-one) or two
(insert-both); an odd remainder passes through. For all parents, draws and helper witnesses. -/
theorem offspring_count_by_settings {β W F : Type} [LT F] [DecidableLT F] (pc : F) (both : Bool)
    (helper : β → β → W → Option (β × β)) (ps : List β) (ws : List (F × W)) (out : List β)
    (hl : ws.length = ps.length / 2)
    (h : recombinationRun (gateRecombine pc both helper) ps ws = some out) :
    out.length = 2 * ws.countP (fun w => !crossedBy w.1 pc) +
      (if both then 2 else 1) * ws.countP (fun w => crossedBy w.1 pc) + ps.length % 2 :=
  gate_count pc both helper ps ws out hl h

section Extremes
variable {F : Type} [Field F] [LinearOrder F] [IsStrictOrderedRing F]

/-- Crossover probability 1 crosses every pair (`n/2` resp. `2·(n/2)` children plus the remainder),
probability 0 crosses none (the population keeps its size) — for all draws in `[0, 1)`. -/
theorem offspring_count_extremes {β W : Type} (both : Bool) (helper : β → β → W → Option (β × β))
    (ps : List β) (ws : List (F × W)) (hl : ws.length = ps.length / 2)
    (hu : ∀ w ∈ ws, 0 ≤ w.1 ∧ w.1 < 1) (out : List β) :
    (recombinationRun (gateRecombine (1 : F) both helper) ps ws = some out →
      out.length = (if both then 2 else 1) * (ps.length / 2) + ps.length % 2) ∧
    (recombinationRun (gateRecombine (0 : F) both helper) ps ws = some out → out.length = ps.length) := by
  constructor
  · intro h
    have hc := gate_count (1 : F) both helper ps ws out hl h
    have h1 : ws.countP (fun w => crossedBy w.1 (1 : F)) = ws.length := by
      rw [List.countP_eq_length]; intro w hw; simp [crossedBy, (hu w hw).2]
    have h0 : ws.countP (fun w => !crossedBy w.1 (1 : F)) = 0 := by
      rw [List.countP_eq_zero]; intro w hw; simp [crossedBy, (hu w hw).2]
    rw [hc, h1, h0, hl]; omega
  · intro h
    have hc := gate_count (0 : F) both helper ps ws out hl h
    have h1 : ws.countP (fun w => crossedBy w.1 (0 : F)) = 0 := by
      rw [List.countP_eq_zero]; intro w hw; simp [crossedBy, not_lt.mpr (hu w hw).1]
    have h0 : ws.countP (fun w => !crossedBy w.1 (0 : F)) = ws.length := by
      rw [List.countP_eq_length]; intro w hw; simp [crossedBy, not_lt.mpr (hu w hw).1]
    rw [hc, h1, h0, hl]; omega

/-- The insert settings as constructors: `new_insert_single` at probability 1 returns one child per
pair, `new_insert_both` keeps the population size — whatever flag value `new` would have been given. -/
theorem insert_constructors_counts {β W : Type} (flag : Bool) (helper : β → β → W → Option (β × β))
    (ps : List β) (ws : List (F × W)) (hl : ws.length = ps.length / 2)
    (hu : ∀ w ∈ ws, 0 ≤ w.1 ∧ w.1 < 1) (out : List β) :
    (recombinationRun (gateRecombine (1 : F) (recCtorBoth .newInsertSingle flag) helper) ps ws = some out →
      out.length = ps.length / 2 + ps.length % 2) ∧
    (recombinationRun (gateRecombine (1 : F) (recCtorBoth .newInsertBoth flag) helper) ps ws = some out →
      out.length = ps.length) := by
  constructor
  · intro h
    have := (offspring_count_extremes false helper ps ws hl hu out).1 h
    simpa using this
  · intro h
    have := (offspring_count_extremes true helper ps ws hl hu out).1 h
    simp only [if_true] at this; omega
end Extremes

/-- Generic population statement for a gated crossover whose helper, on parents satisfying `S` and a
legal witness (`T`), never panics and returns children satisfying `Q`: the run never panics, the
count follows the settings, and every member of the new population is a parent or such a child. -/
theorem recombination_population {β W F : Type} [LT F] [DecidableLT F] (pc : F) (both : Bool)
    (helper : β → β → W → Option (β × β)) (S : β → Prop) (T : W → Prop) (Q : β → β → β → Prop)
    (hh : ∀ p1 p2 w, S p1 → S p2 → T w → ∃ c1 c2, helper p1 p2 w = some (c1, c2) ∧ Q p1 p2 c1 ∧ Q p1 p2 c2)
    (ps : List β) (ws : List (F × W)) (hS : ∀ p ∈ ps, S p) (hT : ∀ w ∈ ws, T w.2)
    (hl : ws.length = ps.length / 2) :
    ∃ out, recombinationRun (gateRecombine pc both helper) ps ws = some out ∧
      out.length = 2 * ws.countP (fun w => !crossedBy w.1 pc) +
        (if both then 2 else 1) * ws.countP (fun w => crossedBy w.1 pc) + ps.length % 2 ∧
      ∀ c ∈ out, c ∈ ps ∨ ∃ p1 ∈ ps, ∃ p2 ∈ ps, Q p1 p2 c := by
  have hsome := recombinationRun_isSome (gateRecombine pc both helper) S (fun w => T w.2)
    (by
      intro p1 p2 w h1 h2 hw
      obtain ⟨c1, c2, e, _⟩ := hh p1 p2 w.2 h1 h2 hw
      unfold gateRecombine; split <;> simp [e]) ps ws hS hT
  obtain ⟨out, ho⟩ := Option.isSome_iff_exists.mp hsome
  refine ⟨out, ho, gate_count pc both helper ps ws out hl ho, ?_⟩
  refine recombinationRun_members (gateRecombine pc both helper) S (fun w => T w.2) Q ?_ ps ws out hS hT ho
  intro p1 p2 w r h1 h2 hw hr c hc
  obtain ⟨c1, c2, e, q1, q2⟩ := hh p1 p2 w.2 h1 h2 hw
  unfold gateRecombine at hr
  split at hr
  · simp only [e, Option.map_some, Option.some.injEq] at hr
    subst hr
    cases both <;> simp [OptPair.fromPair, emitPair] at hc
    · subst hc; exact Or.inr (Or.inr q1)
    · rcases hc with rfl | rfl
      · exact Or.inr (Or.inr q1)
      · exact Or.inr (Or.inr q2)
  · simp only [Option.some.injEq] at hr
    subst hr
    simp [emitPair] at hc
    rcases hc with rfl | rfl
    · exact Or.inl rfl
    · exact Or.inr (Or.inl rfl)

/-- Position-wise child of dimension `d`. -/
def PosWise (d : Nat) (p1 p2 c : List α) : Prop :=
  c.length = d ∧ ∀ k : Nat, k < d → c[k]? = p1[k]? ∨ c[k]? = p2[k]?

/-- `UniformCrossover` on a whole population of solutions of dimension `d`, for every probability,
insert setting, draws and masks: never panics, count by settings, every new solution is a parent or
a position-wise child of dimension `d`. -/
theorem uniform_crossover_population {F : Type} [LT F] [DecidableLT F] (pc : F) (both : Bool) (d : Nat)
    (ps : List (List α)) (ws : List (F × List Bool)) (hS : ∀ p ∈ ps, p.length = d)
    (hT : ∀ w ∈ ws, w.2.length = d) (hl : ws.length = ps.length / 2) :
    ∃ out, recombinationRun (gateRecombine pc both uniformCrossover) ps ws = some out ∧
      out.length = 2 * ws.countP (fun w => !crossedBy w.1 pc) +
        (if both then 2 else 1) * ws.countP (fun w => crossedBy w.1 pc) + ps.length % 2 ∧
      ∀ c ∈ out, c ∈ ps ∨ ∃ p1 ∈ ps, ∃ p2 ∈ ps, PosWise d p1 p2 c := by
  refine recombination_population pc both uniformCrossover (fun p => p.length = d) (fun m => m.length = d)
    (PosWise d) ?_ ps ws hS hT hl
  intro p1 p2 m h1 h2 hm
  obtain ⟨c1, c2, e, l1, l2, hk⟩ := uniform_positionwise p1 p2 m (h1.trans h2.symm) (hm.trans h1.symm)
  refine ⟨c1, c2, e, ⟨l1.trans h1, fun k hk' => ?_⟩, ⟨l2.trans h1, fun k hk' => ?_⟩⟩
  · have := (hk k (h1 ▸ hk')).1; split at this <;> simp [this]
  · have := (hk k (h1 ▸ hk')).2; split at this <;> simp [this]

/-- `NPointCrossover` with `1 ≤ n < d` on a whole population (partial: see `npoint_n_out_of_range_violates`). -/
theorem npoint_crossover_population_partial {F : Type} [LT F] [DecidableLT F] (pc : F) (both : Bool) (n d : Nat)
    (h1 : 1 ≤ n) (h2 : n < d) (ps : List (List α)) (ws : List (F × List Nat)) (hS : ∀ p ∈ ps, p.length = d)
    (hT : ∀ w ∈ ws, nPointLegal n d w.2 = true) (hl : ws.length = ps.length / 2) :
    ∃ out, recombinationRun (gateRecombine pc both multiPointCrossover) ps ws = some out ∧
      out.length = 2 * ws.countP (fun w => !crossedBy w.1 pc) +
        (if both then 2 else 1) * ws.countP (fun w => crossedBy w.1 pc) + ps.length % 2 ∧
      ∀ c ∈ out, c ∈ ps ∨ ∃ p1 ∈ ps, ∃ p2 ∈ ps, PosWise d p1 p2 c := by
  refine recombination_population pc both multiPointCrossover (fun p => p.length = d)
    (fun cuts => nPointLegal n d cuts = true) (PosWise d) ?_ ps ws hS hT hl
  intro p1 p2 cuts e1 e2 hc
  simp only [nPointLegal, Bool.and_eq_true, beq_iff_eq, allBelow_iff] at hc
  obtain ⟨⟨hlen, _⟩, hr⟩ := hc
  have hlen' : cuts.length = n := by omega
  have hne : cuts ≠ [] := by intro h; rw [h] at hlen'; simp at hlen'; omega
  obtain ⟨c1, c2, e, l1, l2, _⟩ := multi_point_positionwise p1 p2 cuts (e1.trans e2.symm) hne (by omega)
    (fun x hx => by have := hr x hx; omega)
  obtain ⟨d1, d2, e', hk⟩ := multi_point_genes_conserved p1 p2 cuts (e1.trans e2.symm) hne (by omega)
    (fun x hx => by have := hr x hx; omega)
  have : (d1, d2) = (c1, c2) := Option.some.inj (e'.symm.trans e)
  obtain ⟨rfl, rfl⟩ := Prod.mk.inj this
  refine ⟨d1, d2, e, ⟨l1.trans e1, fun k _ => ?_⟩, ⟨l2.trans e1, fun k _ => ?_⟩⟩
  · rcases hk k with h | h
    · exact Or.inl h.1
    · exact Or.inr h.1
  · rcases hk k with h | h
    · exact Or.inr h.2
    · exact Or.inl h.2

/-- `CycleCrossover` on a population of permutations of one base list: never panics, count by
settings, every new solution is a parent or a position-wise child that is again a permutation. -/
theorem cycle_crossover_population [DecidableEq α] {F : Type} [LT F] [DecidableLT F] (pc : F) (both : Bool)
    (base : List α) (hb : base.Nodup) (ps : List (List α)) (ws : List (F × Unit))
    (hS : ∀ p ∈ ps, p.Perm base) (hl : ws.length = ps.length / 2) :
    ∃ out, recombinationRun (gateRecombine pc both (fun p1 p2 _ => cycleCrossover p1 p2)) ps ws = some out ∧
      out.length = 2 * ws.countP (fun w => !crossedBy w.1 pc) +
        (if both then 2 else 1) * ws.countP (fun w => crossedBy w.1 pc) + ps.length % 2 ∧
      ∀ c ∈ out, c ∈ ps ∨ ∃ p1 ∈ ps, ∃ p2 ∈ ps, c.Perm base ∧ PosWise base.length p1 p2 c := by
  refine recombination_population pc both (fun p1 p2 (_ : Unit) => cycleCrossover p1 p2) (fun p => p.Perm base)
    (fun _ => True) (fun p1 p2 c => c.Perm base ∧ PosWise base.length p1 p2 c) ?_ ps ws hS (fun _ _ => trivial) hl
  intro p1 p2 _ e1 e2 _
  have hn : p1.Nodup := e1.nodup_iff.mpr hb
  have hp : p1.Perm p2 := e1.trans e2.symm
  obtain ⟨c1, c2, e, l1, l2, hk, q1, q2⟩ := cycleCrossover_spec p1 p2 hn hp
  have hl1 : p1.length = base.length := e1.length_eq
  refine ⟨c1, c2, e, ⟨q1.trans e1, l1.trans hl1, fun k hk' => ?_⟩, ⟨q2.trans e1, l2.trans hl1, fun k hk' => ?_⟩⟩
  · rcases hk k (hl1 ▸ hk') with h | h
    · exact Or.inl h.1
    · exact Or.inr h.1
  · rcases hk k (hl1 ▸ hk') with h | h
    · exact Or.inr h.2
    · exact Or.inl h.2

section ArithPop
variable {F : Type} [Field F] [LinearOrder F] [IsStrictOrderedRing F]

/-- Convex child of dimension `d`: every coordinate lies between the parental coordinates. -/
def Convex (d : Nat) (p1 p2 c : List F) : Prop :=
  c.length = d ∧ ∀ (k : Nat) (a b : F), p1[k]? = some a → p2[k]? = some b →
    ∃ x, c[k]? = some x ∧ min a b ≤ x ∧ x ≤ max a b

/-- `ArithmeticCrossover` on a whole population, alphas from `Uniform::from(0.0..=1.0)` (legal: in `[0,1]`). -/
theorem arithmetic_crossover_population (pc : F) (both : Bool) (d : Nat)
    (ps : List (List F)) (ws : List (F × List F)) (hS : ∀ p ∈ ps, p.length = d)
    (hT : ∀ w ∈ ws, w.2.length = d ∧ ∀ t ∈ w.2, 0 ≤ t ∧ t ≤ 1) (hl : ws.length = ps.length / 2) :
    ∃ out, recombinationRun (gateRecombine pc both arithmeticCrossover) ps ws = some out ∧
      out.length = 2 * ws.countP (fun w => !crossedBy w.1 pc) +
        (if both then 2 else 1) * ws.countP (fun w => crossedBy w.1 pc) + ps.length % 2 ∧
      ∀ c ∈ out, c ∈ ps ∨ ∃ p1 ∈ ps, ∃ p2 ∈ ps, Convex d p1 p2 c := by
  refine recombination_population pc both arithmeticCrossover (fun p => p.length = d)
    (fun al => al.length = d ∧ ∀ t ∈ al, 0 ≤ t ∧ t ≤ 1) (Convex d) ?_ ps ws hS hT hl
  intro p1 p2 al e1 e2 hal
  obtain ⟨c1, c2, e, l1, l2, hk⟩ := arithmetic_convex p1 p2 al (e1.trans e2.symm) (hal.1.trans e1.symm) hal.2
  refine ⟨c1, c2, e, ⟨l1.trans e1, fun k a b ha hb => ?_⟩, ⟨l2.trans e1, fun k a b ha hb => ?_⟩⟩
  · have hk1 : k < p1.length := by
      rcases Nat.lt_or_ge k p1.length with h | h
      · exact h
      · rw [List.getElem?_eq_none h] at ha; cases ha
    obtain ⟨x, y, ex, _, b1, b2, _, _, _⟩ := hk k hk1
    have ea : p1[k] = a := by rw [List.getElem?_eq_getElem hk1] at ha; exact Option.some.inj ha
    have eb : p2[k]'((e1.trans e2.symm) ▸ hk1) = b := by
      rw [List.getElem?_eq_getElem ((e1.trans e2.symm) ▸ hk1)] at hb; exact Option.some.inj hb
    exact ⟨x, ex, ea ▸ eb ▸ b1, ea ▸ eb ▸ b2⟩
  · have hk1 : k < p1.length := by
      rcases Nat.lt_or_ge k p1.length with h | h
      · exact h
      · rw [List.getElem?_eq_none h] at ha; cases ha
    obtain ⟨x, y, _, ey, _, _, b3, b4, _⟩ := hk k hk1
    have ea : p1[k] = a := by rw [List.getElem?_eq_getElem hk1] at ha; exact Option.some.inj ha
    have eb : p2[k]'((e1.trans e2.symm) ▸ hk1) = b := by
      rw [List.getElem?_eq_getElem ((e1.trans e2.symm) ▸ hk1)] at hb; exact Option.some.inj hb
    exact ⟨y, ey, ea ▸ eb ▸ b3, ea ▸ eb ▸ b4⟩
end ArithPop

/-! ## Rate-gated mutations on a whole population; parameters read from the state -/

/-- The rate-gated loop keeps the number of individuals and every individual's dimension, for all
masks and replacement values. -/
theorem mutation_population_shape (masks : List (List Bool)) (vals pop : List (List α)) :
    (gatedPop masks vals pop).length = pop.length ∧
    (gatedPop masks vals pop).map List.length = pop.map List.length :=
  ⟨gatedPop_length masks vals pop, gatedPop_dims masks vals pop⟩

section Adapted
variable {F : Type} [Field F] [LinearOrder F] [IsStrictOrderedRing F]

/-- The rate in the STATE governs: once it has been set to 0, every legal execution leaves the whole
population unchanged and succeeds — whatever rate the constructor was given (even 1, even an
invalid one), for `NormalMutation` (any accepted strength, adapted or not), `UniformMutation` and
the rate-only components. -/
theorem adapted_rate_zero_identity (ctorStrength ctorRate : Param F) (newStrength : Option (Param F))
    (masks : List (List Bool)) (vals pop : List (List α))
    (hm : masksLegal (Param.fin (0 : F)) masks pop = true) :
    (normalStrengthGuard (newStrength.getD ctorStrength) = true →
      normalRun ctorStrength ctorRate newStrength (some (.fin 0)) masks vals pop = .ok pop) ∧
    (uniformBoundGuard (newStrength.getD ctorStrength) = .ok () →
      uniformRun ctorStrength ctorRate newStrength (some (.fin 0)) masks vals pop = .ok pop) ∧
    rateRun ctorRate (some (.fin 0)) masks vals pop = .ok pop := by
  have hz : rateIsZero (Param.fin (0 : F)) = true := by simp [rateIsZero]
  have hid := gatedPop_rate_zero (Param.fin (0 : F)) hz masks vals pop hm
  have hg : rateGuard (Param.fin (0 : F)) = true := by simp [rateGuard]
  refine ⟨?_, ?_, ?_⟩
  · intro hs; simp [normalRun, mutAdapt, mutInit, normalExec, hs, hg, hid]
  · intro hs; simp [uniformRun, mutAdapt, mutInit, uniformExec, hs, hg, hid]
  · simp [rateRun, mutAdapt, mutInit, rateExec, hg, hid]

/-- Conversely an adapted rate outside `[0, 1]` (or NaN) makes `execute` return `Err` although the
constructor's rate was fine, and the constructor's rate is irrelevant once the state was overwritten. -/
theorem adapted_rate_governs (ctorRate ctorRate' r : Param F) (masks : List (List Bool)) (vals pop : List (List α)) :
    (rateGuard r = false → rateRun ctorRate (some r) masks vals pop = .err) ∧
    rateRun ctorRate (some r) masks vals pop = rateRun ctorRate' (some r) masks vals pop ∧
    rateRun ctorRate none masks vals pop = rateExec ctorRate (gatedPop masks vals pop) := by
  refine ⟨?_, rfl, rfl⟩
  intro h; simp [rateRun, mutAdapt, mutInit, rateExec, h]

/-- The "full" constructors (`new_dev`, `new_bound`, `new_full`, `new_uniform_full`) store rate 1:
every legal mask fires everywhere, so each coordinate receives its replacement value. -/
theorem full_constructors_replace_everything (half p rate : F) (c : MutCtor)
    (hc : c = .newDev ∨ c = .newBound ∨ c = .newFull ∨ c = .newUniformFull)
    (mask : List Bool) (vals sol : List α) (hv : vals.length = sol.length)
    (hm : maskLegal (rateIsZero (Param.fin (mutCtorParams half c p rate).2))
      (rateIsOne (Param.fin (mutCtorParams half c p rate).2)) mask sol.length = true) :
    gated mask vals sol = vals := by
  have h1 : (mutCtorParams half c p rate).2 = 1 := by rcases hc with rfl | rfl | rfl | rfl <;> rfl
  rw [h1] at hm
  have hone : rateIsOne (Param.fin (1 : F)) = true := by simp [rateIsOne]
  simp only [maskLegal, hone, Bool.not_true, Bool.false_or, Bool.and_eq_true, beq_iff_eq] at hm
  exact gated_all_true mask vals sol hm.2 (hm.1.1.trans hv.symm) hv
end Adapted

/-! ## `mutation()`, the default `execute` of `Mutation` implementors -/

/-- When every `mutate` call succeeds, the population is put back with the same number of
individuals, each being the result of `mutate` on the individual at its index; the rest of the
stack is untouched. -/
theorem mutation_default_ok {β : Type} (mutate : β → Option β) (top : List β) (rest : List (List β))
    (h : ∀ x ∈ top, (mutate x).isSome) :
    ∃ top', mutationRun mutate (top :: rest) = some (true, top' :: rest) ∧ top'.length = top.length ∧
      ∀ i (hi : i < top.length), some <$> top'[i]? = some (mutate top[i]) := by
  obtain ⟨ys, e, l, hk⟩ := mutateAll_total mutate top h
  exact ⟨ys, by simp [mutationRun, e], l, hk⟩

/-- Observation (outside the wording of C13, the `Err` is the implementor's): on the first failing
`mutate` the function returns before its `push` — the population is dropped from the stack. -/
theorem mutation_default_err_drops_population {β : Type} (mutate : β → Option β) (top : List β)
    (rest : List (List β)) (h : ∃ x ∈ top, mutate x = none) :
    mutationRun mutate (top :: rest) = some (false, rest) := by
  simp [mutationRun, mutateAll_none mutate top h]

/-- The legal masks of both DE crossovers are non-empty sets of positions. -/
example : deBinLegal false false 4 [false, true, false, true] = true := by decide
example : deExpLegal false false 4 [true, false, false, true] = true := by decide
example : deExpLegal true false 4 [false, false, true, false] = true := by decide
example : deMutation 1 (2 : Int) [[1, 1], [5, 0], [2, 7], [0, 0], [1, 1], [1, 1]] = .ok [[7, -13], [0, 0]] := by decide
example : maskLegal true false [false, false, false] 3 = true := by decide
example : nPointLegal 2 5 [4, 1] = true ∧ nPointLegal 0 2 [] = true ∧ nPointLegal 7 2 [1, 0] = true := by decide
example : rateGuard (Param.fin (1 : Int)) = true ∧ rateGuard (Param.nan : Param Int) = false ∧
    uniformBoundGuard (Param.posInf : Param Int) = .panic ∧ normalStrengthGuard (Param.fin (-3 : Int)) = true := by decide
/-- draws in `[0,1)`: the smallest draw no longer crosses at probability 0, and crosses at 0.3 -/
example : crossedBy (0 : Int) 0 = false ∧ crossedBy (0 : Int) 1 = true := by decide
example : (0 : Rat) ≤ 0 ∧ (0 : Rat) < 1 ∧ (0 : Rat) ≤ 999 / 1000 ∧ (999 / 1000 : Rat) < 1 := by norm_num
example : frame [[100, 101], [200, 201]]
    ((recombine (crossedBy (0 : Int) 0) (multiPointCrossover [100, 101] [200, 201] [1]) false).toList)
    = [[100, 101], [200, 201]] := by decide
example : ∀ t ∈ [(1 / 2 : Rat), 3 / 10, 0, 1], 0 ≤ t ∧ t ≤ 1 := by
  intro t ht; simp at ht; rcases ht with rfl | rfl | rfl | rfl <;> norm_num

/-! Population level, adaptation, constructors, `mutation()`: the hypotheses are satisfiable and the runs are not trivial. -/
example : recombinationRun (gateRecombine (1 : Int) false uniformCrossover) [[1, 2], [3, 4], [5, 6]]
    [((0 : Int), [true, false])] = some [[3, 2], [5, 6]] := by decide
example : recombinationRun (gateRecombine (1 : Int) (recCtorBoth .newInsertBoth false) uniformCrossover)
    [[1, 2], [3, 4], [5, 6]] [((0 : Int), [true, false])] = some [[3, 2], [1, 4], [5, 6]] := by decide
example : recombinationRun (gateRecombine (0 : Int) true uniformCrossover) [[1, 2], [3, 4], [5, 6]]
    [((0 : Int), [true, false])] = some [[1, 2], [3, 4], [5, 6]] := by decide
example : recombinationRun (gateRecombine (1 : Int) true multiPointCrossover) [[1, 2], [3, 4]] [((0 : Int), [])] = none := by
  decide
example : recombinationRun (gateRecombine (1 : Int) true (fun p1 p2 (_ : Unit) => cycleCrossover p1 p2))
    [[0, 1, 2], [1, 0, 2], [2, 1, 0]] [((0 : Int), ())] = some [[0, 1, 2], [1, 0, 2], [2, 1, 0]] := by decide
example : nPointLegal 1 3 [2] = true ∧ ([0, 1, 2] : List Nat).Nodup ∧ ([1, 0, 2] : List Nat).Perm [0, 1, 2] := by decide
example : masksLegal (Param.fin (0 : Int)) [[false, false], [false]] [[7, 8], [9]] = true := by decide
example : masksLegal (Param.fin (1 : Int)) [[true, true], [true]] [[7, 8], [9]] = true := by decide
example : normalRun (Param.fin (3 : Int)) (Param.fin 1) none (some (.fin 0)) [[false, false]] [[50, 60]] [[7, 8]] =
    .ok [[7, 8]] := by decide
example : normalRun (Param.fin (3 : Int)) (Param.fin 0) none (some (.fin 1)) [[true, true]] [[50, 60]] [[7, 8]] =
    .ok [[50, 60]] := by decide
example : rateRun (Param.fin (1 : Int)) (some (.fin 2)) [[true]] [[5]] [[7]] = .err := by decide
example : rateRun (Param.fin (2 : Int)) (some (.fin 1)) [[true]] [[5]] [[7]] = .ok [[5]] := by decide
example : mutCtorParams (5 : Int) .newFull 7 0 = (7, 1) ∧ mutCtorParams (5 : Int) .newUniformFull 7 0 = (5, 1) ∧
    mutCtorParams (5 : Int) .newUniform 7 0 = (5, 0) ∧ mutCtorParams (5 : Int) .new 7 0 = (7, 0) := by decide
example : mutationRun (fun s : List Nat => if s.contains 8 then none else some s.reverse) [[[4, 5], [6, 7]], [[1, 2]]] =
    some (true, [[[5, 4], [7, 6]], [[1, 2]]]) := by decide
example : mutationRun (fun s : List Nat => if s.contains 8 then none else some s.reverse) [[[4, 5], [7, 8]], [[1, 2]]] =
    some (false, [[[1, 2]]]) := by decide
example : deCrossExec 0 [] ([] : List Nat) [] = none ∧ deCrossExec 2 [true, false] [1, 2] [8, 9] = some [8, 2] := by decide

/-! Non-vacuity of the hypotheses, on concrete inputs. -/
example : circularSwap [10, 11, 12, 13, 14] [1, 0, 4, 2] = some [11, 12, 14, 13, 10] := by decide
example : circularSwap2 [10, 11, 12, 13, 14] [1, 0, 4, 2] = some [11, 12, 14, 13, 10] := by decide
example : ([1, 0, 4, 2] : List Nat).Nodup ∧ 2 ≤ ([1, 0, 4, 2] : List Nat).length := by decide
example : translocValid 9 3 6 1 = true := by decide
example : translocateSlice [1, 2, 3, 4, 5, 6, 7, 8, 9] 3 6 1 = some [1, 4, 5, 6, 2, 3, 7, 8, 9] := by decide
example : translocateSlice [1, 2, 3, 4, 5, 6, 7, 8, 9] 6 9 6 = some [1, 2, 3, 4, 5, 6, 7, 8, 9] := by decide
example : multiPointCrossover [0, 0, 0, 0, 0] [1, 1, 1, 1, 1] [4, 2] = some ([0, 0, 1, 1, 0], [1, 1, 0, 0, 1]) := by decide
example : uniformCrossover [0, 0, 0] [1, 1, 1] [true, false, true] = some ([1, 0, 1], [0, 1, 0]) := by decide
example : cycleCrossover [8, 4, 7, 3, 6, 2, 5, 1, 9, 0] [0, 1, 2, 3, 4, 5, 6, 7, 8, 9] =
    some ([8, 1, 2, 3, 4, 5, 6, 7, 9, 0], [0, 4, 7, 3, 6, 2, 5, 1, 8, 9]) := by decide
example : ([8, 4, 7, 3, 6, 2, 5, 1, 9, 0] : List Nat).Nodup ∧
    ([8, 4, 7, 3, 6, 2, 5, 1, 9, 0] : List Nat).Perm [0, 1, 2, 3, 4, 5, 6, 7, 8, 9] := by decide

end MahfModel.Props.C13
