/-
C13 — Variation operators keep solutions well-formed and conserve parental genes.
Property theorems only; helper lemmas are in `Proofs/C13.lean`.
-/
import MahfModel.Proofs.C13
import MahfModel.Proofs.C13Cycle
namespace MahfModel.Props.C13
open MahfModel.Variation

variable {α : Type}

/-! ## Functional helpers -/

/-- `circular_swap` returns a permutation of its input whenever it returns. -/
theorem circular_swap_perm (l l' : List α) (idx : List Nat) (h : circularSwap l idx = some l') :
    l'.Perm l := circularSwap_perm l l' idx h

/-- `circular_swap2` returns a permutation of its input whenever it returns. -/
theorem circular_swap2_perm (l l' : List α) (idx : List Nat) (h : circularSwap2 l idx = some l') :
    l'.Perm l := circularSwap2_perm l l' idx h

/-- On every valid input (at least two distinct in-range indices) neither implementation panics
and the two agree. -/
theorem circular_swap_agree (l : List α) (idx : List Nat) (hn : idx.Nodup) (h2 : 2 ≤ idx.length)
    (hr : ∀ i ∈ idx, i < l.length) :
    ∃ r, circularSwap l idx = some r ∧ circularSwap2 l idx = some r := by
  obtain ⟨r1, e1, c1⟩ := circularSwap_cyc l idx hn h2 hr
  obtain ⟨r2, e2, c2⟩ := circularSwap2_cyc l idx hn h2 hr
  exact ⟨r1, e1, by rw [e2, Cyc.unique l _ r1 r2 c1 c2]⟩

/-- Closed form: the element at `i_k` moves to `i_{(k+1) mod n}`; every other position is untouched. -/
theorem circular_swap_closed_form (l : List α) (idx : List Nat) (hn : idx.Nodup) (h2 : 2 ≤ idx.length)
    (hr : ∀ i ∈ idx, i < l.length) :
    ∃ r, circularSwap l idx = some r ∧ r.length = l.length ∧
      (∀ k (hk : k < idx.length),
        r[idx[(k + 1) % idx.length]'(Nat.mod_lt _ (Nat.lt_of_le_of_lt (Nat.zero_le k) hk))]? = l[idx[k]]?) ∧
      (∀ p, p ∉ idx → r[p]? = l[p]?) := by
  obtain ⟨r, e, c⟩ := circularSwap_cyc l idx hn h2 hr
  exact ⟨r, e, c.len, fun k hk => Cyc.moves l idx r c k hk, fun p hp => c.off p (by simpa using hp)⟩

/-- Both translocation helpers return a permutation of the input (under the code's own contracts,
a well-formed range and the fitting assertion). -/
theorem translocate_perm (l : List α) (s e i : Nat) (h : translocValid l.length s e i = true) :
    ∃ r, translocateSlice l s e i = some r ∧ r.Perm l := by
  refine ⟨_, translocateSlice_eq l s e i h, translocSpec_perm l s e i ?_⟩
  simp only [translocValid, Bool.and_eq_true, decide_eq_true_eq] at h
  exact h.1.2

/-- The two implementations agree on every valid input: both take the slice out and re-insert it
at `index` of the remainder … -/
theorem translocate_agree (l : List α) (s e i : Nat) (h : translocValid l.length s e i = true) :
    translocateSlice l s e i = some (translocSpec l s e i) ∧
    translocateSlice2 l s e i = some (translocSpec l s e i) :=
  ⟨translocateSlice_eq l s e i h, translocateSlice2_eq l s e i h⟩

/-- … and on every other input both panic; hence they agree on all inputs. -/
theorem translocate_agree_everywhere (l : List α) (s e i : Nat) :
    translocateSlice l s e i = translocateSlice2 l s e i := by
  cases h : translocValid l.length s e i with
  | true => rw [translocateSlice_eq l s e i h, translocateSlice2_eq l s e i h]
  | false => rw [(translocate_invalid l s e i h).1, (translocate_invalid l s e i h).2]

/-- The executable predicate evaluated in step O (`valid input ⇒ both outputs present, equal, a
permutation, and equal to the closed form`) holds on the model for EVERY input. -/
theorem circular_swap_holds (l : List Nat) (idx : List Nat) :
    cswapHolds l idx (circularSwap l idx) (circularSwap2 l idx) = true := cswapHolds_model l idx

/-- Likewise for the translocation helpers. -/
theorem translocate_holds (l : List Nat) (s e i : Nat) :
    translocHolds l s e i (translocateSlice l s e i) (translocateSlice2 l s e i) = true :=
  translocHolds_model l s e i

/-- Multi-point crossover on parents of equal length with cut points in `0..=len`: no panic, the
children have the parents' length, and position `k` of child 1 holds the gene of parent 2 exactly
when an odd number of cut points is `≤ k` (child 2: the other gene). -/
theorem multi_point_positionwise (p1 p2 : List α) (idx : List Nat) (hl : p1.length = p2.length)
    (hne : idx ≠ []) (hlt : idx.length < p1.length) (hr : ∀ x ∈ idx, x ≤ p1.length) :
    ∃ c1 c2, multiPointCrossover p1 p2 idx = some (c1, c2) ∧
      c1.length = p1.length ∧ c2.length = p1.length ∧
      ∀ k : Nat, c1[k]? = (if idx.countP (· ≤ k) % 2 = 1 then p2[k]? else p1[k]?) ∧
           c2[k]? = (if idx.countP (· ≤ k) % 2 = 1 then p1[k]? else p2[k]?) := by
  obtain ⟨d1, d2, h, l1, l2, hk⟩ := mpxLoop_spec p1 p2 idx.length hl idx 0 p1 p2 hl hr
  refine ⟨d1, d2, ?_, l1, l2, hk⟩
  unfold multiPointCrossover
  have e1 : idx.isEmpty = false := by cases idx <;> simp_all
  have e2 : ¬ ¬ idx.length < p1.length := by omega
  have e3 : ¬ ¬ idx.length < p2.length := by omega
  simp only [e1, e2, e3, if_false, Bool.false_eq_true, h]

/-- Both genes of every position are conserved across the two children (multi-point). -/
theorem multi_point_genes_conserved (p1 p2 : List α) (idx : List Nat) (hl : p1.length = p2.length)
    (hne : idx ≠ []) (hlt : idx.length < p1.length) (hr : ∀ x ∈ idx, x ≤ p1.length) :
    ∃ c1 c2, multiPointCrossover p1 p2 idx = some (c1, c2) ∧
      ∀ k : Nat, (c1[k]? = p1[k]? ∧ c2[k]? = p2[k]?) ∨ (c1[k]? = p2[k]? ∧ c2[k]? = p1[k]?) := by
  obtain ⟨c1, c2, h, _, _, hk⟩ := multi_point_positionwise p1 p2 idx hl hne hlt hr
  refine ⟨c1, c2, h, fun k => ?_⟩
  have := hk k
  by_cases hc : idx.countP (· ≤ k) % 2 = 1
  · right; simpa [hc] using this
  · left; simpa [hc] using this

/-- Uniform crossover on parents of equal length with a mask of that length: no panic, and the
children are, position by position, the parental genes swapped where the mask is set. -/
theorem uniform_positionwise (p1 p2 : List α) (mask : List Bool) (hl : p1.length = p2.length)
    (hm : mask.length = p1.length) :
    ∃ c1 c2, uniformCrossover p1 p2 mask = some (c1, c2) ∧
      c1.length = p1.length ∧ c2.length = p1.length ∧
      ∀ k (hk : k < p1.length),
        c1[k]? = (if mask[k]'(hm ▸ hk) then p2[k]? else p1[k]?) ∧
        c2[k]? = (if mask[k]'(hm ▸ hk) then p1[k]? else p2[k]?) := by
  have hv : uxValid p1.length p2.length mask = true := by simp [uxValid, hm, ← hl]
  refine ⟨_, _, uniformCrossover_eq p1 p2 mask hv, ?_, ?_, ?_⟩
  · simp [uxSpec, List.length_zipWith, hm, ← hl]
  · simp [uxSpec, List.length_zipWith, hm, ← hl]
  · intro k hk
    have hk2 : k < p2.length := hl ▸ hk
    have hkm : k < mask.length := hm ▸ hk
    simp only [uxSpec, List.getElem?_zipWith, List.getElem?_zip_eq_some, List.getElem?_eq_getElem hkm,
      List.getElem?_eq_getElem hk, List.getElem?_eq_getElem hk2]
    have hz : (p1.zip p2)[k]? = some (p1[k], p2[k]) := by
      rw [List.getElem?_zip_eq_some]; simp [hk, hk2]
    rw [hz]
    cases mask[k] <;> simp

/-- Both genes of every position are conserved across the two children (uniform). -/
theorem uniform_genes_conserved (p1 p2 : List α) (mask : List Bool) (hl : p1.length = p2.length)
    (hm : mask.length = p1.length) :
    ∃ c1 c2, uniformCrossover p1 p2 mask = some (c1, c2) ∧
      ∀ k : Nat, k < p1.length →
        (c1[k]? = p1[k]? ∧ c2[k]? = p2[k]?) ∨ (c1[k]? = p2[k]? ∧ c2[k]? = p1[k]?) := by
  obtain ⟨c1, c2, h, _, _, hk⟩ := uniform_positionwise p1 p2 mask hl hm
  refine ⟨c1, c2, h, fun k hlt => ?_⟩
  have := hk k hlt
  cases hmk : mask[k]'(hm ▸ hlt)
  · left; simpa [hmk] using this
  · right; simpa [hmk] using this

/-- Cycle crossover on two permutations of the same elements: no panic (all three contracts hold,
the `unwrap` succeeds, the loop terminates within its fuel), the children have the parents' length
and every position holds the two parental genes of that position (both conserved). -/
theorem cycle_crossover_positionwise [DecidableEq α] (p1 p2 : List α) (h1 : p1.Nodup) (hp : p1.Perm p2) :
    ∃ c1 c2, cycleCrossover p1 p2 = some (c1, c2) ∧ c1.length = p1.length ∧ c2.length = p1.length ∧
      ∀ k : Nat, k < p1.length →
        (c1[k]? = p1[k]? ∧ c2[k]? = p2[k]?) ∨ (c1[k]? = p2[k]? ∧ c2[k]? = p1[k]?) := by
  obtain ⟨c1, c2, h, l1, l2, hk, _, _⟩ := cycleCrossover_spec p1 p2 h1 hp
  exact ⟨c1, c2, h, l1, l2, hk⟩

/-- The children of two permutations are permutations of the same elements. -/
theorem cycle_crossover_perm [DecidableEq α] (p1 p2 : List α) (h1 : p1.Nodup) (hp : p1.Perm p2) :
    ∃ c1 c2, cycleCrossover p1 p2 = some (c1, c2) ∧ c1.Perm p1 ∧ c2.Perm p1 := by
  obtain ⟨c1, c2, h, _, _, _, q1, q2⟩ := cycleCrossover_spec p1 p2 h1 hp
  exact ⟨c1, c2, h, q1, q2⟩

section Arith
variable {F : Type} [Field F] [LinearOrder F] [IsStrictOrderedRing F]

/-- Arithmetic crossover: no panic on parents and alphas of one length; for `α ∈ [0,1]` every child
coordinate is a convex combination (lies between the two parental coordinates), and the two
children together conserve the coordinate sum. -/
theorem arithmetic_convex (p1 p2 al : List F) (hl : p1.length = p2.length) (ha : al.length = p1.length)
    (h01 : ∀ t ∈ al, 0 ≤ t ∧ t ≤ 1) :
    ∃ c1 c2, arithmeticCrossover p1 p2 al = some (c1, c2) ∧
      c1.length = p1.length ∧ c2.length = p1.length ∧
      ∀ k (hk : k < p1.length), ∃ x y, c1[k]? = some x ∧ c2[k]? = some y ∧
        min p1[k] (p2[k]'(hl ▸ hk)) ≤ x ∧ x ≤ max p1[k] (p2[k]'(hl ▸ hk)) ∧
        min p1[k] (p2[k]'(hl ▸ hk)) ≤ y ∧ y ≤ max p1[k] (p2[k]'(hl ▸ hk)) ∧
        x + y = p1[k] + p2[k]'(hl ▸ hk) := by
  refine ⟨_, _, arithmeticCrossover_eq p1 p2 al hl ha, ?_, ?_, ?_⟩
  · simp [axSpec, ha, ← hl]
  · simp [axSpec, ha, ← hl]
  · intro k hk
    have hk2 : k < p2.length := hl ▸ hk
    have hka : k < al.length := ha ▸ hk
    have hz : (al.zip (p1.zip p2))[k]? = some (al[k], (p1[k], p2[k])) := by
      rw [List.getElem?_zip_eq_some]
      refine ⟨List.getElem?_eq_getElem hka, ?_⟩
      rw [List.getElem?_zip_eq_some]; simp [hk, hk2]
    have ht := h01 al[k] (List.getElem_mem hka)
    refine ⟨al[k] * p1[k] + (1 - al[k]) * p2[k], al[k] * p2[k] + (1 - al[k]) * p1[k], ?_, ?_, ?_⟩
    · simp [axSpec, List.getElem?_map, hz]
    · simp [axSpec, List.getElem?_map, hz]
    · have c1 := convex_between p1[k] p2[k] al[k] ht.1 ht.2
      have c2 := convex_between p2[k] p1[k] al[k] ht.1 ht.2
      rw [min_comm, max_comm] at c2
      exact ⟨c1.1, c1.2, c2.1, c2.2, convex_sum _ _ _⟩
end Arith


/-! ## Components (functions of explicit witnesses; the theorems quantify over every legal witness) -/

/-- Real- and bit-valued rate-gated mutations keep the dimension, whatever the gate did. -/
theorem mutation_keeps_dimension {F : Type} [Add F] (mask : List Bool) (vals sol : List α)
    (deltas xs : List F) (bits : List Bool) :
    (gated mask vals sol).length = sol.length ∧ (resample mask vals sol).length = sol.length ∧
    (addDeltas mask deltas xs).length = xs.length ∧ (bitFlip mask bits).length = bits.length :=
  ⟨gated_length _ _ _, gated_length _ _ _, gated_length _ _ _, gated_length _ _ _⟩

/-- A mutation rate of zero (`gen_bool(0)` never fires: every legal mask is all-false) leaves every
solution unchanged. -/
theorem rate_zero_is_identity {F : Type} [Add F] (rmOne : Bool) (mask : List Bool) (vals sol : List α)
    (deltas xs : List F) (bits : List Bool) :
    (maskLegal true rmOne mask sol.length = true → gated mask vals sol = sol) ∧
    (maskLegal true rmOne mask xs.length = true → addDeltas mask deltas xs = xs) ∧
    (maskLegal true rmOne mask bits.length = true → bitFlip mask bits = bits) := by
  refine ⟨?_, ?_, ?_⟩ <;> intro h <;>
    simp only [maskLegal, Bool.not_true, Bool.false_or, Bool.and_eq_true] at h <;>
    exact gated_all_false _ _ _ h.1.2

/-- Swap, inversion, insertion, translocation and scramble return a permutation of the solution
for every legal witness, and never panic or err on it. -/
theorem permutation_mutations_perm (sol : List α) :
    (∀ k w, 2 ≤ k → k ≤ sol.length → swapLegal k sol.length w = true →
      ∃ r, swapMutation k sol w = .ok r ∧ r.Perm sol) ∧
    (∀ w, inversionLegal sol.length w = true → ∃ r, inversionMutation sol w = some r ∧ r.Perm sol) ∧
    (∀ w, insertionLegal sol.length w = true → ∃ r, insertionMutation sol w = some r ∧ r.Perm sol) ∧
    (∀ w, translocationLegal sol.length w = true → ∃ r, translocationMutation sol w = some r ∧ r.Perm sol) ∧
    (∀ rmZero σ, scrambleLegal rmZero sol.length σ = true →
      ∃ r, scrambleMutation sol σ = some r ∧ r.Perm sol ∧ (rmZero = true → r = sol)) :=
  ⟨fun k w h1 h2 h => swapMutation_legal k sol w h1 h2 h, inversion_legal sol, insertion_legal sol,
   translocation_legal sol, fun z σ h => scramble_legal z sol σ h⟩

/-- Legal witnesses exist for every solution length (the quantifiers above are not vacuous). -/
theorem permutation_witnesses_exist (n : Nat) :
    (2 ≤ n → swapLegal 2 n [0, 1] = true) ∧
    (inversionLegal n (if n < 2 then none else some (0, 1)) = true) ∧
    (0 < n → insertionLegal n (0, 0) = true) ∧
    (translocationLegal n (if n < 2 then none else some (0, 1, 0)) = true) ∧
    (scrambleLegal false n (List.range n).reverse = true) := by
  refine ⟨?_, ?_, ?_, ?_, ?_⟩
  · intro h; simp [swapLegal, nodupNat, allBelow]; omega
  · split <;> simp [inversionLegal] <;> omega
  · intro h; simp [insertionLegal, h]
  · split <;> simp [translocationLegal] <;> omega
  · simp only [scrambleLegal, Bool.not_false, Bool.true_or, Bool.and_true]
    exact List.isPerm_iff.mpr (List.reverse_perm _)

/-! ### Parameter guards: which parameter values every constructor / `execute` accepts.
The guards are functions of the parameter VALUE (`Param F`: a finite number, `±∞` or NaN); the driver
calls the same definitions on the `f64` the harness passed to the real component. -/

section GuardTheorems
variable {F : Type} [Field F] [LinearOrder F] [IsStrictOrderedRing F] {β : Type}

/-- A mutation rate is accepted exactly when it is a finite number in `[0, 1]`. -/
theorem rate_guard_exact (p : Param F) :
    rateGuard p = true ↔ ∃ x, p = .fin x ∧ 0 ≤ x ∧ x ≤ 1 := by
  cases p <;> simp [rateGuard]

/-- `NormalMutation::execute` never panics on its parameters; it succeeds exactly for a finite
standard deviation (negative ones included — the sampler mirrors them) and an accepted rate; in
particular every documented value (`σ ≥ 0` finite, rate in `[0,1]`) is accepted. -/
theorem normal_mutation_guards (σ rm : Param F) (r : β) :
    (normalExec σ rm r = .ok r ↔ (∃ s, σ = .fin s) ∧ rateGuard rm = true) ∧
    normalExec σ rm r ≠ .panic ∧
    (∀ s x : F, 0 ≤ s → 0 ≤ x → x ≤ 1 → normalExec (.fin s) (.fin x) r = .ok r) := by
  refine ⟨?_, ?_, ?_⟩
  · cases σ <;> cases h : rateGuard rm <;> simp [normalExec, normalStrengthGuard, h]
  · cases σ <;> cases h : rateGuard rm <;> simp [normalExec, normalStrengthGuard, h]
  · intro s x _ h0 h1; simp [normalExec, normalStrengthGuard, rateGuard, h0, h1]

/-- `UniformMutation::execute` succeeds exactly for a finite bound `≥ 0` (zero included) and an
accepted rate; the only panic is the infinite bound, which passes `bound >= 0` and fails inside
`Uniform::new_inclusive` (outside the documented domain). -/
theorem uniform_mutation_guards (b rm : Param F) (r : β) :
    (uniformExec b rm r = .ok r ↔ (∃ x, b = .fin x ∧ 0 ≤ x) ∧ rateGuard rm = true) ∧
    (uniformExec b rm r = .panic ↔ b = .posInf) := by
  constructor
  · cases b with
    | fin x => by_cases hx : 0 ≤ x <;> cases h : rateGuard rm <;> simp [uniformExec, uniformBoundGuard, hx, h]
    | posInf => simp [uniformExec, uniformBoundGuard]
    | negInf => simp [uniformExec, uniformBoundGuard]
    | nan => simp [uniformExec, uniformBoundGuard]
  · cases b with
    | fin x => by_cases hx : 0 ≤ x <;> cases h : rateGuard rm <;> simp [uniformExec, uniformBoundGuard, hx, h]
    | posInf => simp [uniformExec, uniformBoundGuard]
    | negInf => simp [uniformExec, uniformBoundGuard]
    | nan => simp [uniformExec, uniformBoundGuard]

/-- The components that guard only their rate accept exactly the accepted rates. -/
theorem rate_only_guards (rm : Param F) (r : β) :
    (rateExec rm r = .ok r ↔ rateGuard rm = true) ∧ rateExec rm r ≠ .panic := by
  cases h : rateGuard rm <;> simp [rateExec, h]

/-- `DEMutation::from_params` accepts exactly `y ∈ {1, 2}` with a finite `f ∈ [0, 2]` (the documented
`(0, 2]` plus `f = 0`). -/
theorem de_ctor_guard_exact (y : Nat) (f : Param F) :
    deCtorGuard y f = true ↔ (y = 1 ∨ y = 2) ∧ ∃ x, f = .fin x ∧ 0 ≤ x ∧ x ≤ 2 := by
  cases f <;> simp [deCtorGuard, and_assoc]
end GuardTheorems

/-- `SwapMutation`: the constructor accepts exactly `num_swap ≥ 2`, `execute` errs exactly when
`num_swap` exceeds the solution length (and then never panics first). -/
theorem swap_guards_exact (k : Nat) (sol : List α) (w : List Nat) :
    (swapCtorGuard k = true ↔ 2 ≤ k) ∧ (swapMutation k sol w = .err ↔ sol.length < k) := by
  refine ⟨by simp [swapCtorGuard], ?_⟩
  unfold swapMutation
  by_cases h : sol.length < k
  · simp [h]
  · simp only [h, if_false, iff_false]
    cases circularSwap sol w <;> simp

/-! ### `NPointCrossover` / `UniformCrossover` as components (`recombine` on one pair) -/

/-- `NPointCrossover` with `1 ≤ n < dim` on parents of the problem's dimension: for every legal
witness (the `n` distinct cut positions `choose_multiple` returned) no panic, and the child(ren)
are position-wise with both genes conserved. Partial: the region `n = 0 ∨ n ≥ dim`, which the
constructor also accepts, is excluded — see `npoint_n_out_of_range_violates`. -/
theorem npoint_component_partial (n : Nat) (p1 p2 : List α) (cuts : List Nat) (hl : p1.length = p2.length)
    (h1 : 1 ≤ n) (h2 : n < p1.length) (hc : nPointLegal n p1.length cuts = true) (insertBoth : Bool) :
    ∃ c1 c2, nPointRecombine true cuts insertBoth p1 p2 = some (OptPair.fromPair (c1, c2) insertBoth) ∧
      c1.length = p1.length ∧ c2.length = p1.length ∧
      ∀ k : Nat, (c1[k]? = p1[k]? ∧ c2[k]? = p2[k]?) ∨ (c1[k]? = p2[k]? ∧ c2[k]? = p1[k]?) := by
  simp only [nPointLegal, Bool.and_eq_true, beq_iff_eq, allBelow_iff] at hc
  obtain ⟨⟨hlen, _⟩, hr⟩ := hc
  have hlen' : cuts.length = n := by omega
  have hne : cuts ≠ [] := by intro h; rw [h] at hlen'; simp at hlen'; omega
  obtain ⟨c1, c2, h, l1, l2, _⟩ := multi_point_positionwise p1 p2 cuts hl hne (by omega)
    (fun x hx => Nat.le_of_lt (hr x hx))
  obtain ⟨d1, d2, h', hk⟩ := multi_point_genes_conserved p1 p2 cuts hl hne (by omega)
    (fun x hx => Nat.le_of_lt (hr x hx))
  have : (d1, d2) = (c1, c2) := Option.some.inj (h'.symm.trans h)
  obtain ⟨rfl, rfl⟩ := Prod.mk.inj this
  exact ⟨d1, d2, by simp [nPointRecombine, recombine, h], l1, l2, hk⟩

/-- The full statement (no panic for every `n` the constructor accepts), kept visible; it is refuted below. -/
def npoint_component_full : Prop :=
  ∀ (n : Nat) (p1 p2 : List Nat) (cuts : List Nat), p1.length = p2.length → 0 < p1.length →
    nPointLegal n p1.length cuts = true → (nPointRecombine true cuts true p1 p2).isSome

/-- Counterexample region: with `n = 0` or `n ≥ dim` EVERY legal witness makes a crossed pair panic
in the `#[requires]` contract of `multi_point_crossover` (an empty cut list, resp. as many cuts as genes). -/
theorem npoint_n_out_of_range_violates (n : Nat) (p1 p2 : List α) (cuts : List Nat)
    (hc : nPointLegal n p1.length cuts = true) (hbad : n = 0 ∨ p1.length ≤ n) (insertBoth : Bool) :
    nPointRecombine true cuts insertBoth p1 p2 = none := by
  simp only [nPointLegal, Bool.and_eq_true, beq_iff_eq] at hc
  obtain ⟨⟨hlen, _⟩, _⟩ := hc
  simp only [nPointRecombine, recombine, if_true, multiPointCrossover]
  rcases hbad with h0 | hge
  · have : cuts = [] := by
      apply List.eq_nil_of_length_eq_zero; rw [hlen, h0]; simp
    simp [this]
  · have hl : cuts.length = p1.length := by rw [hlen]; exact Nat.min_eq_right hge
    by_cases he : cuts.isEmpty = true
    · simp [he]
    · simp [he, hl]

theorem npoint_component_full_refuted : ¬ npoint_component_full := by
  intro h
  have := h 0 [1, 2] [3, 4] [] rfl (by decide) (by decide)
  revert this; decide

/-- `UniformCrossover` on a pair of the problem's dimension: no panic for every mask, position-wise. -/
theorem uniform_component (p1 p2 : List α) (mask : List Bool) (hl : p1.length = p2.length)
    (hm : mask.length = min p1.length p2.length) (insertBoth : Bool) :
    ∃ c1 c2, uniformRecombine true mask insertBoth p1 p2 = some (OptPair.fromPair (c1, c2) insertBoth) ∧
      ∀ k : Nat, k < p1.length →
        (c1[k]? = p1[k]? ∧ c2[k]? = p2[k]?) ∨ (c1[k]? = p2[k]? ∧ c2[k]? = p1[k]?) := by
  obtain ⟨c1, c2, h, hk⟩ := uniform_genes_conserved p1 p2 mask hl (by omega)
  exact ⟨c1, c2, by simp [uniformRecombine, recombine, h], hk⟩

/-- Offspring counts: every pair contributes both parents (no crossover), one child (insert-one) or
two children (insert-both); an odd remainder passes through. -/
theorem recombination_counts {β : Type} (parents : List β) (rs : List (OptPair β))
    (h : rs.length = parents.length / 2) :
    (frame parents rs).length =
      2 * countNone rs + countSingle rs + 2 * countBoth rs + parents.length % 2 :=
  frame_length parents rs h

/-- What one `recombine` call contributes follows the crossover decision and `insert_both`. -/
theorem recombine_cases {β : Type} (crossed insertBoth : Bool) (c : β × β) :
    recombine crossed (some c) insertBoth =
      some (if crossed then (if insertBoth then .both c.1 c.2 else .single c.1) else .none) := by
  cases crossed <;> cases insertBoth <;> rfl

section Gate
variable {F : Type} [Field F] [LinearOrder F] [IsStrictOrderedRing F]

/-- The crossover gate `u < pc` for a uniform draw `u ∈ [0,1)`: a pair is crossed exactly when the
draw is below the probability; hence probability 0 never crosses and probability 1 always
crosses, for every draw. -/
theorem crossover_gate (u pc : F) (h0 : 0 ≤ u) (h1 : u < 1) :
    (crossedBy u pc = true ↔ u < pc) ∧ crossedBy u 0 = false ∧ crossedBy u 1 = true := by
  refine ⟨by simp [crossedBy], ?_, ?_⟩
  · simp [crossedBy, not_lt.mpr h0]
  · simp [crossedBy, h1]

/-- With crossover probability 0 the population passes through `recombination` unchanged, whatever
the draws and whatever the crossover helper would return. -/
theorem recombination_pc_zero_identity {β : Type} (parents : List β) (us : List F) (hu : ∀ u ∈ us, 0 ≤ u)
    (children : List (Option (β × β))) (insertBoth : Bool) (rs : List (OptPair β))
    (hrs : (List.zipWith (fun u c => recombine (crossedBy u 0) c insertBoth) us children) = rs.map some) :
    frame parents rs = parents := by
  have hall : ∀ r ∈ rs, r = OptPair.none := by
    intro r hr
    have : some r ∈ rs.map some := List.mem_map.mpr ⟨r, hr, rfl⟩
    rw [← hrs] at this
    obtain ⟨i, hi, hget⟩ := List.getElem_of_mem this
    simp only [List.getElem_zipWith] at hget
    have hlt : i < us.length := by simp only [List.length_zipWith] at hi; omega
    have : crossedBy us[i] (0 : F) = false := by
      simp [crossedBy, not_lt.mpr (hu _ (List.getElem_mem hlt))]
    rw [this] at hget
    simpa [recombine] using hget.symm
  exact frame_none_id parents rs hall
end Gate

section DE
variable {F : Type} [Field F]

/-- `DEMutation` accepts exactly the populations whose length is a multiple of `2y+1` and returns
one mutant per group, each of the dimension of a member of the population. -/
theorem de_mutation_format (y : Nat) (f : F) (pop : List (List F)) :
    (deMutation y f pop = .err ↔ pop.length % (y * 2 + 1) ≠ 0) ∧
    (∀ r, deMutation y f pop = .ok r →
      pop.length % (y * 2 + 1) = 0 ∧ r.length = pop.length / (y * 2 + 1) ∧
      ∀ m ∈ r, ∃ b ∈ pop, m.length = b.length) :=
  deMutation_format y f pop
end DE

/-- DE binomial / exponential crossover: the trial vector keeps the dimension and every position
holds the mutant's or the base's coordinate, for every mask. -/
theorem de_crossover_positionwise (dim : Nat) (mask : List Bool) (mutant base : List α)
    (h1 : dim ≤ mutant.length) (h2 : dim ≤ base.length) :
    ∃ r, deCross dim mask mutant base = some r ∧ r.length = mutant.length ∧
      ∀ i : Nat, r[i]? = mutant[i]? ∨ r[i]? = base[i]? :=
  deCross_positionwise dim mask mutant base h1 h2

/-- The legal masks of both DE crossovers are non-empty sets of positions. -/
example : deBinLegal false false 4 [false, true, false, true] = true := by decide
example : deExpLegal false false 4 [true, false, false, true] = true := by decide
example : deExpLegal true false 4 [false, false, true, false] = true := by decide
example : deMutation 1 (2 : Int) [[1, 1], [5, 0], [2, 7], [0, 0], [1, 1], [1, 1]] = .ok [[7, -13], [0, 0]] := by decide
example : maskLegal true false [false, false, false] 3 = true := by decide
example : nPointLegal 2 5 [4, 1] = true ∧ nPointLegal 0 2 [] = true ∧ nPointLegal 7 2 [1, 0] = true := by decide
example : rateGuard (Param.fin (1 : Int)) = true ∧ rateGuard (Param.nan : Param Int) = false ∧
    uniformBoundGuard (Param.posInf : Param Int) = .panic ∧ normalStrengthGuard (Param.fin (-3 : Int)) = true := by decide
/-- draws in `[0,1)`: the smallest draw no longer crosses at probability 0, and crosses at 0.3 -/
example : crossedBy (0 : Int) 0 = false ∧ crossedBy (0 : Int) 1 = true := by decide
example : (0 : Rat) ≤ 0 ∧ (0 : Rat) < 1 ∧ (0 : Rat) ≤ 999 / 1000 ∧ (999 / 1000 : Rat) < 1 := by norm_num
example : frame [[100, 101], [200, 201]]
    ((recombine (crossedBy (0 : Int) 0) (multiPointCrossover [100, 101] [200, 201] [1]) false).toList)
    = [[100, 101], [200, 201]] := by decide
example : ∀ t ∈ [(1 / 2 : Rat), 3 / 10, 0, 1], 0 ≤ t ∧ t ≤ 1 := by
  intro t ht; simp at ht; rcases ht with rfl | rfl | rfl | rfl <;> norm_num

/-! Non-vacuity of the hypotheses, on concrete inputs. -/
example : circularSwap [10, 11, 12, 13, 14] [1, 0, 4, 2] = some [11, 12, 14, 13, 10] := by decide
example : circularSwap2 [10, 11, 12, 13, 14] [1, 0, 4, 2] = some [11, 12, 14, 13, 10] := by decide
example : ([1, 0, 4, 2] : List Nat).Nodup ∧ 2 ≤ ([1, 0, 4, 2] : List Nat).length := by decide
example : translocValid 9 3 6 1 = true := by decide
example : translocateSlice [1, 2, 3, 4, 5, 6, 7, 8, 9] 3 6 1 = some [1, 4, 5, 6, 2, 3, 7, 8, 9] := by decide
example : translocateSlice [1, 2, 3, 4, 5, 6, 7, 8, 9] 6 9 6 = some [1, 2, 3, 4, 5, 6, 7, 8, 9] := by decide
example : multiPointCrossover [0, 0, 0, 0, 0] [1, 1, 1, 1, 1] [4, 2] = some ([0, 0, 1, 1, 0], [1, 1, 0, 0, 1]) := by decide
example : uniformCrossover [0, 0, 0] [1, 1, 1] [true, false, true] = some ([1, 0, 1], [0, 1, 0]) := by decide
example : cycleCrossover [8, 4, 7, 3, 6, 2, 5, 1, 9, 0] [0, 1, 2, 3, 4, 5, 6, 7, 8, 9] =
    some ([8, 1, 2, 3, 4, 5, 6, 7, 9, 0], [0, 4, 7, 3, 6, 2, 5, 1, 8, 9]) := by decide
example : ([8, 4, 7, 3, 6, 2, 5, 1, 9, 0] : List Nat).Nodup ∧
    ([8, 4, 7, 3, 6, 2, 5, 1, 9, 0] : List Nat).Perm [0, 1, 2, 3, 4, 5, 6, 7, 8, 9] := by decide

end MahfModel.Props.C13
