import MahfModel.Model.PopMachineWire
open MahfModel MahfModel.PopMachine.Wire

def c06 (input implOut : Sexp) : Option Verdict :=
  match input with
  | .list (.atom "evalsteps" :: _) => C06.comp input implOut
  | .list (.atom "budget" :: _) => C06.budget input implOut
  | .list (.atom "run" :: _) => C06.run input implOut
  | .list (.atom "fa" :: _) => C06.fa input implOut
  | _ => none

def main : IO Unit := driverMain (respond c06)
