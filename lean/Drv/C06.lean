import MahfModel.Model.PopMachineWire
import MahfModel.Model.TemplatesId
import MahfModel.Model.EvalTreeC06
open MahfModel MahfModel.PopMachine.Wire MahfModel.Tpl Sexp

/-- `(generic NAME V I ITERS SEED seq|par only-a|only-g)`: a generic loop function `heuristics::xx::xx::<P, I>`
instantiated with `I = identifier::A` (complete configuration built as the shipped `real_*` constructor builds
it, with `A`), run on a state that holds only `Evaluator<P, A>` (`only-a`) or only `Evaluator<P, Global>`
(`only-g`). The implementation's output carries the run-level record of the `run` cases, the number of
components/passes started, and the configuration's own serialised tree.

K: the tree is fully known to the translator; `requireOk` of the model (evaluated on the tree) predicts
whether the run is refused before anything executes; where every evaluator the tree names is registered the
run ends `ok`; a finished run agrees leaf by leaf and in total with the counter model of the `run` cases.
O: `only-a` — the requested evaluator is registered, so the run completes and the reported number of
evaluations equals the number of objective calls; `only-g` — the requested evaluator is missing, so the run
fails with an error before anything executes (no objective call, no component started). -/
def c06generic (input implOut : Sexp) : Option Verdict := do
  let args ← tagged? "generic" input
  let mode ← match args with
    | [_, _, _, _, _, _, .atom m] => some m
    | _ => none
  match implOut with
  | .list [.list [.atom "out", .atom res], tr, ev, nc, .list [.atom "nsteps", ns], .list [.atom "tree", tree]] =>
    let ns ← nat? ns
    let c ← match nc with | .list [.atom "ncalls", c] => nat? c | _ => none
    let e ← match ev with | .list [.atom "evals", e] => optNat? e | _ => none
    let traceEmpty := match tr with | .list [.atom "trace"] => true | _ => false
    let t := IComp.ofSexp 64 tree
    let reg : List EvId := if mode == "only-a" then [.A] else [.Global]
    let static := usesOnlyTop .A t
    let known := !hasOpaque t.erase
    let reqOk := requireOk reg t
    let allRegistered := (evaluatorIds t).all reg.contains
    -- the run-level verdict of the shipped templates, on the same record
    let rv ← C06.run input (.list [.list [.atom "out", .atom (if res == "ok" then "ok" else "err")], tr, ev, nc])
    let nothingRan := c == 0 && ns == 0 && e == none && traceEmpty
    let predicted := if !reqOk then "err-required" else if allRegistered then "ok" else "ok-or-err"
    let model := Sexp.list [.list [.atom "out", .atom predicted],
      .list [.atom "uses-only-A", ofBool static],
      .list (.atom "evaluators" :: (evaluatorIds t).map fun i => .atom i.ctorName),
      .list (.atom "required" :: (requiredIds t).map fun i => .atom i.ctorName), rv.model]
    let agree := known &&
      (if !reqOk then res == "err-required" && nothingRan
       else if allRegistered then res == "ok" && rv.agree
       else (res == "ok" && rv.agree) || res == "err")
    let cls :=
      if res == "ctor-err" || res == "panic" then res
      else if mode == "only-a" then
        (if res != "ok" then res else if rv.holds then "-" else rv.cls)
      else
        (if res == "ok" then "no-error" else if !nothingRan then "executed-before-error" else "-")
    pure { agree, holds := cls == "-", cls, model }
  | _ => none

/-- `(rerun NAME V I ITERS SEED seq|par K)`: a template run `K` times through `Configuration::run` on one state. The
implementation's output is the list of the run-level records of the `run` cases (objective calls counted per run); every
run is judged as a `run` case: K — every leaf agrees with the counter model, started from a freshly initialised counter
(`init` resets it at the beginning of every run); O — the reported number of evaluations of EACH run equals the objective
calls of that run. -/
def c06rerun (input implOut : Sexp) : Option Verdict := do
  let _ ← tagged? "rerun" input
  match implOut with
  | .list runs =>
    let vs ← runs.mapM (C06.run input)
    let cls := (vs.find? fun v => !v.holds).map (·.cls) |>.getD "-"
    pure { agree := vs.all (·.agree) && !vs.isEmpty, holds := vs.all (·.holds), cls, model := .list (vs.map (·.model)) }
  | _ => none

def c06 (input implOut : Sexp) : Option Verdict :=
  match input with
  | .list (.atom "evalsteps" :: _) => C06.comp input implOut
  | .list (.atom "budget" :: _) => C06.budget input implOut
  | .list (.atom "run" :: _) => C06.run input implOut
  | .list (.atom "fa" :: _) => C06.fa input implOut
  | .list (.atom "generic" :: _) => c06generic input implOut
  | .list (.atom "rerun" :: _) => c06rerun input implOut
  | .list (.atom "cfgruns" :: _) => EvalTree.Wire.cfgruns input implOut
  | .list (.atom "direct" :: _) => EvalTree.Wire.direct input implOut
  | _ => none

/-- `--gen-generic`: stdin lines `(tree NAME variant TREE)` ↦ Lean source of `Generated/TemplatesGenericA.lean`. -/
partial def genLoop (h : IO.FS.Stream) (acc : Array String) : IO (Array String) := do
  let line ← h.getLine
  if line.isEmpty then return acc
  match Sexp.parse line.trimAscii.toString with
  | some (.list [.atom "tree", .atom name, .atom v, tree]) =>
    let c := IComp.ofSexp 64 tree
    genLoop h (acc.push s!"def generic_{name}_v{v} : IComp := {IComp.toLean c}")
  | _ => genLoop h acc

def main (args : List String) : IO Unit := do
  if args.contains "--gen-generic" then
    let defs ← genLoop (← IO.getStdin) #[]
    IO.println "/- GENERATED on every run by `harness c06 --generic-trees | drv_c06 --gen-generic` from the component trees of"
    IO.println "   the generic loop functions `heuristics::xx::xx::<P, identifier::A>` (complete configurations, serialised"
    IO.println "   through the code's own `Serialize`), keeping the evaluator identifier every component names. Do not edit. -/"
    IO.println "import MahfModel.Model.TemplatesId"
    IO.println "namespace MahfModel.Generated.GenericA"
    IO.println "open MahfModel.Tpl"
    for d in defs do IO.println d
    IO.println "end MahfModel.Generated.GenericA"
  else
    driverMain (respond c06)
