import MahfModel.Model.DeterminismMeasure
open MahfModel MahfModel.Determinism MahfModel.DeterminismMeasure

/-- Digest cases: there is no model prediction to compare (`agree` is vacuously true); the property's
predicate is "all digests of the case are equal, and they are digests of completed runs". -/
def digestVerdict (kind : String) (digests : Sexp) : Option Verdict := do
  let (want, eq) ← digestsEqual digests
  let degenerate := match digests with
    | .list (.atom "digests" :: .list [_, d0] :: rest) => degenerateDigest d0 || rest.isEmpty
    | _ => true
  let holds := eq && !degenerate
  pure { agree := true, holds,
         cls := if holds then "-" else if degenerate then "degenerate"
                else if kind == "user-rng" || kind == "adv-rng" then "rng-replaced" else "digest-differs",
         model := want }

def c08 (input implOut : Sexp) : Option Verdict := do
  match input with
  | .list (.atom "children" :: _) =>
    -- K: child seeds are the parent's successive words (model shape); O: only what the property
    -- says — deriving twice gives the same children, parents end at the same position
    let (model, ok) ← predictChildren implOut
    let det := childrenDeterministic implOut
    pure { agree := ok, holds := det, cls := if det then (if ok then "-" else "child-seed") else "child-nondeterministic", model }
  | .list (.atom "stream" :: _) =>
    let (model, ok, det) ← predictStream input implOut
    pure { agree := ok, holds := det, cls := if !det then "stream-nondeterministic" else if ok then "-" else "seed-or-backend", model }
  | .list (.atom "seedmap" :: _) =>
    let (model, ok, noCollision) ← predictSeedmap input implOut
    pure { agree := ok, holds := noCollision, cls := if !noCollision then "seed-collision" else if ok then "-" else "seed-remapped", model }
  | .list (.atom "exp-user" :: _) =>
    match implOut with
    | .list [.atom "exp-user", gens, digests] =>
      let (genModel, gensOk) ← predictExpUser input gens
      let v ← digestVerdict "exp" digests
      pure { agree := gensOk, holds := gensOk && v.holds,
             cls := if !gensOk then "rng-replaced" else v.cls,
             model := .list [.atom "exp-user", genModel, v.model] }
    | _ => none
  | .list (.atom "measure" :: _) =>
    -- the diversity measures on prepared solutions: K = the model's left folds (relative 1e-9) vs. the plain
    -- call; O = the value is bit for bit the same from the main thread and inside every pool
    let (model, ok, same) ← predictMeasure input implOut
    pure { agree := ok, holds := same, cls := if !same then "thread-dependent" else if ok then "-" else "wrong-value", model }
  | .list (.atom "evaluate" :: _) =>
    -- direct evaluator calls on prepared populations: K = model (evalSeq / evalPar along the witness
    -- schedule, legal witness) vs. code; O = parallel result equals sequential result (code vs. code)
    let (model, ok, same, cls) ← predictEvaluate input implOut
    pure { agree := ok, holds := same, cls, model }
  | .list [.atom "pairs", _, n] =>
    let model := Sexp.list [.atom "pairs", n, .list [.atom "collisions", .atom "0"]]
    let ok := Sexp.beq model implOut
    pure { agree := true, holds := ok, cls := if ok then "-" else "collision", model }
  | .list (.atom "exp" :: _) =>
    match implOut with
    | .list [.atom "exp", seeds, digests] =>
      let (seedModel, seedsOk) ← predictExpSeeds seeds
      let v ← digestVerdict "exp" digests
      pure { agree := seedsOk, holds := seedsOk && v.holds,
             cls := if !seedsOk then "experiment-seed" else v.cls,
             model := .list [.atom "exp", seedModel, v.model] }
    | _ => none
  | .list (.atom kind :: _) => digestVerdict kind implOut
  | _ => none

def main : IO Unit := driverMain (respond c08)
