import MahfModel.Model.Determinism
open MahfModel MahfModel.Determinism

def c08 (input implOut : Sexp) : Option Verdict := do
  match input with
  | .list (.atom "children" :: _) =>
    let (model, ok) ← predictChildren implOut
    pure { agree := ok, holds := ok, cls := if ok then "-" else "child-seed", model }
  | .list [.atom "pairs", _, n] =>
    let model := Sexp.list [.atom "pairs", n, .list [.atom "collisions", .atom "0"]]
    let ok := Sexp.beq model implOut
    pure { agree := ok, holds := ok, cls := if ok then "-" else "collision", model }
  | .list (.atom kind :: _) =>
    let (model, ok) ← predictDigests implOut
    pure { agree := ok, holds := ok,
           cls := if ok then "-" else (if kind == "user-rng" then "rng-replaced" else "digest-differs"), model }
  | _ => none

def main : IO Unit := driverMain (respond c08)
