import MahfModel.Model.PopMachineWireC07
open MahfModel MahfModel.PopMachine.Wire

def c07 (input implOut : Sexp) : Option Verdict :=
  match input with
  | .list (.atom "bestarch" :: _) => C07X.comp input implOut
  | .list (.atom "scoped" :: _) => C07X.scopedCase input implOut
  | .list (.atom "run" :: _) => C07.run input implOut
  | _ => none

def main : IO Unit := driverMain (respond c07)
