import MahfModel.Model.BorrowMulti
open MahfModel

/-- Class of the first deviating outcome (for known-findings matching). -/
def c02Class (spec impl : Sexp) : String :=
  match spec, impl with
  | .list (_ :: ss), .list (_ :: is) =>
    let rec go : List Sexp → List Sexp → String
      | s :: ss, i :: is =>
        if Sexp.beq s i then go ss is
        else match i with
          | .atom "panic" => "panic"
          | .list (.atom "g" :: _) => "granted"
          | .list (.atom "e" :: _) => "err"
          | .atom "alias" => "alias"
          | _ => "wrong-value"
      | _, _ => "count"
    go ss is
  | _, _ => "wrong-value"

/-- K: the code-shaped model (RefCell flags, marker keys) equals the implementation;
O: the implementation equals the abstract machine (stack of maps + live guard set: many readers xor one
writer; `holding` puts the value back into the scope it came from; a multi-borrow through ANY public entry point —
trait method, registry front-ends, on any `parent_mut()`, on the `State` wrapper — is granted iff no type repeats and
every type is visible from the addressed registry). -/
def c02 (input implOut : Sexp) : Option Verdict := do
  let (model, spec) ← BorrowMulti.handleCase input
  let agree := Sexp.beq model implOut
  let holds := Sexp.beq spec implOut
  pure { agree, holds, cls := if holds then "-" else c02Class spec implOut, model }

def main : IO Unit := driverMain (respond c02)
