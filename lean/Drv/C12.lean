import MahfModel.Model.Replacement
open MahfModel

def c12 (input implOut : Sexp) : Option Verdict := do
  let r ← Replacement.handleCase input implOut
  pure { agree := r.agree, holds := r.cls.isNone, cls := r.cls.getD "-", model := r.model }

def main : IO Unit := driverMain (respond c12)
