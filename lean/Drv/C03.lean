import MahfModel.Model.Config
import MahfModel.Model.ConfigReal
open MahfModel

/-- Field `tag` of an output `((trace …) (res …) (depth …) (dump …))`. -/
def c03Field (tag : String) : Sexp → Option Sexp
  | .list xs => xs.find? fun x => (Sexp.tagged? tag x).isSome
  | _ => none

def c03Same (tag : String) (a b : Sexp) : Bool :=
  match c03Field tag a, c03Field tag b with
  | some x, some y => Sexp.beq x y
  | none, none => true
  | _, _ => false

/-- The dump without the `Iterations` entries (key 0). -/
def c03DumpNoCounter (out : Sexp) : Sexp :=
  match c03Field "dump" out with
  | some (.list (tag :: scopes)) =>
    .list (tag :: scopes.map fun sc =>
      match sc with
      | .list es => .list (es.filter fun e => match e with
          | .list [.atom "0", _] => false
          | _ => true)
      | x => x)
  | _ => .atom "-"

/-- `agree`: the code-shaped model's output equals the implementation's.
`holds`: the implementation's trace, result, scope depth and registry are those of the
corresponding structured program (`srun (prog c)`), and the depth is the caller's depth. -/
def c03 (input implOut : Sexp) : Option Verdict := do
  let (model, spec, c) ← Config.handleCase input
  let agree := Sexp.beq model implOut
  let depthKept := match c03Field "depth" implOut with
    | some (.list [_, .atom "-"]) => c.via == "opt"   -- `optimize_with` returned `Err`: no state to look at
    | some (.list [_, d]) => Sexp.nat? d == some c.pre.length
    | _ => Sexp.beq implOut Config.illFormed
  let cls :=
    if !c03Same "trace" spec implOut then "order"
    else if !c03Same "res" spec implOut then "err"
    else if !depthKept || !c03Same "depth" spec implOut then "leak"
    else if !c03Same "dump" spec implOut then
      (if Sexp.beq (c03DumpNoCounter spec) (c03DumpNoCounter implOut) then "count" else "lost-state")
    else if !c03Same "built" spec implOut then "build"
    else if !Sexp.beq spec implOut then "wrong-value"
    else "-"
  pure { agree, holds := cls == "-", cls, model }

/-- Cases over shipped conditions / `State::holding` leaves (`(rtree …)`, Model/ConfigReal.lean): `agree` against
the code-shaped `rrun`, `holds` against the structured program `rsrun (rprog c)` — same trace, same result
(no invented error: a `while` whose test is false at once is skipped and the program goes on), every scope
closed, and the caller's state, scope by scope and key by key, what the program leaves. -/
def c03Real (input implOut : Sexp) : Option Verdict := do
  let (model, spec, c) ← ConfigReal.handleRCase input
  let agree := Sexp.beq model implOut
  let depthKept := match c03Field "depth" implOut with
    | some (.list [_, d]) => Sexp.nat? d == some c.pre.length
    | _ => Sexp.beq implOut Config.illFormed
  let cls :=
    if !c03Same "trace" spec implOut then "order"
    else if !c03Same "res" spec implOut then "err"
    else if !depthKept || !c03Same "depth" spec implOut then "leak"
    else if !c03Same "dump" spec implOut then
      (if Sexp.beq (c03DumpNoCounter spec) (c03DumpNoCounter implOut) then "count" else "lost-state")
    else if !Sexp.beq spec implOut then "wrong-value"
    else "-"
  pure { agree, holds := cls == "-", cls, model }

def c03Any (input implOut : Sexp) : Option Verdict :=
  match input with
  | .list (.list (.atom "rtree" :: _) :: _) => c03Real input implOut
  | _ => c03 input implOut

def main : IO Unit := driverMain (respond c03Any)
