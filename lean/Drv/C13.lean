import MahfModel.Model.Variation
import MahfModel.Model.VariationState
open MahfModel MahfModel.Sexp MahfModel.Variation

namespace C13

def optNats : Option (List Nat) → Sexp
  | some l => ofNats l
  | none => .atom "panic"

def optNats? : Sexp → Option (Option (List Nat))
  | .atom "panic" => some none
  | s => (nats? s).map some

def pairNats : Option (List Nat × List Nat) → Sexp
  | some (a, b) => .list [ofNats a, ofNats b]
  | none => .atom "panic"

def pairNats? : Sexp → Option (Option (List Nat × List Nat))
  | .atom "panic" => some none
  | .list [a, b] => do
    let a ← nats? a
    let b ← nats? b
    pure (some (a, b))
  | _ => none

def bools? : Sexp → Option (List Bool)
  | .list xs => xs.mapM bool?
  | _ => none

def floats? : Sexp → Option (List Float)
  | .list xs => xs.mapM float?
  | _ => none

def ofFloats (l : List Float) : Sexp := .list (l.map ofFloat)

def pairFloats : Option (List Float × List Float) → Sexp
  | some (a, b) => .list [ofFloats a, ofFloats b]
  | none => .atom "panic"

def pairFloats? : Sexp → Option (Option (List Float × List Float))
  | .atom "panic" => some none
  | .list [a, b] => do
    let a ← floats? a
    let b ← floats? b
    pure (some (a, b))
  | _ => none

/-- Relative tolerance 1e-9 (absolute near zero); NaN equals NaN. -/
def feq (x y : Float) : Bool :=
  if x.isNaN || y.isNaN then x.isNaN && y.isNaN
  else if x == y then true
  else (x - y).abs ≤ 1e-9 * (max x.abs y.abs) || (x - y).abs ≤ 1e-300

def feqList : List Float → List Float → Bool
  | [], [] => true
  | x :: xs, y :: ys => feq x y && feqList xs ys
  | _, _ => false

def verdict (agree holds : Bool) (cls : String) (model : Sexp) : Verdict :=
  { agree, holds, cls := if holds then "-" else cls, model }

/-- class of a failed helper case: panic if the implementation panicked, else wrong-value. -/
def clsOf (implPanicked : Bool) : String := if implPanicked then "panic" else "wrong-value"

def helper (tag : String) (args : List Sexp) (impl : Sexp) : Option Verdict :=
  match tag, args with
  | "cswap", [l, idx] => do
    let l ← nats? l
    let idx ← nats? idx
    let (i1, i2) ← match impl with
      | .list [a, b] => do pure ((← optNats? a), (← optNats? b))
      | _ => none
    let m1 := circularSwap l idx
    let m2 := circularSwap2 l idx
    let model := Sexp.list [optNats m1, optNats m2]
    pure (verdict (model.beq impl) (cswapHolds l idx i1 i2)
      (if i1.isNone || i2.isNone then "panic" else if i1 != i2 then "twins-differ" else "wrong-value") model)
  | "transl", [l, s, e, i] => do
    let l ← nats? l
    let s ← nat? s
    let e ← nat? e
    let i ← nat? i
    let (i1, i2) ← match impl with
      | .list [a, b] => do pure ((← optNats? a), (← optNats? b))
      | _ => none
    let model := Sexp.list [optNats (translocateSlice l s e i), optNats (translocateSlice2 l s e i)]
    pure (verdict (model.beq impl) (translocHolds l s e i i1 i2)
      (if i1.isNone || i2.isNone then "panic" else if i1 != i2 then "twins-differ" else "wrong-value") model)
  | "mpx", [p1, p2, idx] => do
    let p1 ← nats? p1
    let p2 ← nats? p2
    let idx ← nats? idx
    let r ← pairNats? impl
    let model := pairNats (multiPointCrossover p1 p2 idx)
    pure (verdict (model.beq impl) (mpxHolds p1 p2 idx r) (clsOf r.isNone) model)
  | "ux", [p1, p2, mask] => do
    let p1 ← nats? p1
    let p2 ← nats? p2
    let mask ← bools? mask
    let r ← pairNats? impl
    let model := pairNats (uniformCrossover p1 p2 mask)
    pure (verdict (model.beq impl) (uxHolds p1 p2 mask r) (clsOf r.isNone) model)
  | "cx", [p1, p2] => do
    let p1 ← nats? p1
    let p2 ← nats? p2
    let r ← pairNats? impl
    let model := pairNats (cycleCrossover p1 p2)
    pure (verdict (model.beq impl) (cxHolds p1 p2 r) (clsOf r.isNone) model)
  | "ax", [p1, p2, al] => do
    let p1 ← floats? p1
    let p2 ← floats? p2
    let al ← floats? al
    let r ← pairFloats? impl
    let m := arithmeticCrossover p1 p2 al
    let agree := match m, r with
      | some (a, b), some (c, d) => feqList a c && feqList b d
      | none, none => true
      | _, _ => false
    let valid := p1.length == p2.length && al.length == p1.length && al.all (fun a => 0.0 ≤ a && a ≤ 1.0)
    let holds := if valid then
        match r with
        | some (c1, c2) =>
          c1.length == p1.length && c2.length == p1.length &&
          (List.range p1.length).all fun i =>
            let a := p1[i]!; let b := p2[i]!; let x := c1[i]!; let y := c2[i]!
            let lo := min a b; let hi := max a b
            let slack := 1e-9 * (max a.abs b.abs) + 1e-300
            lo - slack ≤ x && x ≤ hi + slack && lo - slack ≤ y && y ≤ hi + slack &&
            (x + y - (a + b)).abs ≤ 4 * slack
        | none => false
      else true
    pure (verdict agree holds (clsOf r.isNone) (pairFloats m))
  | _, _ => none

/-! ## Component cases (part 2): witness recovery + legality + property clauses -/

inductive Impl (σ : Type) where
  | ok (height : Nat) (ev : List Bool) (pop : List σ)
  | err (kind : String)
  | panic

def parseImpl {σ : Type} (sol? : Sexp → Option σ) : Sexp → Option (Impl σ)
  | .atom "panic" => some .panic
  | .list [.atom "e", .atom k] => some (.err k)
  | .list [.atom "ok", h, ev, pop] => do
    let h ← nat? h
    let ev ← (← tagged? "ev" ev).mapM bool?
    let pop ← (← tagged? "pop" pop).mapM sol?
    pure (.ok h ev pop)
  | _ => none

def popOf {σ : Type} (sol? : Sexp → Option σ) (s : Sexp) : Option (List σ) := do
  (← tagged? "pop" s).mapM sol?

def unit01 (x : Float) : Bool := 0.0 ≤ x && x ≤ 1.0
def bitsEq (a b : List Float) : Bool := a.map Float.toBits == b.map Float.toBits
def sameShape {σ : Type} (a b : List (List σ)) : Bool := a.map List.length == b.map List.length
def isZeroRng (seed : Sexp) : Bool := match seed with | .atom "zero" => true | _ => false

/-- A parameter value as the model's guards see it. -/
def toParam (x : Float) : Param Float :=
  if x.isNaN then .nan else if x.isInf then (if x > 0 then .posInf else .negInf) else .fin x

def outcomeTag {β : Type} : Outcome β → String
  | .ok _ => "ok" | .err => "err" | .panic => "panic"

/-- Generic verdict for a component whose `execute` first runs its guards: `valid` = parameters inside
the documented domain; `modelOut` = what the model's guards (Model/Variation.lean) answer: "ok" / "err" /
"panic"; `okCase` computes (agree, failing-class or "-") from a successful output. -/
def guarded {σ : Type} (valid : Bool) (modelOut : String) (impl : Impl σ)
    (okCase : Nat → List Bool → List σ → Bool × String) : Verdict :=
  match impl with
  | .err _ => verdict (modelOut == "err") (!valid) "err" (.atom modelOut)
  | .panic => verdict (modelOut == "panic") (!valid) "panic" (.atom modelOut)
  | .ok h ev pop =>
    let (agree, cls) := okCase h ev pop
    verdict (agree && modelOut == "ok") (cls == "-" || !valid) cls (.atom modelOut)

/-- An output individual may still carry its objective value only if its solution is identical to the
input individual at the same index (nothing was changed: the value is not stale). Touched or newly
created individuals must be unevaluated. Tie-agnostic: un-evaluating everything is equally accepted. -/
def evAligned {σ : Type} (eq : σ → σ → Bool) (inp out : List σ) (ev : List Bool) : Bool :=
  ev.length == out.length &&
  (List.range out.length).all fun i =>
    !(ev.getD i false) || (match inp[i]?, out[i]? with | some x, some y => eq x y | _, _ => false)

/-- Recombination: an evaluated output individual must be one of the input solutions (a parent handed through). -/
def evMember {σ : Type} (eq : σ → σ → Bool) (inp out : List σ) (ev : List Bool) : Bool :=
  ev.length == out.length &&
  (List.range out.length).all fun i =>
    !(ev.getD i false) || (match out[i]? with | some y => inp.any (eq · y) | none => false)

-- ---------------------------------------------------------------- rate-gated mutations
def realMutation (kind : String) (p1 p2 rm : Float) (inp : List (List Float)) (impl : Impl (List Float)) : Verdict :=
  -- documented domain: finite strength ≥ 0, rate in [0,1]; the guards themselves are the model's
  let valid := (kind == "spread" || (p1 ≥ 0.0 && p1.isFinite)) && unit01 rm
  let modelOut := match kind with
    | "normal" => outcomeTag (normalExec (toParam p1) (toParam rm) ())
    | "uniform" => outcomeTag (uniformExec (toParam p1) (toParam rm) ())
    | _ => outcomeTag (rateExec (toParam rm) ())
  guarded valid modelOut impl fun h ev out =>
    let shape := sameShape inp out
    let rmZero := rm == 0.0
    let rmOne := rm == 1.0
    -- at rate 1 the gate fires on EVERY coordinate; a coordinate that came out bit-identical is explained as
    -- "fired, drew a zero change" only where that is possible at all (σ = 0, bound = 0, empty domain) — for a
    -- proper distribution the chance of an exactly-zero change is below 1e-14 per coordinate
    let zeroChangePossible := match kind with
      | "normal" => p1 == 0.0
      | "uniform" => p1 == 0.0
      | _ => !(p1 < p2)
    let perSol := (inp.zip out).all fun (x, y) =>
      let mask := (x.zip y).map fun (a, b) => (rmOne && zeroChangePossible) || a.toBits != b.toBits
      let modelOut : List Float := match kind with
        | "spread" => resample mask y x
        | _ => gated mask y x        -- `x + delta` with delta := the observed difference
      bitsEq modelOut y && maskLegal rmZero rmOne mask x.length &&
      (x.zip (y.zip mask)).all fun (a, b, m) =>
        !m || (match kind with
          | "uniform" => (b - a).abs ≤ p1 * (1 + 1e-12) + 1e-300
          | "normal" => p1 != 0.0 || b.toBits == a.toBits || b == a
          | "spread" => p1 ≤ b && b < p2
          | _ => true)
    let cls := if !shape then "dimension"
      else if rmZero && !((inp.zip out).all fun (x, y) => bitsEq x y) then "rate-zero-changed"
      else if !evAligned bitsEq inp out ev then "evaluated" else "-"
    (shape && perSol && h == 1 && evAligned bitsEq inp out ev, cls)

def bitMutation (kind : String) (p rm : Float) (inp : List (List Bool)) (impl : Impl (List Bool)) : Verdict :=
  let valid := unit01 rm && (kind == "bitflip" || unit01 p)
  guarded valid (outcomeTag (rateExec (toParam rm) ())) impl fun h ev out =>
    let shape := sameShape inp out
    let rmZero := rm == 0.0
    let rmOne := rm == 1.0
    let perSol := (inp.zip out).all fun (x, y) =>
      let mask := (x.zip y).map fun (a, b) => (rmOne && kind != "bitflip") || a != b
      let modelOut := if kind == "bitflip" then bitFlip mask x else resample mask y x
      modelOut == y && maskLegal rmZero rmOne mask x.length &&
      (kind == "bitflip" || ((y.zip mask).all fun (b, m) => !m || ((p != 0.0 || !b) && (p != 1.0 || b))))
    let cls := if !shape then "dimension"
      else if rmZero && inp != out then "rate-zero-changed"
      else if !evAligned (· == ·) inp out ev then "evaluated" else "-"
    (shape && perSol && h == 1 && evAligned (· == ·) inp out ev, cls)

-- ---------------------------------------------------------------- permutation mutations
/-- Source positions: `σ[k]` = where the element now at `k` was (unique tags). -/
def sourcePositions (inp out : List Nat) : List Nat := out.map fun t => inp.idxOf t

/-- The moved positions as one cycle `i_0 → i_1 → …` (element at `i_k` went to `i_{k+1}`). -/
def recoverCycle (inp out : List Nat) (k : Nat) : List Nat :=
  match (List.range inp.length).find? (fun p => inp[p]! != out[p]!) with
  | none => []
  | some p0 =>
    (List.range k).foldl (fun acc _ =>
      match acc.getLast? with
      | some p => acc ++ [out.idxOf inp[p]!]
      | none => acc) [p0] |>.take k

def permClass (inp out : List (List Nat)) (ev : List Bool) : String :=
  if !sameShape inp out then "dimension"
  else if !((inp.zip out).all fun (x, y) => y.isPerm x) then "not-permutation"
  else if !evAligned (· == ·) inp out ev then "evaluated" else "-"

def permMutation (kind : String) (k : Nat) (rm : Float) (inp : List (List Nat)) (impl : Impl (List Nat)) : Verdict :=
  let dim := (inp.head?.map List.length).getD 0
  match kind with
  | "swap" =>
    let ctorOk := swapCtorGuard k
    match impl with
    | .err "ctor" => verdict (!ctorOk) (!ctorOk) "err" (.atom "ctor-err")
    | _ =>
      let execErr := ctorOk && !inp.isEmpty && decide (dim < k)
      let valid := ctorOk && !execErr
      guarded valid (if execErr || !ctorOk then "err" else "ok") impl fun h ev out =>
        let perSol := (inp.zip out).all fun (x, y) =>
          let w := recoverCycle x y k
          swapLegal k x.length w && (match swapMutation k x w with | .ok r => r == y | _ => false)
        (sameShape inp out && perSol && h == 1 && evAligned (· == ·) inp out ev, permClass inp out ev)
  | "scramble" =>
    let valid := unit01 rm
    guarded valid (outcomeTag (rateExec (toParam rm) ())) impl fun h ev out =>
      let perSol := (inp.zip out).all fun (x, y) =>
        let σ := sourcePositions x y
        scrambleLegal (rm == 0.0) x.length σ && scrambleMutation x σ == some y
      let cls := permClass inp out ev
      let cls := if cls == "-" && rm == 0.0 && inp != out then "rate-zero-changed" else cls
      (sameShape inp out && perSol && h == 1 && evAligned (· == ·) inp out ev, cls)
  | "inversion" =>
    guarded true "ok" impl fun h ev out =>
      let perSol := (inp.zip out).all fun (x, y) =>
        let n := x.length
        let cands : List (Option (Nat × Nat)) :=
          none :: ((List.range n).flatMap fun s => (List.range n).map fun e => some (s, e))
        cands.any fun w => inversionLegal n w && inversionMutation x w == some y
      (sameShape inp out && perSol && h == 1 && evAligned (· == ·) inp out ev, permClass inp out ev)
  | "insertion" =>
    -- an empty solution: `gen_range(0..0)` panics (no witness exists; outside any documented domain)
    let emptySol := inp.any fun x => x.isEmpty && (insertionMutation x (0, 0)).isNone
    guarded (!emptySol) (if emptySol then "panic" else "ok") impl fun h ev out =>
      let perSol := (inp.zip out).all fun (x, y) =>
        let n := x.length
        ((List.range n).flatMap fun el => (List.range n).map fun i => (el, i)).any fun w =>
          insertionLegal n w && insertionMutation x w == some y
      (sameShape inp out && perSol && h == 1 && evAligned (· == ·) inp out ev, permClass inp out ev)
  | _ =>
    guarded true "ok" impl fun h ev out =>
      let perSol := (inp.zip out).all fun (x, y) =>
        let n := x.length
        let cands : List (Option (Nat × Nat × Nat)) :=
          none :: ((List.range n).flatMap fun s => (List.range n).flatMap fun e =>
            (List.range (n + 1)).map fun i => some (s, e, i))
        cands.any fun w => translocationLegal n w && translocationMutation x w == some y
      (sameShape inp out && perSol && h == 1 && evAligned (· == ·) inp out ev, permClass inp out ev)

-- ---------------------------------------------------------------- recombination frame
/-- Explains the output population pair by pair. `accept p1 p2 c1 c2?` decides whether the
child(ren) are acceptable offspring of the pair; returns the crossed-flags. -/
def parseFrame {σ : Type} [BEq σ] (accept : σ → σ → σ → Option σ → Bool) (both mustCross mustNot : Bool) :
    List σ → List σ → Option (List Bool)
  | p1 :: p2 :: rest, out =>
    let uncrossed : Option (List Bool) :=
      if mustCross then none else
      match out with
      | o1 :: o2 :: out' =>
        if o1 == p1 && o2 == p2 then (parseFrame accept both mustCross mustNot rest out').map (false :: ·) else none
      | _ => none
    match uncrossed with
    | some r => some r
    | none =>
      if mustNot then none
      else if both then
        match out with
        | c1 :: c2 :: out' =>
          if accept p1 p2 c1 (some c2) then (parseFrame accept both mustCross mustNot rest out').map (true :: ·) else none
        | _ => none
      else
        match out with
        | c1 :: out' =>
          if accept p1 p2 c1 none then (parseFrame accept both mustCross mustNot rest out').map (true :: ·) else none
        | _ => none
  | [p], [o] => if o == p then some [] else none
  | [], [] => some []
  | _, _ => none

def natsChildOk (c : List Nat) (c2 : Option (List Nat)) (m : Option (List Nat × List Nat)) : Bool :=
  match m with
  | some (d1, d2) => d1 == c && (match c2 with | some x => x == d2 | none => true)
  | none => false

/-- Property-level acceptance for gene-moving crossovers: parents' length, every position one of
the two parental genes, both conserved when both children are inserted. -/
def genesOk (p1 p2 c1 : List Nat) (c2 : Option (List Nat)) : Bool :=
  match c2 with
  | some c2 => genesConserved p1 p2 c1 c2
  | none => c1.length == p1.length && p1.length == p2.length &&
      (List.range p1.length).all fun i => c1[i]! == p1[i]! || c1[i]! == p2[i]!

def recNat (kind : String) (n : Nat) (pc : Float) (both zero : Bool) (inp : List (List Nat))
    (impl : Impl (List Nat)) : Verdict :=
  let dim := (inp.head?.map List.length).getD 0
  let pairs := inp.length / 2
  -- `NPointCrossover::new` accepts every n: a panic on a valid population is a violation whatever n is
  let valid := true
  -- the all-zero generator draws u = 0.0 for every pair: the model's gate decides
  let mustCross := pc ≥ 1.0 || (zero && crossedBy 0.0 pc)
  let mustNot := pc ≤ 0.0 || (zero && !crossedBy 0.0 pc)
  let modelAccept : List Nat → List Nat → List Nat → Option (List Nat) → Bool := fun p1 p2 c1 c2 =>
    match kind with
    | "npoint" =>
      let mask := (c1.zip p2).map fun (a, b) => a == b
      let cuts := (List.range mask.length).filter fun i =>
        mask[i]! != (if i == 0 then false else mask[i - 1]!)
      cuts.length == min n (min p1.length p2.length) && natsChildOk c1 c2 (multiPointCrossover p1 p2 cuts)
    | "uniform" =>
      let mask := (c1.zip p2).map fun (a, b) => a == b
      natsChildOk c1 c2 (uniformCrossover p1 p2 mask)
    | _ => natsChildOk c1 c2 (cycleCrossover p1 p2)
  match impl with
  | .err _ => verdict false false "err" (.atom "ok")
  | .panic =>
    -- only a crossover helper contract can panic: NPoint with n = 0 or n ≥ dim, when a pair is crossed
    let canPanic := kind == "npoint" && !(decide (1 ≤ n) && decide (n < dim)) && pairs > 0 && !mustNot
    verdict canPanic (!valid) "panic" (.atom (if canPanic then "panic" else "ok"))
  | .ok h ev out =>
    let m := parseFrame modelAccept both mustCross mustNot inp out
    let propAccept : List Nat → List Nat → List Nat → Option (List Nat) → Bool := fun p1 p2 c1 c2 =>
      genesOk p1 p2 c1 c2 &&
      (kind != "cycle" || (c1.isPerm p1 && (match c2 with | some c => c.isPerm p1 | none => true)))
    -- the property: probability 0 never crosses, probability 1 always does
    let q := parseFrame propAccept both (pc ≥ 1.0) (pc ≤ 0.0) inp out
    let cls :=
      if q.isSome then (if evMember (· == ·) inp out ev then "-" else "evaluated")
      else if pc ≤ 0.0 && (parseFrame propAccept both false false inp out).isSome then "crossed-at-pc0"
      else if (parseFrame (fun _ _ _ _ => true) both false false inp out).isSome then "wrong-value"
      else "count"
    verdict (m.isSome && h == 1 && evMember (· == ·) inp out ev) (cls == "-" || !valid) cls
      (match m with | some fl => .list (fl.map ofBool) | none => .atom "unexplained")

def aeq (x y : Float) : Bool := (x - y).abs ≤ 1e-9 * (1 + max x.abs y.abs)

def recArith (pc : Float) (both zero : Bool) (inp : List (List Float)) (impl : Impl (List Float)) : Verdict :=
  -- the all-zero generator draws u = 0.0 for every pair: the model's gate decides
  let mustCross := pc ≥ 1.0 || (zero && crossedBy 0.0 pc)
  let mustNot := pc ≤ 0.0 || (zero && !crossedBy 0.0 pc)
  let beq : BEq (List Float) := ⟨bitsEq⟩
  let modelAccept : List Float → List Float → List Float → Option (List Float) → Bool := fun p1 p2 c1 c2 =>
    let alphas := (c1.zip (p1.zip p2)).map fun (c, a, b) => if a == b then 0.5 else (c - b) / (a - b)
    alphas.all (fun t => -1e-9 ≤ t && t ≤ 1 + 1e-9) &&
    (match arithmeticCrossover p1 p2 alphas with
     | some (d1, d2) =>
       d1.length == c1.length && (d1.zip c1).all (fun (x, y) => aeq x y) &&
       (match c2 with
        | some c2 => d2.length == c2.length && (d2.zip c2).all (fun (x, y) => aeq x y)
        | none => true)
     | none => false)
  let propAccept : List Float → List Float → List Float → Option (List Float) → Bool := fun p1 p2 c1 c2 =>
    let inHull := fun (c : List Float) =>
      c.length == p1.length && p1.length == p2.length &&
      (c.zip (p1.zip p2)).all fun (x, a, b) => min a b - 1e-9 ≤ x && x ≤ max a b + 1e-9
    inHull c1 && (match c2 with
      | some c2 => inHull c2 && (c1.zip (c2.zip (p1.zip p2))).all fun (x, y, a, b) => aeq (x + y) (a + b)
      | none => true)
  match impl with
  | .err _ => verdict false false "err" (.atom "ok")
  | .panic => verdict false false "panic" (.atom "ok")
  | .ok h ev out =>
    let m := @parseFrame _ beq modelAccept both mustCross mustNot inp out
    let q := @parseFrame _ beq propAccept both (pc ≥ 1.0) (pc ≤ 0.0) inp out
    let cls :=
      if q.isSome then (if evMember bitsEq inp out ev then "-" else "evaluated")
      else if pc ≤ 0.0 && (@parseFrame _ beq propAccept both false false inp out).isSome then "crossed-at-pc0"
      else if (@parseFrame _ beq (fun _ _ _ _ => true) both false false inp out).isSome then "wrong-value"
      else "count"
    verdict (m.isSome && h == 1 && evMember bitsEq inp out ev) (cls == "-") cls
      (match m with | some fl => .list (fl.map ofBool) | none => .atom "unexplained")

-- ---------------------------------------------------------------- differential evolution
def popAeq (a b : List (List Float)) : Bool :=
  a.length == b.length && (a.zip b).all fun (x, y) => x.length == y.length && (x.zip y).all fun (u, v) => aeq u v

def deMut (y : Nat) (f : Float) (inp : List (List Float)) (impl : Impl (List Float)) : Verdict :=
  let ctorOk := deCtorGuard y (toParam f)
  let documented := (y == 1 || y == 2) && 0.0 < f && f ≤ 2.0
  match impl with
  | .err "ctor" => verdict (!ctorOk) (!documented) "err" (.atom "ctor-err")
  | .panic => verdict false (!documented) "panic" (.atom "-")
  | .err _ =>
    let formatOk := inp.length % (y * 2 + 1) == 0
    let m := deMutation y f inp
    verdict (ctorOk && (match m with | .err => true | _ => false)) (!documented || !formatOk) "err" (.atom "err")
  | .ok h ev out =>
    let formatOk := inp.length % (y * 2 + 1) == 0
    let m := deMutation y f inp
    -- a base that came out bit-identical (f = 0 or equal difference vectors) may keep its value
    let bases := (List.range out.length).map fun i => inp.getD (i * (y * 2 + 1)) []
    let evOk := evAligned bitsEq bases out ev
    let agree := ctorOk && h == 1 && evOk && (match m with | .ok r => popAeq r out | _ => false)
    let dim := (inp.head?.map List.length).getD 0
    let cls := if !formatOk then "accepted-bad-format"
      else if out.length != inp.length / (y * 2 + 1) then "count"
      else if out.any (·.length != dim) then "dimension"
      else if !evOk then "evaluated" else "-"
    verdict agree (cls == "-" || !documented) cls (match m with | .ok r => .list (r.map ofFloats) | _ => .atom "err")

def deCx (kind : String) (pc : Float) (dim : Nat) (pops : List (List (List Float))) (impl : Impl (List Float)) : Verdict :=
  match pops with
  | [base, mutants] =>
    -- a zero-dimensional problem: `gen_range(0..0)` panics as soon as there is a pair (outside any documented domain)
    let z : List Float := List.replicate dim 0.0
    let dimZeroPanic := (deCrossExec dim (List.replicate dim false) z z).isNone && min mutants.length base.length > 0
    match impl with
    | .err _ => verdict false false "err" (.atom "ok")
    | .panic => verdict dimZeroPanic dimZeroPanic "panic" (.atom (if dimZeroPanic then "panic" else "ok"))
    | .ok h ev out =>
      let pcZero := pc ≤ 0.0
      let pcOne := pc ≥ 1.0
      let shape := sameShape mutants out
      let k := min mutants.length base.length
      let paired := ((mutants.zip base).zip out).all fun ((m, b), o) =>
        let mask := (o.zip b).map fun (x, y) => x.toBits == y.toBits
        let legal := if kind == "bin" then deBinLegal pcZero pcOne dim mask else deExpLegal pcZero pcOne dim mask
        legal && (match deCrossExec dim mask m b with | some r => bitsEq r o | none => false)
      let extras := ((mutants.drop k).zip (out.drop k)).all fun (m, o) => bitsEq m o
      let positionwise := ((mutants.zip base).zip out).all fun ((m, b), o) =>
        (o.zip (m.zip b)).all fun (x, u, v) => x.toBits == u.toBits || x.toBits == v.toBits
      let evOk := evAligned bitsEq mutants out ev
      let cls := if !shape then "dimension" else if h != 2 then "stack"
        else if !(positionwise && extras) then "wrong-value"
        else if !evOk then "evaluated" else "-"
      verdict (shape && paired && extras && h == 2 && evOk && !dimZeroPanic) (cls == "-") cls (.atom "ok")
  | _ =>
    -- fewer than two populations: binomial returns Err, exponential panics (`pop()` / `current()`)
    let expected : String := if kind == "bin" then "err" else "panic"
    let got : String := match impl with | .err _ => "err" | .panic => "panic" | .ok _ _ _ => "ok"
    verdict (expected == got) true "-" (.atom expected)

/-- Two verdicts in sequence (instance A, then the Global instance on A's output). -/
def andThen (v1 : Verdict) (v2 : Option Verdict) : Verdict :=
  match v2 with
  | none => v1
  | some v2 =>
    { agree := v1.agree && v2.agree, holds := v1.holds && v2.holds,
      cls := if !v1.holds then v1.cls else v2.cls, model := .list [v1.model, v2.model] }

/-- `(idm KIND MODE (a P1 P2 RM) (g P1 P2 RM) SEED pop)` → `(phases R1 [R2])`: an instance with
identifier `A` executed alone, or `A` and the `Global` instance (different rate/strength) initialised
side by side and executed one after the other: each must follow ITS OWN parameters. -/
def idm (kind mode : String) (pa pg : List Sexp) (pop impl : Sexp) : Option Verdict := do
  let (a1, a2, arm) ← match pa with
    | [_, x, y, z] => do pure ((← float? x), (← float? y), (← float? z))
    | _ => none
  let (g1, g2, grm) ← match pg with
    | [_, x, y, z] => do pure ((← float? x), (← float? y), (← float? z))
    | _ => none
  let phases ← tagged? "phases" impl
  let r1 ← phases[0]?
  let r2 := if mode == "both" then phases[1]? else none
  match kind with
  | "normal" | "uniform" | "spread" => do
    let inp ← popOf floats? pop
    let i1 ← parseImpl floats? r1
    let v1 := realMutation kind a1 a2 arm inp i1
    let v2 ← match i1, r2 with
      | .ok _ _ out1, some r2 => do pure (some (realMutation kind g1 g2 grm out1 (← parseImpl floats? r2)))
      | _, _ => pure none
    pure (andThen v1 v2)
  | "bitflip" | "bits" => do
    let inp ← popOf bools? pop
    let i1 ← parseImpl bools? r1
    let v1 := bitMutation kind a1 arm inp i1
    let v2 ← match i1, r2 with
      | .ok _ _ out1, some r2 => do pure (some (bitMutation kind g1 grm out1 (← parseImpl bools? r2)))
      | _, _ => pure none
    pure (andThen v1 v2)
  | _ => do
    let inp ← popOf nats? pop
    let i1 ← parseImpl nats? r1
    let v1 := permMutation "scramble" 0 arm inp i1
    let v2 ← match i1, r2 with
      | .ok _ _ out1, some r2 => do pure (some (permMutation "scramble" 0 grm out1 (← parseImpl nats? r2)))
      | _, _ => pure none
    pure (andThen v1 v2)

def component (tag : String) (args : List Sexp) (impl : Sexp) : Option Verdict :=
  match tag, args with
  | "mut-normal", [p1, rm, _, pop] => do
    pure (realMutation "normal" (← float? p1) 0 (← float? rm) (← popOf floats? pop) (← parseImpl floats? impl))
  | "mut-uniform", [p1, rm, _, pop] => do
    pure (realMutation "uniform" (← float? p1) 0 (← float? rm) (← popOf floats? pop) (← parseImpl floats? impl))
  | "mut-spread", [lo, hi, rm, _, pop] => do
    pure (realMutation "spread" (← float? lo) (← float? hi) (← float? rm) (← popOf floats? pop) (← parseImpl floats? impl))
  | "mut-bitflip", [p, rm, _, pop] => do
    pure (bitMutation "bitflip" (← float? p) (← float? rm) (← popOf bools? pop) (← parseImpl bools? impl))
  | "mut-bits", [p, rm, _, pop] => do
    pure (bitMutation "bits" (← float? p) (← float? rm) (← popOf bools? pop) (← parseImpl bools? impl))
  | "pmut-swap", [k, _, pop] => do
    pure (permMutation "swap" (← nat? k) 0 (← popOf nats? pop) (← parseImpl nats? impl))
  | "pmut-scramble", [rm, _, pop] => do
    pure (permMutation "scramble" 0 (← float? rm) (← popOf nats? pop) (← parseImpl nats? impl))
  | "pmut-inversion", [_, _, pop] => do
    pure (permMutation "inversion" 0 0 (← popOf nats? pop) (← parseImpl nats? impl))
  | "pmut-insertion", [_, _, pop] => do
    pure (permMutation "insertion" 0 0 (← popOf nats? pop) (← parseImpl nats? impl))
  | "pmut-transloc", [_, _, pop] => do
    pure (permMutation "transloc" 0 0 (← popOf nats? pop) (← parseImpl nats? impl))
  | "rec-npoint", [n, pc, both, seed, pop] => do
    pure (recNat "npoint" (← nat? n) (← float? pc) (← bool? both) (isZeroRng seed) (← popOf nats? pop) (← parseImpl nats? impl))
  | "rec-uniform", [_, pc, both, seed, pop] => do
    pure (recNat "uniform" 0 (← float? pc) (← bool? both) (isZeroRng seed) (← popOf nats? pop) (← parseImpl nats? impl))
  | "rec-cycle", [_, pc, both, seed, pop] => do
    pure (recNat "cycle" 0 (← float? pc) (← bool? both) (isZeroRng seed) (← popOf nats? pop) (← parseImpl nats? impl))
  | "rec-arith", [_, pc, both, seed, pop] => do
    pure (recArith (← float? pc) (← bool? both) (isZeroRng seed) (← popOf floats? pop) (← parseImpl floats? impl))
  | "idm", [.atom kind, .atom mode, .list pa, .list pg, _, pop] => idm kind mode pa pg pop impl
  | "demut", [y, f, pop] => do
    pure (deMut (← nat? y) (← float? f) (← popOf floats? pop) (← parseImpl floats? impl))
  | "decx", .atom kind :: pc :: _ :: dim :: pops => do
    pure (deCx kind (← float? pc) (← nat? dim) (← pops.mapM (popOf floats?)) (← parseImpl floats? impl))
  | _, _ => none

/-- The model's value of a parameter back on the wire. -/
def ofParam : Param Float → Float
  | .fin x => x
  | .posInf => 1.0 / 0.0
  | .negInf => -1.0 / 0.0
  | .nan => 0.0 / 0.0

def mutCtor? : String → Option MutCtor
  | "new" | "new_with_id" | "from_params" => some .new
  | "new_dev" => some .newDev
  | "new_bound" => some .newBound
  | "new_full" => some .newFull
  | "new_uniform" => some .newUniform
  | "new_uniform_full" => some .newUniformFull
  | _ => none

def recCtor? : String → Option RecCtor
  | "new" | "from_params" => some .new
  | "new_insert_single" => some .newInsertSingle
  | "new_insert_both" => some .newInsertBoth
  | _ => none

/-- Which constructors each component has. -/
def ctorExists (inner : String) (c : MutCtor) : Bool :=
  match inner, c with
  | _, .new => true
  | "mut-normal", .newDev => true
  | "mut-uniform", .newBound => true
  | "mut-spread", .newFull | "pmut-scramble", .newFull | "mut-bits", .newFull => true
  | "mut-bits", .newUniform | "mut-bits", .newUniformFull => true
  | _, _ => false

/-- `(via CTOR inner)`: the parameters the constructor STORES according to the model's table replace
the inner case's arguments; the inner case is then judged as usual. -/
def viaArgs (ctor inner : String) (ia : List Sexp) : Option (List Sexp) :=
  match inner, ia with
  | "mut-normal", [p, rm, seed, pop] | "mut-uniform", [p, rm, seed, pop]
  | "mut-bitflip", [p, rm, seed, pop] | "mut-bits", [p, rm, seed, pop] => do
    let c ← mutCtor? ctor
    if !ctorExists inner c then none
    let (p', rm') := mutCtorParams (0.5 : Float) c (← float? p) (← float? rm)
    pure [ofFloat p', ofFloat rm', seed, pop]
  | "mut-spread", [lo, hi, rm, seed, pop] => do
    let c ← mutCtor? ctor
    if !ctorExists inner c then none
    let (_, rm') := mutCtorParams (0.5 : Float) c 0.0 (← float? rm)
    pure [lo, hi, ofFloat rm', seed, pop]
  | "pmut-scramble", [rm, seed, pop] => do
    let c ← mutCtor? ctor
    if !ctorExists inner c then none
    let (_, rm') := mutCtorParams (0.5 : Float) c 0.0 (← float? rm)
    pure [ofFloat rm', seed, pop]
  | "rec-npoint", [n, pc, both, seed, pop] | "rec-uniform", [n, pc, both, seed, pop]
  | "rec-cycle", [n, pc, both, seed, pop] | "rec-arith", [n, pc, both, seed, pop] => do
    let c ← recCtor? ctor
    pure [n, pc, ofBool (recCtorBoth c (← bool? both)), seed, pop]
  | _, _ => if ctor == "new" || ctor == "from_params" then some ia else none

def optFloat? : Sexp → Option (Option Float)
  | .atom "-" => some none
  | s => (float? s).map some

/-- `(adapt MODE (set S R) inner)`: `init` stores the constructor's values, the harness overwrites the
states, `execute` must follow the STATE: the effective parameters come from the model's `mutAdapt`. -/
def adaptArgs (s r : Option Float) (inner : String) (ia : List Sexp) : Option (List Sexp) :=
  let eff := fun (cs cr : Float) (s : Option Float) =>
    let st := mutAdapt (mutInit (toParam cs) (toParam cr)) (s.map toParam) (r.map toParam)
    (ofParam st.strength, ofParam st.rate)
  match inner, ia with
  | "mut-normal", [p, rm, seed, pop] | "mut-uniform", [p, rm, seed, pop] => do
    let (p', rm') := eff (← float? p) (← float? rm) s
    pure [ofFloat p', ofFloat rm', seed, pop]
  | "mut-bitflip", [p, rm, seed, pop] | "mut-bits", [p, rm, seed, pop] => do
    let (_, rm') := eff 0.0 (← float? rm) none
    pure [p, ofFloat rm', seed, pop]
  | "mut-spread", [lo, hi, rm, seed, pop] => do
    let (_, rm') := eff 0.0 (← float? rm) none
    pure [lo, hi, ofFloat rm', seed, pop]
  | "pmut-scramble", [rm, seed, pop] => do
    let (_, rm') := eff 0.0 (← float? rm) none
    pure [ofFloat rm', seed, pop]
  | _, _ => none

/-- `mutation()` with the harness's `TagMutation` (reverse / rotate / keep; fails on gene `fail`). -/
def tagMutate (kind fail : Nat) (sol : List Nat) : Option (List Nat) :=
  if sol.contains fail then none
  else some (match kind with | 0 => sol.reverse | 1 => sol.drop 1 ++ sol.take 1 | _ => sol)

def mutDefault (kind fail : Nat) (pops : List (List (List Nat))) (impl : Sexp) : Option Verdict := do
  let stackOf := fun (st : List (List (List Nat))) => Sexp.list (.atom "stack" :: st.map fun p => .list (.atom "pop" :: p.map ofNats))
  let model := match mutationRun (tagMutate kind fail) pops.reverse with
    | none => Sexp.atom "panic"
    | some (ok, st) => .list [.atom (if ok then "ok" else "err"), stackOf st]
  -- O: when every `mutate` succeeds the population is put back with the same number of individuals and the
  -- stack keeps its height; the `Err` path (population dropped) is outside the wording of the property
  let failing := (pops.getLast?.getD []).any fun s => (tagMutate kind fail s).isNone
  let holds := failing || pops.isEmpty || (match impl with
    | .list [.atom "ok", .list (.atom "stack" :: st)] =>
      st.length == pops.length && (match st.head? with
        | some (.list (.atom "pop" :: top)) => top.length == (pops.getLast?.getD []).length
        | _ => false)
    | _ => false)
  pure (verdict (model.beq impl) holds "count" model)

/-! ## Whole configurations on one State: `(state KIND SEED (pop ..) (run ITEM*)+)` -/

def pkind? : String → Option PKind
  | "normal" => some .normal | "uniform" => some .uniform | "bitflip" => some .bitflip
  | "spread" => some .spread | "scramble" => some .scramble | "bits" => some .bits
  | _ => none

def ident? : String → Option Nat
  | "g" => some 0 | "a" => some 1 | "b" => some 2
  | _ => none

/-- The builder's entry points (`scope_`, `while_`, `if_`, `if_else_`) build the same components as the
constructors (`Scope::new`, `Loop::new`, `Branch::new`, `Branch::new_with_else`). -/
def itemHead : String → String
  | "bscope" => "scope" | "bwhile" => "loop" | "bif" => "if" | "bifelse" => "ifelse"
  | h => h

def cond? : Sexp → Option Bool
  | .atom "t" => some true | .atom "f" => some false
  | _ => none

/-- `(m ID P1 RM)`, `(scope ITEM*)`, `(loop K ITEM*)`, `(if C ITEM*)`, `(ifelse C (then ITEM*) (else ITEM*))` (and the
builder-built `bscope` / `bwhile` / `bif` / `bifelse`) → the model's configuration (fuel: one unit per item). -/
def parseItems (kind : PKind) : Nat → List Sexp → Option (Cfg Float)
  | 0, _ => none
  | _, [] => some .done
  | f + 1, .list [.atom "m", .atom id, p1, rm] :: rest => do
    let c : PComp Float := ⟨kind, ← ident? id, toParam (← float? p1), toParam (← float? rm)⟩
    pure (.leaf c (← parseItems kind f rest))
  | f + 1, .list (.atom h :: args) :: rest =>
    match itemHead h, args with
    | "scope", body => do pure (.scope (← parseItems kind f body) (← parseItems kind f rest))
    | "loop", k :: body => do pure (.loop (← nat? k) (← parseItems kind f body) (← parseItems kind f rest))
    | "if", c :: body => do pure (.branch (← cond? c) (← parseItems kind f body) .done (← parseItems kind f rest))
    | "ifelse", [c, .list (.atom "then" :: tb), .list (.atom "else" :: eb)] => do
      pure (.branch (← cond? c) (← parseItems kind f tb) (← parseItems kind f eb) (← parseItems kind f rest))
    | _, _ => none
  | _, _ => none

/-- Bit-pattern equality of parameter values (NaN equals NaN). -/
def paramEq (a b : Param Float) : Bool := (ofParam a).toBits == (ofParam b).toBits

def paramFloat : Param Float → Float := ofParam

def implTag {σ : Type} : Impl σ → String
  | .ok _ _ _ => "ok" | .err _ => "err" | .panic => "panic"

/-- One run: the executions the model predicts (what each instance READ from the registries) against the
implementation's snapshots (K), and every executed instance against ITS OWN constructor values (O).
`judge p1 rm inp impl` is the single-component verdict for the kind. Returns the verdict parts and the
population after the run. -/
def stateRun {σ : Type} (judge : Float → Float → List σ → Impl σ → Verdict) (wf : Bool)
    (own : List (PComp Float)) (trace : List (Obs Float)) (impls : List (Impl σ)) (cur : List σ) :
    Bool × Bool × String × List σ :=
  let n := impls.length
  let step := fun (acc : Bool × Bool × String × List σ) (j : Nat) =>
    let (agree, holds, cls, cur) := acc
    match impls[j]? with
    | none => acc
    | some impl =>
      -- K: the parameters the model's registries hold for this execution
      let k := match trace[j]? with
        | some o =>
          (match o.seen with
           | some p => (judge (paramFloat p.strength) (paramFloat p.rate) cur impl).agree
           | none => (match impl with | .panic => true | _ => false)) &&
          outcomeTag o.out == implTag impl
        | none => false
      -- O: the instance's own parameters
      let (h, c) := match own[j]? with
        | some c =>
          let v := judge (paramFloat c.strength) (paramFloat c.rate) cur impl
          (v.holds || !wf, v.cls)
        | none => (false, "count")
      let cur' := match impl with | .ok _ _ pop => pop | _ => cur
      (agree && k, holds && h, if holds && !h then c else cls, cur')
  let (agree, holds, cls, cur) := (List.range n).foldl step (true, true, "-", cur)
  (agree && trace.length == n, holds, cls, cur)

def stateCase {σ : Type} (sol? : Sexp → Option σ) (judge : Float → Float → List σ → Impl σ → Verdict)
    (kind : PKind) (pop : Sexp) (runs : List Sexp) (impl : Sexp) : Option Verdict := do
  let inp ← popOf sol? pop
  let cfgs ← runs.mapM fun r => do parseItems kind 100000 (← tagged? "run" r)
  let wf := cfgs.all (·.wellFormedBy paramEq)
  let (traces, _) := runAll cfgs ⟨[], []⟩
  let implRuns ← (← tagged? "runs" impl).mapM fun r => do
    match ← tagged? "run" r with
    | .atom status :: snaps => do
      let snaps ← snaps.mapM (parseImpl sol?)
      let fail : List (Impl σ) := match status with | "ok" => [] | "err" => [.err "exec"] | _ => [.panic]
      pure (status, snaps ++ fail)
    | _ => none
  let step := fun (acc : Bool × Bool × String × List σ × Bool) (i : Nat) =>
    let (agree, holds, cls, cur, stopped) := acc
    if stopped then acc else
    match cfgs[i]?, traces[i]?, implRuns[i]? with
    | some cfg, some trace, some (status, impls) =>
      let (a, h, c, cur') := stateRun judge wf cfg.unroll trace impls cur
      (agree && a, holds && h, if holds && !h then c else cls, cur', status == "panic")
    | _, _, _ => (false, holds, cls, cur, true)       -- a run is missing although no panic stopped the harness
  let (agree, holds, cls, _, _) := (List.range cfgs.length).foldl step (true, true, "-", inp, false)
  let model := Sexp.list (.atom "runs" :: traces.map fun t => .list (.atom "run" :: t.map fun o =>
    match o.seen with
    | some p => .list [ofFloat (paramFloat p.strength), ofFloat (paramFloat p.rate), .atom (outcomeTag o.out)]
    | none => .atom "missing"))
  pure (verdict agree holds cls model)

def stateDispatch (args : List Sexp) (impl : Sexp) : Option Verdict :=
  match args with
  | .atom kind :: _ :: pop :: runs => do
    let k ← pkind? kind
    match kind with
    | "normal" | "uniform" => stateCase floats? (fun p1 rm => realMutation kind p1 0 rm) k pop runs impl
    | "spread" => stateCase floats? (fun _ rm => realMutation "spread" (-5.0) 5.0 rm) k pop runs impl
    | "bitflip" | "bits" => stateCase bools? (fun p rm => bitMutation kind p rm) k pop runs impl
    | _ => stateCase nats? (fun _ rm => permMutation "scramble" 0 rm) k pop runs impl
  | _ => none

def c13Ext (component : String → List Sexp → Sexp → Option Verdict) (tag : String) (args : List Sexp) (impl : Sexp) :
    Option Verdict :=
  match tag, args with
  | "via", [.atom ctor, .list (.atom inner :: ia)] => do
    component inner (← viaArgs ctor inner ia) impl
  | "adapt", [.atom m, st, .list [.atom "via", .atom ctor, .list (.atom inner :: ia)]] => do
    -- constructor first, adaptation on top of what it stored
    let (s, r) ← match st with
      | .list [.atom "set", s, r] => do pure ((← optFloat? s), (← optFloat? r))
      | _ => none
    let _ := m
    component inner (← adaptArgs s r inner (← viaArgs ctor inner ia)) impl
  | "adapt", [.atom _, .list [.atom "set", s, r], .list (.atom inner :: ia)] => do
    component inner (← adaptArgs (← optFloat? s) (← optFloat? r) inner ia) impl
  | "mutdefault", kind :: fail :: pops => do
    mutDefault (← nat? kind) (← nat? fail) (← pops.mapM (popOf nats?)) impl
  | "state", _ => stateDispatch args impl
  | _, _ => component tag args impl

def c13 (input implOut : Sexp) : Option Verdict :=
  match input with
  | .list (.atom tag :: args) =>
    match helper tag args implOut with
    | some v => some v
    | none => c13Ext component tag args implOut
  | _ => none

end C13

def main : IO Unit := driverMain (respond C13.c13)
