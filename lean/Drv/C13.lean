import MahfModel.Model.Variation
open MahfModel MahfModel.Sexp MahfModel.Variation

namespace C13

def optNats : Option (List Nat) → Sexp
  | some l => ofNats l
  | none => .atom "panic"

def optNats? : Sexp → Option (Option (List Nat))
  | .atom "panic" => some none
  | s => (nats? s).map some

def pairNats : Option (List Nat × List Nat) → Sexp
  | some (a, b) => .list [ofNats a, ofNats b]
  | none => .atom "panic"

def pairNats? : Sexp → Option (Option (List Nat × List Nat))
  | .atom "panic" => some none
  | .list [a, b] => do
    let a ← nats? a
    let b ← nats? b
    pure (some (a, b))
  | _ => none

def bools? : Sexp → Option (List Bool)
  | .list xs => xs.mapM bool?
  | _ => none

def floats? : Sexp → Option (List Float)
  | .list xs => xs.mapM float?
  | _ => none

def ofFloats (l : List Float) : Sexp := .list (l.map ofFloat)

def pairFloats : Option (List Float × List Float) → Sexp
  | some (a, b) => .list [ofFloats a, ofFloats b]
  | none => .atom "panic"

def pairFloats? : Sexp → Option (Option (List Float × List Float))
  | .atom "panic" => some none
  | .list [a, b] => do
    let a ← floats? a
    let b ← floats? b
    pure (some (a, b))
  | _ => none

/-- Relative tolerance 1e-9 (absolute near zero); NaN equals NaN. -/
def feq (x y : Float) : Bool :=
  if x.isNaN || y.isNaN then x.isNaN && y.isNaN
  else if x == y then true
  else (x - y).abs ≤ 1e-9 * (max x.abs y.abs) || (x - y).abs ≤ 1e-300

def feqList : List Float → List Float → Bool
  | [], [] => true
  | x :: xs, y :: ys => feq x y && feqList xs ys
  | _, _ => false

def verdict (agree holds : Bool) (cls : String) (model : Sexp) : Verdict :=
  { agree, holds, cls := if holds then "-" else cls, model }

/-- class of a failed helper case: panic if the implementation panicked, else wrong-value. -/
def clsOf (implPanicked : Bool) : String := if implPanicked then "panic" else "wrong-value"

def helper (tag : String) (args : List Sexp) (impl : Sexp) : Option Verdict :=
  match tag, args with
  | "cswap", [l, idx] => do
    let l ← nats? l
    let idx ← nats? idx
    let (i1, i2) ← match impl with
      | .list [a, b] => do pure ((← optNats? a), (← optNats? b))
      | _ => none
    let m1 := circularSwap l idx
    let m2 := circularSwap2 l idx
    let model := Sexp.list [optNats m1, optNats m2]
    pure (verdict (model.beq impl) (cswapHolds l idx i1 i2)
      (if i1.isNone || i2.isNone then "panic" else if i1 != i2 then "twins-differ" else "wrong-value") model)
  | "transl", [l, s, e, i] => do
    let l ← nats? l
    let s ← nat? s
    let e ← nat? e
    let i ← nat? i
    let (i1, i2) ← match impl with
      | .list [a, b] => do pure ((← optNats? a), (← optNats? b))
      | _ => none
    let model := Sexp.list [optNats (translocateSlice l s e i), optNats (translocateSlice2 l s e i)]
    pure (verdict (model.beq impl) (translocHolds l s e i i1 i2)
      (if i1.isNone || i2.isNone then "panic" else if i1 != i2 then "twins-differ" else "wrong-value") model)
  | "mpx", [p1, p2, idx] => do
    let p1 ← nats? p1
    let p2 ← nats? p2
    let idx ← nats? idx
    let r ← pairNats? impl
    let model := pairNats (multiPointCrossover p1 p2 idx)
    pure (verdict (model.beq impl) (mpxHolds p1 p2 idx r) (clsOf r.isNone) model)
  | "ux", [p1, p2, mask] => do
    let p1 ← nats? p1
    let p2 ← nats? p2
    let mask ← bools? mask
    let r ← pairNats? impl
    let model := pairNats (uniformCrossover p1 p2 mask)
    pure (verdict (model.beq impl) (uxHolds p1 p2 mask r) (clsOf r.isNone) model)
  | "cx", [p1, p2] => do
    let p1 ← nats? p1
    let p2 ← nats? p2
    let r ← pairNats? impl
    let model := pairNats (cycleCrossover p1 p2)
    pure (verdict (model.beq impl) (cxHolds p1 p2 r) (clsOf r.isNone) model)
  | "ax", [p1, p2, al] => do
    let p1 ← floats? p1
    let p2 ← floats? p2
    let al ← floats? al
    let r ← pairFloats? impl
    let m := arithmeticCrossover p1 p2 al
    let agree := match m, r with
      | some (a, b), some (c, d) => feqList a c && feqList b d
      | none, none => true
      | _, _ => false
    let valid := p1.length == p2.length && al.length == p1.length && al.all (fun a => 0.0 ≤ a && a ≤ 1.0)
    let holds := if valid then
        match r with
        | some (c1, c2) =>
          c1.length == p1.length && c2.length == p1.length &&
          (List.range p1.length).all fun i =>
            let a := p1[i]!; let b := p2[i]!; let x := c1[i]!; let y := c2[i]!
            let lo := min a b; let hi := max a b
            let slack := 1e-9 * (max a.abs b.abs) + 1e-300
            lo - slack ≤ x && x ≤ hi + slack && lo - slack ≤ y && y ≤ hi + slack &&
            (x + y - (a + b)).abs ≤ 4 * slack
        | none => false
      else true
    pure (verdict agree holds (clsOf r.isNone) (pairFloats m))
  | _, _ => none

/-- Component cases (part 2). -/
def component (_tag : String) (_args : List Sexp) (_impl : Sexp) : Option Verdict := none

def c13 (input implOut : Sexp) : Option Verdict :=
  match input with
  | .list (.atom tag :: args) =>
    match helper tag args implOut with
    | some v => some v
    | none => component tag args implOut
  | _ => none

end C13

def main : IO Unit := driverMain (respond C13.c13)
