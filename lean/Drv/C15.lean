import MahfModel.Model.LogC15Files
import MahfModel.Model.LogC15Runs
open MahfModel MahfModel.Log

def c15 (input implOut : Sexp) : Option Verdict := do
  let r ← (match input with
    | .list (.atom "lg" :: _) => handleProgramFiles input implOut
    | .list (.atom "lgs" :: _) => handleRuns input implOut
    | .list (.atom "tl" :: _) => handleWitness input implOut
    | .list (.atom "fl" :: _) => handleFloats input implOut
    | .list (.atom "cfg" :: _) => handleConfigX input implOut
    | .list (.atom "exp" :: _) => handleExp input implOut
    | _ => none)
  pure { agree := Sexp.beq (canonOut (canonRuns r.model)) (canonOut (canonRuns (canonPair (canonExp implOut)))), holds := r.holds, cls := r.cls, model := r.model }

def main : IO Unit := driverMain (respond c15)
