import MahfModel.Model.LogC15Cfg
open MahfModel MahfModel.Log

def c15 (input implOut : Sexp) : Option Verdict := do
  let r ← (match input with
    | .list (.atom "lg" :: _) => handleProgram input implOut
    | .list (.atom "tl" :: _) => handleWitness input implOut
    | .list (.atom "fl" :: _) => handleFloats input implOut
    | .list (.atom "cfg" :: _) => handleConfigX input implOut
    | _ => none)
  pure { agree := Sexp.beq (canonOut r.model) (canonOut (canonPair implOut)), holds := r.holds, cls := r.cls, model := r.model }

def main : IO Unit := driverMain (respond c15)
