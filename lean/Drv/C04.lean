import MahfModel.Model.PopStackScope
open MahfModel

/-- Kind of the first deviation between what the plain stack says and what the implementation did. -/
def devClass : List Sexp → List Sexp → String
  | e :: es, o :: os =>
    if Sexp.beq e o then devClass es os
    else
      let isPanic (x : Sexp) : Bool :=
        match x with
        | .atom "panic" => true
        | .list (.atom "panic" :: _) => true
        | _ => false
      if isPanic o && !isPanic e then "panic"
      else if isPanic e && !isPanic o then "no-panic"
      else if Sexp.beq o (.list [.atom "e", .atom "exec"]) then "err"
      else if Sexp.beq e (.atom "none") || Sexp.beq o (.atom "none") then "none"
      else "wrong-value"
  | _, _ => "count"

/-- The final read of the stack panicked (`Populations` is no longer found in the state). -/
def stackLost (x : Sexp) : Bool :=
  match x with
  | .list [_, .list [.atom "stack", .atom "panic"]] => true
  | _ => false

def outsOf (x : Sexp) : List Sexp :=
  match x with
  | .list (o :: _) => (Sexp.tagged? "outs" o).getD []
  | _ => []

/-- Input: a program `(ops ITEM*)` on one `State` (stack operations, utility components, failing steps, nested
scopes of every kind; the caller carries on after every top-level result).
K: the code-shaped model (registry chain, `with_inner_state`, `?`; fed with the witnesses read off the real run: order of equal objective values in a
split, stack height after a component panic) reproduces the implementation's output exactly.
O: the implementation's output is what the plain stack gives for the same history and witnesses. -/
def c04 (input implOut : Sexp) : Option Verdict := do
  let (model, spec) ← PopStack.handleCaseS input implOut
  let agree := Sexp.beq model implOut
  let holds := Sexp.beq spec implOut
  let cls :=
    if holds then "-"
    else if (outsOf spec).map Sexp.render == (outsOf implOut).map Sexp.render then
      (if stackLost implOut then "panic" else "stack")
    else devClass (outsOf spec) (outsOf implOut)
  pure { agree, holds, cls, model }

def main : IO Unit := driverMain (respond c04)
