import MahfModel.Model.PopStack
open MahfModel

def c04 (input implOut : Sexp) : Option Verdict := do
  let (model, spec) ← PopStack.handleCase input
  let agree := Sexp.beq model implOut
  let holds := Sexp.beq spec implOut
  pure { agree, holds, cls := if holds then "-" else "wrong-value", model }

def main : IO Unit := driverMain (respond c04)
