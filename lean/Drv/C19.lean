import MahfModel.Model.Aco
open MahfModel

def main : IO Unit := driverMain (respond Aco.Wire.handleCase)
