import MahfModel.Model.Templates
import MahfModel.Model.TemplatesEval
import MahfModel.Model.TemplatesSize
open MahfModel MahfModel.Tpl Sexp

def compositeNames : List String := ["Block", "Loop", "Branch", "Scope"]

def intOf? : Sexp → Option Int
  | .atom s => s.toInt?
  | _ => none

structure StepObs where
  name : String
  delta : Int
  size : Int
  /-- sizes of the (up to three) top-most populations before the step, top first -/
  before : List Nat := []
  hasBefore : Bool := false

def parseSteps (xs : List Sexp) : List StepObs :=
  xs.filterMap fun
    | .list [.atom n, d, sz] => do
      let d ← intOf? d
      let sz ← intOf? sz
      pure { name := n, delta := d, size := sz }
    | .list [.atom n, d, sz, b0, b1, b2] => do
      let d ← intOf? d
      let sz ← intOf? sz
      let bs ← [b0, b1, b2].mapM intOf?
      pure { name := n, delta := d, size := sz, hasBefore := true,
             before := (bs.takeWhile (· ≥ 0)).map Int.toNat }
    | _ => none

mutual
  /-- all leaves of a tree with their size parameters -/
  def sleaves : SComp → List (LeafKind × Nat × Nat)
    | .leaf k a b => [(k, a, b)]
    | .seq cs => sleavesL cs
    | .loop b => sleaves b
    | .branch t e => sleaves t ++ sleaves e
    | .scope b => sleaves b
  def sleavesL : SComps → List (LeafKind × Nat × Nat)
    | .nil => []
    | .cons c cs => sleaves c ++ sleavesL cs
end

/-- K for the size transformers: the size observed after an executed leaf step lies in the interval that
`sizeStep` predicts from the sizes observed before it, for (one of) the leaves of that name in the tree. -/
def sizeStepOk (leaves : List (LeafKind × Nat × Nat)) (st : StepObs) : Bool :=
  if compositeNames.contains st.name || !st.hasBefore then true
  else
    let k := LeafKind.ofName st.name
    let before : AbsStack := st.before.map Itv.exact
    (leaves.filter (·.1 == k)).any fun (_, a, b) =>
      match sizeStep k a b before with
      | some (top :: _) => st.size ≥ 0 && top.memb st.size.toNat
      | some [] => st.size < 0
      | none => false

def showItv (i : Itv) : Sexp :=
  .list [ofNat i.lo, match i.hi with | some h => ofNat h | none => .atom "inf"]

/-- first step whose observed height change differs from the declared effect of its component -/
def firstBadStep (steps : List StepObs) : Option StepObs :=
  steps.find? fun st =>
    if compositeNames.contains st.name then false
    else match leafEffect (LeafKind.ofName st.name) with
      | some d => d != st.delta
      | none => true      -- a component the model does not know

def expectedIters (iters : Nat) : String := toString iters

/-- K-only stream: the component classes the C06/C07 template analyses rely on, checked against what
each executed component was observed to do: `(name calls evalsDelta solutionsChanged flagsChanged bestChanged)`. -/
def auditStepOk : Sexp → Bool
  | .list [.atom name, calls, evals, sol, flag, best] =>
    let k := LeafKind.ofName name
    let calls := (intOf? calls).getD 1
    let evals := (intOf? evals).getD 1
    let sol := (bool? sol).getD true
    let flag := (bool? flag).getD true
    let best := (bool? best).getD true
    let c := eclass k
    k != .opaque
      && (callsObjective k || (calls == 0 && evals == 0))
      && (!(c == .neutral || c == .update) || (!sol && !flag))
      && (c != .eval || !sol)
      && (c == .update || !best)
  | _ => false

def c16audit (implOut : Sexp) : Option Verdict := do
  let out ← list? implOut
  let steps := (out.filterMap (tagged? "steps")).headD []
  let bad := steps.find? (fun s => !auditStepOk s)
  pure { agree := bad.isNone, holds := true, cls := "-",
         model := match bad with | some b => .list [.atom "class-mismatch", b] | none => .atom "classes-ok" }

/-- every observed size lies in its predicted interval, and the heights agree -/
def concB : List Nat → AbsStack → Bool
  | [], [] => true
  | n :: s, i :: a => i.memb n && concB s a
  | _, _ => false

/-- K-only: one real component executed on a prepared stack `(sizeprobe COMPONENT seed (sizes …))`; where it
succeeded, the sizes afterwards must lie in what `sizeStep` predicts from the sizes before (the component's
parameters are read from its serialised form by the translator used for the template trees). -/
def c16probe (args : List Sexp) (implOut : Sexp) : Option Verdict := do
  let (comp, sizes) ← match args with
    | [comp, _, sz] => ((tagged? "sizes" sz).bind fun l => l.mapM nat?).map fun l => (comp, l)
    | _ => none
  let out ← list? implOut
  let res ← (field? "res" out).bind atom?
  let after ← ((out.filterMap (tagged? "sizes")).head?).bind fun l => l.mapM nat?
  let pred := match SComp.ofSexp 8 comp with
    | .leaf k a b => sizeStep k a b (sizes.map Itv.exact)
    | _ => none
  let model := match pred with
    | some a => Sexp.list (a.map showItv)
    | none => .atom "none"
  let agree := res != "ok" || (match pred with | some a => concB after a | none => false)
  pure { agree, holds := true, cls := "-", model }

def c16 (input implOut : Sexp) : Option Verdict := do
  if (tagged? "audit" input).isSome then return ← c16audit implOut
  if let some args := tagged? "sizeprobe" input then return ← c16probe args implOut
  let args ← tagged? "run" input
  let (name, iters, tree) ← match args with
    | [.atom name, _, _, it, _, tree] => (nat? it).map fun i => (name, i, tree)
    | _ => none
  let out ← list? implOut
  let res ← (field? "res" out).bind atom?
  let comp := ofSexp 64 tree
  let scomp := SComp.ofSexp 64 tree
  let eff := effect comp
  let bal := balanced comp
  let presc : Option (Nat × Option Nat) := match out.filterMap (tagged? "prescribed") with
    | [[lo, hi]] => (nat? lo).map fun l => (l, nat? hi)
    | _ => none
  -- the verified static verdict for the prescribed bound (what the `_size` theorems state)
  let sw := match presc with
    | some (l, h) => sizeWithin scomp l h
    | none => false
  let model := Sexp.list [.list [.atom "balanced", ofBool bal],
    .list [.atom "effect", match eff with | some k => ofInt k | none => .atom "none"],
    .list [.atom "opaque", ofBool (hasOpaque comp)],
    .list [.atom "size-within", ofBool sw],
    .list [.atom "sizes", match sizeFinal scomp with | some a => .list (a.map showItv) | none => .atom "none"]]
  if res == "ctor-err" then
    return { agree := true, holds := false, cls := "ctor-err", model }
  let steps := parseSteps ((out.filterMap (tagged? "steps")).headD [])
  let passes := ((out.filterMap (tagged? "passes")).headD []).filterMap fun
    | .list [d, hb, ha, sz] => do pure ((← nat? d), (← intOf? hb), (← intOf? ha), (← intOf? sz))
    | _ => none
  let height := (field? "height" out).bind intOf?
  let itersObs := (field? "iters" out).bind nat?
  let (lo, hi) ← match out.filterMap (tagged? "prescribed") with
    | [[lo, hi]] => some (intOf? lo, intOf? hi)
    | _ => none
  -- O: the property on the implementation's run
  let passLeak := passes.find? fun (_, hb, ha, _) => hb != ha
  let sizeBad := passes.find? fun (d, _, _, sz) =>
    d == 0 && ((match lo with | some l => sz < l | none => false) || (match hi with | some h => sz > h | none => false))
  let failedIn := ((field? "failed-in" out).bind atom?).getD "-"
  let cls :=
    if res != "ok" then s!"{res}@{failedIn}"
    else if itersObs != some iters then "iters"
    else match passLeak with
      | some (_, hb, ha, _) => s!"leak{if ha - hb ≥ 0 then "+" else ""}{ha - hb}"
      | none =>
        if height != some 1 then s!"height{match height with | some h => toString h | none => "?"}"
        else if sizeBad.isSome then "size"
        else "-"
  -- K: every executed component changed the height by its declared effect, the tree is fully
  -- known, and what the verified analysis predicts for a balanced tree is what was observed
  let bad := firstBadStep steps
  let predicted := !bal || res != "ok" || (passLeak.isNone && height == some 1)
  -- K (sizes): every executed leaf's size transformer contains what was observed, and where the
  -- verified size analysis answers `true` no outermost pass of an error-free run ended outside the bound
  let leaves := sleaves scomp
  let badSize := steps.find? fun st => !sizeStepOk leaves st
  let sizePredicted := !sw || res != "ok" || sizeBad.isNone
  -- both translators read the same structure
  let sameTree := toLean scomp.erase == toLean comp
  let agree := bad.isNone && !hasOpaque comp && predicted && badSize.isNone && sizePredicted && sameTree
  let model := match bad with
    | some b => Sexp.list [model, .list [.atom "bad-step", .atom b.name, ofInt b.delta]]
    | none => model
  let model := match badSize with
    | some b => Sexp.list [model, .list [.atom "bad-size-step", .atom b.name, ofInt b.size, ofNats b.before]]
    | none => model
  pure { agree, holds := cls == "-", cls, model }

/-- `--gen`: stdin lines `(tree NAME variant TREE)` ↦ Lean source of `Generated/Templates.lean`. -/
partial def genLoop (h : IO.FS.Stream) (acc : Array String) : IO (Array String) := do
  let line ← h.getLine
  if line.isEmpty then return acc
  match Sexp.parse line.trimAscii.toString with
  | some (.list [.atom "tree", .atom name, .atom v, tree]) =>
    let c := ofSexp 64 tree
    genLoop h (acc.push s!"def {name}_v{v} : Comp := {toLean c}")
  | _ => genLoop h acc

/-- `--gen-sized`: the same stdin ↦ Lean source of `Generated/TemplatesSized.lean` (trees with parameters). -/
partial def genSizedLoop (h : IO.FS.Stream) (acc : Array String) : IO (Array String) := do
  let line ← h.getLine
  if line.isEmpty then return acc
  match Sexp.parse line.trimAscii.toString with
  | some (.list [.atom "tree", .atom name, .atom v, tree]) =>
    let c := SComp.ofSexp 64 tree
    genSizedLoop h (acc.push s!"def {name}_v{v} : SComp := {SComp.toLean c}")
  | _ => genSizedLoop h acc

def main (args : List String) : IO Unit := do
  if args.contains "--gen-sized" then
    let defs ← genSizedLoop (← IO.getStdin) #[]
    IO.println "/- GENERATED on every run by `harness c16 --trees | drv_c16 --gen-sized` from the component trees that"
    IO.println "   the real template constructors build (serialised through the code's own `Serialize`), keeping the"
    IO.println "   parameters that determine population sizes. Do not edit. -/"
    IO.println "import MahfModel.Model.TemplatesSize"
    IO.println "namespace MahfModel.Generated.Sized"
    IO.println "open MahfModel.Tpl"
    for d in defs do IO.println d
    IO.println "end MahfModel.Generated.Sized"
  else if args.contains "--gen" then
    let defs ← genLoop (← IO.getStdin) #[]
    IO.println "/- GENERATED on every run by `harness c16 --trees | drv_c16 --gen` from the component trees that"
    IO.println "   the real template constructors build (serialised through the code's own `Serialize`). Do not edit. -/"
    IO.println "import MahfModel.Model.Templates"
    IO.println "namespace MahfModel.Generated"
    IO.println "open MahfModel.Tpl"
    for d in defs do IO.println d
    IO.println "end MahfModel.Generated"
  else
    driverMain (respond c16)
