import MahfModel.Model.Templates
import MahfModel.Model.TemplatesEval
import MahfModel.Model.TemplatesSize
import MahfModel.Model.TemplatesLoops
import MahfModel.Model.TemplatesParam
import MahfModel.Model.TemplatesInst
import MahfModel.Model.TemplatesBudget
open MahfModel MahfModel.Tpl Sexp

def compositeNames : List String := ["Block", "Loop", "Branch", "Scope"]

def intOf? : Sexp → Option Int
  | .atom s => s.toInt?
  | _ => none

structure StepObs where
  name : String
  delta : Int
  size : Int
  /-- sizes of the (up to three) top-most populations before the step, top first -/
  before : List Nat := []
  hasBefore : Bool := false

def parseSteps (xs : List Sexp) : List StepObs :=
  xs.filterMap fun
    | .list [.atom n, d, sz] => do
      let d ← intOf? d
      let sz ← intOf? sz
      pure { name := n, delta := d, size := sz }
    | .list [.atom n, d, sz, b0, b1, b2] => do
      let d ← intOf? d
      let sz ← intOf? sz
      let bs ← [b0, b1, b2].mapM intOf?
      pure { name := n, delta := d, size := sz, hasBefore := true,
             before := (bs.takeWhile (· ≥ 0)).map Int.toNat }
    | _ => none

mutual
  /-- all leaves of a tree with their size parameters -/
  def sleaves : SComp → List (LeafKind × Nat × Nat)
    | .leaf k a b => [(k, a, b)]
    | .seq cs => sleavesL cs
    | .loop b => sleaves b
    | .branch t e => sleaves t ++ sleaves e
    | .scope b => sleaves b
  def sleavesL : SComps → List (LeafKind × Nat × Nat)
    | .nil => []
    | .cons c cs => sleaves c ++ sleavesL cs
end

/-- K for the size transformers: the size observed after an executed leaf step lies in the interval that
`sizeStep` predicts from the sizes observed before it, for (one of) the leaves of that name in the tree. -/
def sizeStepOk (leaves : List (LeafKind × Nat × Nat)) (st : StepObs) : Bool :=
  if compositeNames.contains st.name || !st.hasBefore then true
  else
    let k := LeafKind.ofName st.name
    let before : AbsStack := st.before.map Itv.exact
    (leaves.filter (·.1 == k)).any fun (_, a, b) =>
      match sizeStep k a b before with
      | some (top :: _) => st.size ≥ 0 && top.memb st.size.toNat
      | some [] => st.size < 0
      | none => false

def showItv (i : Itv) : Sexp :=
  .list [ofNat i.lo, match i.hi with | some h => ofNat h | none => .atom "inf"]

/-- first step whose observed height change differs from the declared effect of its component -/
def firstBadStep (steps : List StepObs) : Option StepObs :=
  steps.find? fun st =>
    if compositeNames.contains st.name then false
    else match leafEffect (LeafKind.ofName st.name) with
      | some d => d != st.delta
      | none => true      -- a component the model does not know

def expectedIters (iters : Nat) : String := toString iters

/-- K-only stream: the component classes the C06/C07 template analyses rely on, checked against what
each executed component was observed to do: `(name calls evalsDelta solutionsChanged flagsChanged bestChanged)`. -/
def auditStepOk : Sexp → Bool
  | .list [.atom name, calls, evals, sol, flag, best] =>
    let k := LeafKind.ofName name
    let calls := (intOf? calls).getD 1
    let evals := (intOf? evals).getD 1
    let sol := (bool? sol).getD true
    let flag := (bool? flag).getD true
    let best := (bool? best).getD true
    let c := eclass k
    k != .opaque
      && (callsObjective k || (calls == 0 && evals == 0))
      && (!(c == .neutral || c == .update) || (!sol && !flag))
      && (c != .eval || !sol)
      && (c == .update || !best)
  | _ => false

def c16audit (implOut : Sexp) : Option Verdict := do
  let out ← list? implOut
  let steps := (out.filterMap (tagged? "steps")).headD []
  let bad := steps.find? (fun s => !auditStepOk s)
  pure { agree := bad.isNone, holds := true, cls := "-",
         model := match bad with | some b => .list [.atom "class-mismatch", b] | none => .atom "classes-ok" }

/-- every observed size lies in its predicted interval, and the heights agree -/
def concB : List Nat → AbsStack → Bool
  | [], [] => true
  | n :: s, i :: a => i.memb n && concB s a
  | _, _ => false

/-- K-only: one real component executed on a prepared stack `(sizeprobe COMPONENT seed (sizes …))`; where it
succeeded, the sizes afterwards must lie in what `sizeStep` predicts from the sizes before (the component's
parameters are read from its serialised form by the translator used for the template trees). -/
def c16probe (args : List Sexp) (implOut : Sexp) : Option Verdict := do
  let (comp, sizes) ← match args with
    | [comp, _, sz] => ((tagged? "sizes" sz).bind fun l => l.mapM nat?).map fun l => (comp, l)
    | _ => none
  let out ← list? implOut
  let res ← (field? "res" out).bind atom?
  let after ← ((out.filterMap (tagged? "sizes")).head?).bind fun l => l.mapM nat?
  let pred := match SComp.ofSexp 8 comp with
    | .leaf k a b => sizeStep k a b (sizes.map Itv.exact)
    | _ => none
  let model := match pred with
    | some a => Sexp.list (a.map showItv)
    | none => .atom "none"
  -- where the modelled size precondition holds the component must succeed (the direction the guard theorems
  -- rely on: a refusal implies a violated precondition; a component that has become more lenient is no concern here)
  let guard := match SComp.ofSexp 8 comp with
    | .leaf k a b => guardOf k a b sizes
    | _ => none
  let guardAgrees := match guard with
    | some true => res == "ok"
    | _ => true
  let agree := (res != "ok" || (match pred with | some a => concB after a | none => false)) && guardAgrees
  let model := Sexp.list [model, .list [.atom "guard", match guard with | some g => ofBool g | none => .atom "-"]]
  pure { agree, holds := true, cls := "-", model }


/-! ### Explicit-parameter runs -/

def splitParams (ps : List Sexp) : List Nat × List Float :=
  ps.foldr (fun p (ns, fs) =>
    match nat? p with
    | some n => (n :: ns, fs)
    | none => match float? p with
      | some f => (ns, f :: fs)
      | none => (ns, fs)) ([], [])

inductive TermK where
  | iters (k : Nat) | evals (n : Nat) | both (k n : Nat) | either (k n : Nat)

def TermK.ofSexpTagged (tag : String) : Sexp → Option TermK
  | .list [.atom t, .atom kind, k, n] => do
    if t != tag then none
    let k ← nat? k
    let n ← nat? n
    match kind with
    | "iters" => some (.iters k)
    | "evals" => some (.evals n)
    | "both" => some (.both k n)
    | "either" => some (.either k n)
    | _ => none
  | _ => none

def TermK.ofSexp : Sexp → Option TermK := TermK.ofSexpTagged "term"

/-- the condition in the language of `Model/TemplatesBudget.lean` -/
def TermK.bcond : TermK → BCond
  | .iters k => .iterLt k
  | .evals n => .evalLt n
  | .both k n => .and (.iterLt k) (.evalLt n)
  | .either k n => .or (.iterLt k) (.evalLt n)

def TermK.cond : TermK → LCond
  | .iters k => .iterLt k
  | .evals _ => .other
  | .both k _ => .both k
  | .either k _ => .either k

def natsOf (xs : List Sexp) : List Nat := xs.filterMap nat?
def intsOf (xs : List Sexp) : List Int := xs.filterMap intOf?

/-- Did the loop stop exactly where its condition says?  `ev` = `Evaluations` at the start of every outermost pass
(pass `i` starts with `Iterations = i`), `evEnd` = at the end, `passes` = completed outermost passes. -/
def termOk (t : TermK) (passes : Nat) (ev : List Int) (evEnd : Int) : Bool :=
  let starts := (List.range ev.length).zip ev
  match t with
  | .iters k => passes == k
  | .evals n => starts.all (fun (_, e) => e < n) && evEnd ≥ n
  | .both k n => starts.all (fun (i, e) => i < k && e < n) && (passes ≥ k || evEnd ≥ n)
  | .either k n => starts.all (fun (i, e) => i < k || e < n) && (passes ≥ k && evEnd ≥ n)

/-- What one `Configuration::run` was observed to do. -/
structure RunObs where
  iters : Option Nat
  height : Option Int
  size : Option Int
  pcount : List Nat
  evals : List Int
  evalsFinal : Int
  nlruns : Nat
  /-- completed loop executions (first 400): (loop passes around it, passes it made) -/
  lruns : List (Nat × Nat)

def RunObs.ofFields (out : List Sexp) : RunObs :=
  { iters := (field? "iters" out).bind nat?
    height := (field? "height" out).bind intOf?
    size := (field? "size" out).bind intOf?
    pcount := natsOf ((out.filterMap (tagged? "pcount")).headD [])
    evals := intsOf ((out.filterMap (tagged? "evals")).headD [])
    evalsFinal := ((field? "evals-final" out).bind intOf?).getD (-1)
    nlruns := ((field? "nlruns" out).bind nat?).getD 0
    lruns := ((out.filterMap (tagged? "lruns")).headD []).filterMap fun
      | .list [d, p, _, _] => do pure ((← nat? d), (← nat? p))
      | _ => none }

/-- The loop executions of a run are the predicted ones: the same executions in the same order with the same pass
counts (the harness reports the first 400 and the total), the same number of completed passes at every depth, the
predicted final `Iterations`. -/
def countsAsPredicted (pred : Lvl × List (Nat × Nat)) (r : RunObs) : Bool :=
  let g := pred.2
  r.lruns == g.take 400 && r.nlruns == g.length &&
    (List.range (max r.pcount.length 3)).all (fun d => r.pcount.getD d 0 == passesIn d g) &&
    r.iters == pred.1.iters

def showPred : Option (Lvl × List (Nat × Nat)) → Sexp
  | none => .atom "none"
  | some (l, g) => .list [.list [.atom "iters", match l.iters with | some i => ofNat i | none => .atom "none"],
      .list [.atom "evals", match l.evals with | some i => ofNat i | none => .atom "none"],
      .list (.atom "loops" :: (g.take 12).map fun (d, p) => .list [ofNat d, ofNat p]),
      .list [.atom "nloops", ofNat g.length]]

def isIls (name : String) : Bool := name == "real_ils" || name == "permutation_ils"
def isAco (name : String) : Bool := name == "ant_system" || name == "max_min_ant_system"

def c16prun (args : List Sexp) (implOut : Sexp) : Option Verdict := do
  let (name, ps, term, rest) ← match args with
    | .atom name :: ps :: _ :: _ :: term :: rest => do pure (name, (← tagged? "ps" ps), (← TermK.ofSexp term), rest)
    | _ => none
  let tid ← Tid.ofName name
  let (ns, fs) := splitParams ps
  let out ← list? implOut
  let res ← (field? "res" out).bind atom?
  -- what the parameters say, computed on the Lean side
  let cool := if name == "real_fa" then (match fs with | [_, _, _, delta] => faCool delta | _ => true) else true
  let expected := tplT tid ns cool
  let presc := prescribedT tid ns
  -- the condition of the scoped local search (ILS): given explicitly, or `iterations(last parameter)`
  let innerT : Option TermK :=
    if isIls name then (rest.findSome? (TermK.ofSexpTagged "inner")).orElse fun _ => ns.getLast?.map .iters else none
  let validDoc := docValidT tid ns fs
  let ctorModel := ctorOkT tid ns fs
  if res == "ctor-err" || res == "ctor-panic" || res == "timeout" || res == "bad-input" then
    -- the generator only produces documented-valid points: the constructor must accept them, the run must end
    return { agree := ctorModel != some true || res == "timeout", holds := false, cls := res,
             model := .list [.list [.atom "ctor-ok", match ctorModel with | some b => ofBool b | none => .atom "-"],
                             .list [.atom "doc-valid", match validDoc with | some b => ofBool b | none => .atom "-"]] }
  let tree ← field? "tree" out
  let comp := ofSexp 64 tree
  let scomp := SComp.ofSexp 64 tree
  let lcomp := LComp.ofSexp 64 tree
  let bal := balanced comp
  let ite := itersExact lcomp
  let prog := progOkTop lcomp
  let skelOk := match expected with
    | some e => skeleton scomp == skeleton e
    | none => false
  let condsOk := topConds lcomp == [term.cond] &&
    scopedConds lcomp == (innerT.map (·.cond)).toList
  let sw := match presc with
    | some (l, h) => sizeWithin scomp l h
    | none => false
  -- observations
  let steps := parseSteps ((out.filterMap (tagged? "steps")).headD [])
  let passes := ((out.filterMap (tagged? "passes")).headD []).filterMap fun
    | .list [d, hb, ha, sz] => do pure ((← nat? d), (← intOf? hb), (← intOf? ha), (← intOf? sz))
    | _ => none
  let run1 := RunObs.ofFields out
  let later := ((out.filterMap (tagged? "again")).headD []).filterMap fun x => (list? x).map RunObs.ofFields
  let pcount := run1.pcount
  let p0 := pcount.headD 0
  let p1 := (pcount.drop 1).headD 0
  let itouch := ((field? "itouch" out).bind nat?).getD 1
  let evals := run1.evals
  let height := (run1 :: later).getLast?.bind (·.height)
  -- the pass counts the PARAMETERS prescribe (`Model/TemplatesBudget.lean`): the tree `tplT` describes, its loops given
  -- the conditions of the input, evaluation amounts from the size analysis — for a run on a fresh state and (the same,
  -- `rerun_counts_as_first_run`) for every later run on the same state
  let conds := term.bcond :: (innerT.map (·.bcond)).toList
  let predP := (expected.bind fun e => toBTop e conds).bind fun b => predictRun 20000 b Lvl.empty
  let predT := (toBTop scomp (bcondsOf 64 tree)).bind fun b => predictRun 20000 b Lvl.empty
  let zeroDist := ((field? "inst-zero-dist" out).bind bool?).getD false
  let failedIn := ((field? "failed-in" out).bind atom?).getD "-"
  -- what the model predicts for the two recorded defects
  let betaPos := match fs with | _ :: beta :: _ => beta > 0.0 | _ => false
  -- (both defects strike in the first pass: nothing is predicted for a run whose loop is never entered)
  let started := !evals.isEmpty
  let acoPanic := isAco name && acoPanics zeroDist (ns.headD 0) betaPos && started
  let noProgress := !prog && started
  -- O: the property on the implementation's run
  let passLeak := passes.find? fun (_, hb, ha, _) => hb != ha
  let sizeBad := passes.find? fun (d, _, _, sz) =>
    d == 0 && (match presc with
      | some (l, h) => sz < l || (match h with | some h => sz > h | none => false)
      | none => true)
  let obsOk (r : RunObs) : Bool :=
    let q0 := r.pcount.headD 0
    let q1 := (r.pcount.drop 1).headD 0
    termOk term q0 r.evals r.evalsFinal && r.iters == some q0 &&
      (match innerT with | some (.iters m) => q1 == q0 * m | some _ => true | none => q1 == 0) &&
      (match predP with | some pr => countsAsPredicted pr r | none => true)
  let countOk := obsOk run1
  -- (under a condition that reads the evaluation counter every run starts its outermost loop with the evaluations of
  -- its own initialisation phase — also where the evaluation amounts per pass are not determined by the parameters and
  -- `predict` does not answer)
  let readsEvals := match term with | .iters _ => false | _ => true
  let rerunOk := later.all fun r => obsOk r && (!readsEvals || r.evals.head? == run1.evals.head?)
  -- (population sizes at the pass boundaries of every run are in `passes`)
  let rerunShape := later.all fun r => r.height == some 1
  let cls :=
    if res != "ok" then
      if res == "err" && !prog then s!"err@{failedIn}:no-iteration-bound"
      else if res == "panic" && isAco name && zeroDist then s!"panic@{failedIn}:zero-distance"
      else s!"{res}@{failedIn}"
    else if !countOk then "iters"
    else if !rerunOk then "iters-rerun"
    else if !rerunShape then "rerun-shape"
    else match passLeak with
      | some (_, hb, ha, _) => s!"leak{if ha - hb ≥ 0 then "+" else ""}{ha - hb}"
      | none =>
        if height != some 1 then s!"height{match height with | some h => toString h | none => "?"}"
        else if sizeBad.isSome then "size"
        else "-"
  -- K: the tree is the template the parameters describe; the analyses answer on it what the all-parameter theorems
  -- say; every executed component did what its declared effects allow; the run's outcome is the predicted one
  let bad := firstBadStep steps
  let leaves := sleaves scomp
  let badSize := steps.find? fun st => !sizeStepOk leaves st
  let predictedFail := noProgress || acoPanic
  -- pass counts predicted by the loop interpreter (iteration-bounded runs: independent of the oracle)
  let innerIterBound := match innerT with | none | some (.iters _) => true | _ => false
  let predictedCounts := match term, innerIterBound with
    | .iters _, true =>
      if predictedFail then true else
      match lexec ⟨fun _ => true, fun _ => false⟩ 100000 0 lcomp (LSt.init lcomp) with
      | some s => res != "ok" || (passesAt 0 s == p0 && passesAt 1 s == p1 && s.exact)
      | none => false
    | _, _ => true
  let staticOk := skelOk && condsOk && bal && ite && !hasOpaque comp &&
    (sw || tid == .real_iwo || tid == .real_cro || presc.isNone) &&
    toLean scomp.erase == toLean comp
  -- the tree the constructor built predicts what the parameters predict, and the evaluation counter ends where predicted
  let budgetOk := (expected.isNone || predT == predP) &&
    (res != "ok" || (run1 :: later).all fun r => match predP with
      | some (l, _) => l.evals.map Int.ofNat == some r.evalsFinal
      | none => true)
  let dynamicOk := bad.isNone && badSize.isNone && itouch == 0 && (predictedFail == (res != "ok")) && predictedCounts && budgetOk &&
    (!sw || res != "ok" || sizeBad.isNone) && (!bal || res != "ok" || (passLeak.isNone && height == some 1))
  let model := Sexp.list [
    .list [.atom "skeleton", ofBool skelOk], .list [.atom "conds", ofBool condsOk],
    .list [.atom "balanced", ofBool bal], .list [.atom "iters-exact", ofBool ite], .list [.atom "progress-ok", ofBool prog],
    .list [.atom "size-within", ofBool sw],
    .list [.atom "prescribed", match presc with | some (l, h) => .list [ofNat l, match h with | some h => ofNat h | none => .atom "inf"] | none => .atom "-"],
    .list [.atom "predicted-fail", ofBool predictedFail],
    .list [.atom "doc-valid", match validDoc with | some b => ofBool b | none => .atom "-"],
    .list [.atom "predicted", showPred predP], .list [.atom "tree-predicts-same", ofBool budgetOk]]
  let model := match bad with
    | some b => Sexp.list [model, .list [.atom "bad-step", .atom b.name, ofInt b.delta]]
    | none => model
  let model := match badSize with
    | some b => Sexp.list [model, .list [.atom "bad-size-step", .atom b.name, ofInt b.size, ofNats b.before]]
    | none => model
  pure { agree := staticOk && dynamicOk, holds := cls == "-", cls, model }

/-- `(ctor NAME (ps …))`: on documented-valid points K — the constructor's outcome is what the modelled checks say;
O — the point is accepted. -/
def c16ctor (args : List Sexp) (implOut : Sexp) : Option Verdict := do
  let (name, ps) ← match args with
    | [.atom name, ps] => do pure (name, (← tagged? "ps" ps))
    | _ => none
  let tid ← Tid.ofName name
  let (ns, fs) := splitParams ps
  let out ← list? implOut
  let res ← (field? "res" out).bind atom?
  let okModel ← ctorOkT tid ns fs
  let valid ← docValidT tid ns fs
  -- outside the documented domain nothing is demanded (a constructor may become stricter or more lenient there)
  pure { agree := !valid || okModel == (res == "ok"), holds := !valid || res == "ok",
         cls := if !valid || res == "ok" then "-" else res,
         model := .list [.list [.atom "ctor-ok", ofBool okModel], .list [.atom "doc-valid", ofBool valid]] }

def c16 (input implOut : Sexp) : Option Verdict := do
  if let some args := tagged? "prun" input then return ← c16prun args implOut
  if let some args := tagged? "ctor" input then return ← c16ctor args implOut
  if (tagged? "audit" input).isSome then return ← c16audit implOut
  if let some args := tagged? "sizeprobe" input then return ← c16probe args implOut
  let args ← tagged? "run" input
  let (name, iters, tree) ← match args with
    | [.atom name, _, _, it, _, tree] => (nat? it).map fun i => (name, i, tree)
    | _ => none
  let out ← list? implOut
  let res ← (field? "res" out).bind atom?
  let comp := ofSexp 64 tree
  let scomp := SComp.ofSexp 64 tree
  let eff := effect comp
  let bal := balanced comp
  let presc : Option (Nat × Option Nat) := match out.filterMap (tagged? "prescribed") with
    | [[lo, hi]] => (nat? lo).map fun l => (l, nat? hi)
    | _ => none
  -- the verified static verdict for the prescribed bound (what the `_size` theorems state)
  let sw := match presc with
    | some (l, h) => sizeWithin scomp l h
    | none => false
  let model := Sexp.list [.list [.atom "balanced", ofBool bal],
    .list [.atom "effect", match eff with | some k => ofInt k | none => .atom "none"],
    .list [.atom "opaque", ofBool (hasOpaque comp)],
    .list [.atom "size-within", ofBool sw],
    .list [.atom "sizes", match sizeFinal scomp with | some a => .list (a.map showItv) | none => .atom "none"]]
  if res == "ctor-err" then
    return { agree := true, holds := false, cls := "ctor-err", model }
  let steps := parseSteps ((out.filterMap (tagged? "steps")).headD [])
  let passes := ((out.filterMap (tagged? "passes")).headD []).filterMap fun
    | .list [d, hb, ha, sz] => do pure ((← nat? d), (← intOf? hb), (← intOf? ha), (← intOf? sz))
    | _ => none
  let height := (field? "height" out).bind intOf?
  let itersObs := (field? "iters" out).bind nat?
  let (lo, hi) ← match out.filterMap (tagged? "prescribed") with
    | [[lo, hi]] => some (intOf? lo, intOf? hi)
    | _ => none
  -- O: the property on the implementation's run
  let passLeak := passes.find? fun (_, hb, ha, _) => hb != ha
  let sizeBad := passes.find? fun (d, _, _, sz) =>
    d == 0 && ((match lo with | some l => sz < l | none => false) || (match hi with | some h => sz > h | none => false))
  let failedIn := ((field? "failed-in" out).bind atom?).getD "-"
  -- completed passes per loop-nesting depth (not capped); the scoped local search of ILS has its own bound
  let lcomp := LComp.ofSexp 64 tree
  let pcount := (((out.filterMap (tagged? "pcount")).headD []).filterMap nat?)
  let hasPcount := (out.filterMap (tagged? "pcount")).length == 1
  let p0 := pcount.headD 0
  let p1 := (pcount.drop 1).headD 0
  let innerOk := match scopedConds lcomp with
    | [.iterLt m] => p1 == iters * m
    | _ => p1 == 0
  let itouch := ((field? "itouch" out).bind nat?).getD 0
  let cls :=
    if res != "ok" then s!"{res}@{failedIn}"
    else if itersObs != some iters || (hasPcount && (p0 != iters || !innerOk)) then "iters"
    else match passLeak with
      | some (_, hb, ha, _) => s!"leak{if ha - hb ≥ 0 then "+" else ""}{ha - hb}"
      | none =>
        if height != some 1 then s!"height{match height with | some h => toString h | none => "?"}"
        else if sizeBad.isSome then "size"
        else "-"
  -- K: every executed component changed the height by its declared effect, the tree is fully
  -- known, and what the verified analysis predicts for a balanced tree is what was observed
  let bad := firstBadStep steps
  let predicted := !bal || res != "ok" || (passLeak.isNone && height == some 1)
  -- K (sizes): every executed leaf's size transformer contains what was observed, and where the
  -- verified size analysis answers `true` no outermost pass of an error-free run ended outside the bound
  let leaves := sleaves scomp
  let badSize := steps.find? fun st => !sizeStepOk leaves st
  let sizePredicted := !sw || res != "ok" || sizeBad.isNone
  -- both translators read the same structure
  let sameTree := toLean scomp.erase == toLean comp
  let agree := bad.isNone && !hasOpaque comp && predicted && badSize.isNone && sizePredicted && sameTree &&
    itersExact lcomp && itouch == 0
  let model := match bad with
    | some b => Sexp.list [model, .list [.atom "bad-step", .atom b.name, ofInt b.delta]]
    | none => model
  let model := match badSize with
    | some b => Sexp.list [model, .list [.atom "bad-size-step", .atom b.name, ofInt b.size, ofNats b.before]]
    | none => model
  pure { agree, holds := cls == "-", cls, model }

/-- `--gen`: stdin lines `(tree NAME variant TREE)` ↦ Lean source of `Generated/Templates.lean`. -/
partial def genLoop (h : IO.FS.Stream) (acc : Array String) : IO (Array String) := do
  let line ← h.getLine
  if line.isEmpty then return acc
  match Sexp.parse line.trimAscii.toString with
  | some (.list [.atom "tree", .atom name, .atom v, tree]) =>
    let c := ofSexp 64 tree
    genLoop h (acc.push s!"def {name}_v{v} : Comp := {toLean c}")
  | _ => genLoop h acc

/-- `--gen-sized`: the same stdin ↦ Lean source of `Generated/TemplatesSized.lean` (trees with parameters). -/
partial def genSizedLoop (h : IO.FS.Stream) (acc : Array String) : IO (Array String) := do
  let line ← h.getLine
  if line.isEmpty then return acc
  match Sexp.parse line.trimAscii.toString with
  | some (.list [.atom "tree", .atom name, .atom v, tree]) =>
    let c := SComp.ofSexp 64 tree
    genSizedLoop h (acc.push s!"def {name}_v{v} : SComp := {SComp.toLean c}")
  | _ => genSizedLoop h acc

/-- `--gen-loops`: the same stdin ↦ Lean source of `Generated/TemplatesLoops.lean` (loops with their conditions). -/
partial def genLoopsLoop (h : IO.FS.Stream) (acc : Array String) : IO (Array String) := do
  let line ← h.getLine
  if line.isEmpty then return acc
  match Sexp.parse line.trimAscii.toString with
  | some (.list [.atom "tree", .atom name, .atom v, tree]) =>
    let c := LComp.ofSexp 64 tree
    genLoopsLoop h (acc.push s!"def {name}_v{v} : LComp := {LComp.toLean c}")
  | _ => genLoopsLoop h acc

def main (args : List String) : IO Unit := do
  if args.contains "--gen-loops" then
    let defs ← genLoopsLoop (← IO.getStdin) #[]
    IO.println "/- GENERATED on every run by `harness c16 --trees | drv_c16 --gen-loops` from the component trees that"
    IO.println "   the real template constructors build (serialised through the code's own `Serialize`), keeping the"
    IO.println "   loops, scopes and loop conditions. Do not edit. -/"
    IO.println "import MahfModel.Model.TemplatesLoops"
    IO.println "namespace MahfModel.Generated.Loops"
    IO.println "open MahfModel.Tpl"
    for d in defs do IO.println d
    IO.println "end MahfModel.Generated.Loops"
  else if args.contains "--gen-sized" then
    let defs ← genSizedLoop (← IO.getStdin) #[]
    IO.println "/- GENERATED on every run by `harness c16 --trees | drv_c16 --gen-sized` from the component trees that"
    IO.println "   the real template constructors build (serialised through the code's own `Serialize`), keeping the"
    IO.println "   parameters that determine population sizes. Do not edit. -/"
    IO.println "import MahfModel.Model.TemplatesSize"
    IO.println "namespace MahfModel.Generated.Sized"
    IO.println "open MahfModel.Tpl"
    for d in defs do IO.println d
    IO.println "end MahfModel.Generated.Sized"
  else if args.contains "--gen" then
    let defs ← genLoop (← IO.getStdin) #[]
    IO.println "/- GENERATED on every run by `harness c16 --trees | drv_c16 --gen` from the component trees that"
    IO.println "   the real template constructors build (serialised through the code's own `Serialize`). Do not edit. -/"
    IO.println "import MahfModel.Model.Templates"
    IO.println "namespace MahfModel.Generated"
    IO.println "open MahfModel.Tpl"
    for d in defs do IO.println d
    IO.println "end MahfModel.Generated"
  else
    driverMain (respond c16)
