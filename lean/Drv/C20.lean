import MahfModel.Model.Cro
open MahfModel MahfModel.Cro

namespace C20Drv

def field (name : String) : List Sexp → Option (List Sexp)
  | [] => none
  | x :: xs => match Sexp.tagged? name x with
    | some r => some r
    | none => field name xs

def float1 (name : String) (args : List Sexp) : Option Float := do
  match ← field name args with
  | [x] => x.float?
  | _ => none

def nat1 (name : String) (args : List Sexp) : Option Nat := do
  match ← field name args with
  | [x] => x.nat?
  | _ => none

def ind? : Sexp → Option (Ind Float)
  | .list [t, o] => do pure { tag := ← t.nat?, obj := ← o.float? }
  | _ => none

def pop? : Sexp → Option (Pop Float)
  | .list xs => xs.mapM ind?
  | _ => none

def mol? : Sexp → Option (Mol Float)
  | .list [ke, h, m, t, o] => do
    pure { ke := ← ke.float?, numHit := ← h.nat?, minHit := ← m.nat?, best := { tag := ← t.nat?, obj := ← o.float? } }
  | _ => none

def indS (i : Ind Float) : Sexp := .list [Sexp.ofNat i.tag, Sexp.ofFloat i.obj]
def popS (p : Pop Float) : Sexp := .list (p.map indS)
def molS (m : Mol Float) : Sexp :=
  .list [Sexp.ofFloat m.ke, Sexp.ofNat m.numHit, Sexp.ofNat m.minHit, Sexp.ofNat m.best.tag, Sexp.ofFloat m.best.obj]
def stS (st : St Float) : List Sexp :=
  [.list (.atom "stack" :: st.stack.map popS), .list (.atom "mols" :: st.mols.map molS),
   .list [.atom "buffer", Sexp.ofFloat st.buffer]]
def statusS : Status → Sexp
  | .ok => .atom "ok" | .err => .atom "err" | .panic => .atom "panic"

def st? (args : List Sexp) : Option (St Float) := do
  let stack ← (← field "stack" args).mapM pop?
  let mols ← (← field "mols" args).mapM mol?
  let buffer ← float1 "buffer" args
  pure { stack, mols, buffer }

def sumAbs (l : List Float) : Float := l.foldl (fun a x => a + x.abs) 0.0
def sumL (l : List Float) : Float := l.foldl (· + ·) 0.0

def energyOf (objs kes : List Float) (buf : Float) : Float := sumL objs + sumL kes + buf
def scaleOf (objs kes : List Float) (buf : Float) : Float := sumAbs objs + sumAbs kes + buf.abs

def conserved (o0 k0 : List Float) (b0 : Float) (o1 k1 : List Float) (b1 : Float) : Bool :=
  let e0 := energyOf o0 k0 b0
  let e1 := energyOf o1 k1 b1
  let sc := max (scaleOf o0 k0 b0) (scaleOf o1 k1 b1)
  (e0 - e1).abs ≤ 1e-9 * sc || e0 == e1

def nonneg (kes : List Float) (buf : Float) : Bool := kes.all (· ≥ 0.0) && buf ≥ 0.0

def unit01 (x : Float) : Bool := 0.0 ≤ x && x ≤ 1.0

/-- Is the prepared reaction input inside the property's quantifier? -/
def wellFormed (kind : String) (lr : Float) (st : St Float) : Bool :=
  match st.stack with
  | pPop :: rPop :: pop :: _ =>
    let np := if kind == "decomp" || kind == "inter" then 2 else 1
    let nr := if kind == "inter" || kind == "synth" then 2 else 1
    pPop.length == np && rPop.length == nr && pop.length == st.mols.length &&
    nonneg (st.mols.map (·.ke)) st.buffer && st.buffer.isFinite &&
    (st.mols.all (·.ke.isFinite)) && pop.all (·.obj.isFinite) && pPop.all (·.obj.isFinite) &&
    (if kind == "onwall" then 0.0 ≤ lr && lr < 1.0 else true) &&
    (match rPop with
      | [r] => (position pop r).isSome
      | [r1, r2] => match position pop r1 with
        | some i => (positionOther pop i r2).isSome
        | none => false
      | _ => false)
  | _ => false

def uniqueTags (pop : Pop Float) : Bool :=
  let tags := pop.map (·.tag)
  tags.all (fun t => (tags.filter (· == t)).length == 1)

/-- Every individual that was in the population before and is not a reactant keeps *its* molecule
(kinetic energy and counters) at its new index. -/
def pairsPreserved (pop : Pop Float) (mols : List (Mol Float)) (reactTags : List Nat)
    (pop' : Pop Float) (mols' : List (Mol Float)) : Bool :=
  (List.zip pop' mols').all fun (i', m') =>
    match (List.zip pop mols).find? (fun (i, _) => i.tag == i'.tag) with
    | some (_, m) =>
      reactTags.contains i'.tag || (m.ke == m'.ke && m.numHit == m'.numHit && m.minHit == m'.minHit)
    | none => true

/-- Decomposition and synthesis create fresh molecules for their products (`best` = the product):
the molecule found at a product's index must be the one created for it. -/
def productsPaired (prodTags : List Nat) (pop' : Pop Float) (mols' : List (Mol Float)) : Bool :=
  (List.zip pop' mols').all fun (i', m') => !(prodTags.contains i'.tag) || m'.best.tag == i'.tag

def reactionHolds (kind : String) (lr : Float) (st : St Float) (status : String) (st' : St Float) : Bool × String :=
  if !wellFormed kind lr st then (true, "-") else
  match st.stack with
  | pPop :: rPop :: pop :: rest =>
    if status != "ok" then (false, status) else
    match st'.stack with
    | pop' :: rest' =>
      if !(Sexp.beq (.list (rest'.map popS)) (.list (rest.map popS))) then (false, "frame")
      else if pop'.length != st'.mols.length then (false, "aligned")
      else if !(nonneg (st'.mols.map (·.ke)) st'.buffer) then (false, "negative")
      else if !(conserved (pop.map (·.obj)) (st.mols.map (·.ke)) st.buffer
                  (pop'.map (·.obj)) (st'.mols.map (·.ke)) st'.buffer) then (false, "energy")
      -- the order checks identify individuals by tag: only meaningful when population and products are pairwise distinct
      else if uniqueTags (pop ++ pPop) && !(pairsPreserved pop st.mols (rPop.map (·.tag)) pop' st'.mols) then (false, "order")
      else if uniqueTags (pop ++ pPop) && (kind == "decomp" || kind == "synth") &&
          !(productsPaired (pPop.map (·.tag)) pop' st'.mols) then (false, "order")
      else (true, "-")
    | [] => (false, "frame")
  | _ => (true, "-")

/-- Correspondence of two states: everything that is merely transported (individuals, counters,
remembered bests, stack shape) exactly; energies produced by arithmetic (kinetic energies, buffer)
up to `1e-9` relative to the total energy in play — the association order of the energy sums and
`E·(1−d)` vs `E − E·d` are not part of the property. -/
def stClose (scale : Float) (a b : St Float) : Bool :=
  let cl := fun (x y : Float) => x == y || (x - y).abs ≤ 1e-9 * scale
  Sexp.beq (.list (a.stack.map popS)) (.list (b.stack.map popS)) &&
  a.mols.length == b.mols.length &&
  (List.zip a.mols b.mols).all (fun (m, n) =>
    m.numHit == n.numHit && m.minHit == n.minHit && Sexp.beq (indS m.best) (indS n.best) && cl m.ke n.ke) &&
  cl a.buffer b.buffer

def energyScale (st : St Float) : Float :=
  sumAbs ((st.stack.take 3).flatten.map (·.obj)) + sumAbs (st.mols.map (·.ke)) + st.buffer.abs

def critS : Crit → Sexp
  | .val b => .list [.atom "val", Sexp.ofBool b] | .err => .atom "err" | .panic => .atom "panic"

def reactionCase (kind : String) (args : List Sexp) (implOut : Sexp) : Option Verdict := do
  let st ← st? args
  let lr := (float1 "lr" args).getD 0.0
  match implOut with
  | .list (.atom status :: rest) =>
    let w ← (← field "w" rest).mapM Sexp.float?
    let used ← nat1 "used" rest
    let g := fun (k : Nat) => w.getD k 0.0
    let (r, legal) : Res Float × Bool :=
      if kind == "onwall" then
        let r := onWall lr (g 0) st
        (r, r.draws == 0 || (lr ≤ g 0 && g 0 < 1.0))
      else if kind == "decomp" then
        let r := decomposition (g 0) (g 1) (g 2) (g 3) st
        (r, if r.draws == 1 then unit01 (g 0)
            else if r.draws ≥ 2 then (0.0 ≤ g 1 && g 1 < 1.0 && 0.0 ≤ g 2 && g 2 < 1.0 && (r.draws == 2 || unit01 (g 3)))
            else true)
      else if kind == "inter" then
        let r := intermolecular (g 0) st
        (r, r.draws == 0 || unit01 (g 0))
      else (synthesis st, true)
    let ms := r.status
    let mst := r.st
    let model := Sexp.list (statusS ms :: stS mst)
    let implCore := Sexp.list [.atom status, .list (.atom "stack" :: (← field "stack" rest)),
                               .list (.atom "mols" :: (← field "mols" rest)), .list (.atom "buffer" :: (← field "buffer" rest))]
    let usedOk := used ≥ r.draws && ((used == 0) == (r.draws == 0))
    let agreeState := Sexp.beq model implCore ||
      (statusS ms |>.beq (.atom status)) && (match st? rest with
        | some st' => stClose (energyScale st) mst st'
        | none => false)
    let agree := agreeState && legal && usedOk
    let (holds, cls) := match st? rest with
      | some st' => reactionHolds kind lr st status st'
      | none => (status == "panic" && !wellFormed kind lr st, "unreadable")
    pure { agree, holds, cls := if holds then "-" else cls, model }
  | _ => none

def critCase (kind : String) (args : List Sexp) (implOut : Sexp) : Option Verdict := do
  let st ← st? args
  let r ← if kind == "dcrit" then (nat1 "alpha" args).map (fun a => decompositionCriterion a st)
          else (float1 "beta" args).map (fun b => synthesisCriterion b st)
  let model := critS r
  pure { agree := Sexp.beq model implOut, holds := true, model }

def initCase (args : List Sexp) (implOut : Sexp) : Option Verdict := do
  let st ← st? args
  let ke ← float1 "ke" args
  let ibuf ← float1 "ibuf" args
  match st.stack with
  | [] =>
    let model := Sexp.list (.atom "panic" :: stS { st with mols := [], buffer := ibuf })
    pure { agree := Sexp.beq model implOut, holds := true, model }
  | pop :: _ =>
    let st' := init ke { st with buffer := ibuf }
    let model := Sexp.list (.atom "ok" :: stS st')
    let holds := match implOut with
      | .list (.atom "ok" :: rest) => match st? rest with
        | some o => o.mols.length == pop.length && o.mols.all (fun m => m.ke == ke) &&
                    (List.zip pop o.mols).all (fun (i, m) => i.tag == m.best.tag)
        | none => false
      | _ => false
    pure { agree := Sexp.beq model implOut, holds, cls := if holds then "-" else "aligned", model }

def floats? (s : Sexp) : Option (List Float) :=
  match s with
  | .list xs => xs.mapM Sexp.float?
  | _ => none

/-- One observed step of a `real_cro` run: (ok?, class, wiring-as-modelled?) -/
def stepOk (st : Sexp) : Bool × String × Bool :=
  match st with
  | .list [.atom "pass", h, pn, mn] =>
    match h.nat?, pn.nat?, mn.nat? with
    | some h, some pn, some mn =>
      if h != 1 then (false, "frame", true) else if pn != mn then (false, "aligned", true) else (true, "-", true)
    | _, _, _ => (false, "bad-step", true)
  | .list [.atom "init", _h, objs, kes, _buf] =>
    match objs, floats? kes with
    | .list os, some ks => if os.length == ks.length then (true, "-", true) else (false, "aligned", true)
    | _, _ => (false, "bad-step", true)
  | .list [.atom "upd", _kind, h0, objs0, kes0, buf0, _prods, _reacts, crit, h1, objs1, kes1, buf1] =>
    match h0.nat?, floats? objs0, floats? kes0, buf0.float?, h1.nat?, floats? objs1, floats? kes1, buf1.float? with
    | some h0, some o0, some k0, some b0, some h1, some o1, some k1, some b1 =>
      let wiring := match crit with
        | .list [.atom "crit", taken, _intended, asWired] => Sexp.beq taken asWired
        | _ => false
      if h1 + 2 != h0 then (false, "frame", wiring)
      else if o0.length != k0.length || o1.length != k1.length then (false, "aligned", wiring)
      else if !(nonneg k1 b1) then (false, "negative", wiring)
      else if !(conserved o0 k0 b0 o1 k1 b1) then (false, "energy", wiring)
      else (true, "-", wiring)
    | _, _, _, _, _, _, _, _ => (false, "unevaluated", true)
  | _ => (false, "shape", true)

def runCase (_args : List Sexp) (implOut : Sexp) : Option Verdict := do
  match implOut with
  | .list [.atom status, stepsS] =>
    let steps ← Sexp.tagged? "steps" stepsS
    let rs := steps.map stepOk
    let bad := rs.filter (fun r => !r.1)
    let nUpd := (steps.filter (fun s => match s with | .list (.atom "upd" :: _) => true | _ => false)).length
    let holds := bad.isEmpty && (status != "ok" || nUpd > 0)
    let cls := match bad with
      | (_, c, _) :: _ => c
      | [] => if holds then "-" else "no-update"
    let wiring := rs.all (fun r => r.2.2)
    pure { agree := holds && wiring, holds, cls, model := .list [.atom "updates", Sexp.ofNat nUpd] }
  | _ => none

def handle (input implOut : Sexp) : Option Verdict := do
  match input with
  | .list (.atom kind :: args) =>
    if kind == "onwall" || kind == "decomp" || kind == "inter" || kind == "synth" then reactionCase kind args implOut
    else if kind == "dcrit" || kind == "scrit" then critCase kind args implOut
    else if kind == "init" then initCase args implOut
    else if kind == "run" then runCase args implOut
    else none
  | _ => none

end C20Drv

def main : IO Unit := driverMain (respond C20Drv.handle)
