import MahfModel.Model.Cro
open MahfModel MahfModel.Cro

namespace C20Drv

def field (name : String) : List Sexp → Option (List Sexp)
  | [] => none
  | x :: xs => match Sexp.tagged? name x with
    | some r => some r
    | none => field name xs

def float1 (name : String) (args : List Sexp) : Option Float := do
  match ← field name args with
  | [x] => x.float?
  | _ => none

def nat1 (name : String) (args : List Sexp) : Option Nat := do
  match ← field name args with
  | [x] => x.nat?
  | _ => none

def ind? : Sexp → Option (Ind Float)
  | .list [t, o] => do pure { tag := ← t.nat?, obj := ← o.float? }
  | _ => none

def pop? : Sexp → Option (Pop Float)
  | .list xs => xs.mapM ind?
  | _ => none

def mol? : Sexp → Option (Mol Float)
  | .list [ke, h, m, t, o] => do
    pure { ke := ← ke.float?, numHit := ← h.nat?, minHit := ← m.nat?, best := { tag := ← t.nat?, obj := ← o.float? } }
  | _ => none

def indS (i : Ind Float) : Sexp := .list [Sexp.ofNat i.tag, Sexp.ofFloat i.obj]
def popS (p : Pop Float) : Sexp := .list (p.map indS)
def molS (m : Mol Float) : Sexp :=
  .list [Sexp.ofFloat m.ke, Sexp.ofNat m.numHit, Sexp.ofNat m.minHit, Sexp.ofNat m.best.tag, Sexp.ofFloat m.best.obj]
def stS (st : St Float) : List Sexp :=
  [.list (.atom "stack" :: st.stack.map popS), .list (.atom "mols" :: st.mols.map molS),
   .list [.atom "buffer", Sexp.ofFloat st.buffer]]
def statusS : Status → Sexp
  | .ok => .atom "ok" | .err => .atom "err" | .panic => .atom "panic"

def st? (args : List Sexp) : Option (St Float) := do
  let stack ← (← field "stack" args).mapM pop?
  let mols ← (← field "mols" args).mapM mol?
  let buffer ← float1 "buffer" args
  pure { stack, mols, buffer }

def sumAbs (l : List Float) : Float := l.foldl (fun a x => a + x.abs) 0.0
def sumL (l : List Float) : Float := l.foldl (· + ·) 0.0

def energyOf (objs kes : List Float) (buf : Float) : Float := sumL objs + sumL kes + buf
def scaleOf (objs kes : List Float) (buf : Float) : Float := sumAbs objs + sumAbs kes + buf.abs

def conserved (o0 k0 : List Float) (b0 : Float) (o1 k1 : List Float) (b1 : Float) : Bool :=
  let e0 := energyOf o0 k0 b0
  let e1 := energyOf o1 k1 b1
  let sc := max (scaleOf o0 k0 b0) (scaleOf o1 k1 b1)
  (e0 - e1).abs ≤ 1e-9 * sc || e0 == e1

def nonneg (kes : List Float) (buf : Float) : Bool := kes.all (· ≥ 0.0) && buf ≥ 0.0

def unit01 (x : Float) : Bool := 0.0 ≤ x && x ≤ 1.0

/-- Is the prepared reaction input inside the property's quantifier? -/
def wellFormed (kind : String) (lr : Float) (st : St Float) : Bool :=
  match st.stack with
  | pPop :: rPop :: pop :: _ =>
    let np := if kind == "decomp" || kind == "inter" then 2 else 1
    let nr := if kind == "inter" || kind == "synth" then 2 else 1
    pPop.length == np && rPop.length == nr && pop.length == st.mols.length &&
    nonneg (st.mols.map (·.ke)) st.buffer && st.buffer.isFinite &&
    (st.mols.all (·.ke.isFinite)) && pop.all (·.obj.isFinite) && pPop.all (·.obj.isFinite) &&
    (if kind == "onwall" then 0.0 ≤ lr && lr < 1.0 else true) &&
    (match rPop with
      | [r] => (position pop r).isSome
      | [r1, r2] => match position pop r1 with
        | some i => (positionOther pop i r2).isSome
        | none => false
      | _ => false)
  | _ => false

def uniqueTags (pop : Pop Float) : Bool :=
  let tags := pop.map (·.tag)
  tags.all (fun t => (tags.filter (· == t)).length == 1)

/-- Every individual that was in the population before and is not a reactant keeps *its* molecule
(kinetic energy and counters) at its new index. -/
def pairsPreserved (pop : Pop Float) (mols : List (Mol Float)) (reactTags : List Nat)
    (pop' : Pop Float) (mols' : List (Mol Float)) : Bool :=
  (List.zip pop' mols').all fun (i', m') =>
    match (List.zip pop mols).find? (fun (i, _) => i.tag == i'.tag) with
    | some (_, m) =>
      reactTags.contains i'.tag || (m.ke == m'.ke && m.numHit == m'.numHit && m.minHit == m'.minHit)
    | none => true

/-- Decomposition and synthesis create fresh molecules for their products (`best` = the product):
the molecule found at a product's index must be the one created for it. -/
def productsPaired (prodTags : List Nat) (pop' : Pop Float) (mols' : List (Mol Float)) : Bool :=
  (List.zip pop' mols').all fun (i', m') => !(prodTags.contains i'.tag) || m'.best.tag == i'.tag

def reactionHolds (kind : String) (lr : Float) (st : St Float) (status : String) (st' : St Float) : Bool × String :=
  if !wellFormed kind lr st then (true, "-") else
  match st.stack with
  | pPop :: rPop :: pop :: rest =>
    if status != "ok" then (false, status) else
    match st'.stack with
    | pop' :: rest' =>
      if !(Sexp.beq (.list (rest'.map popS)) (.list (rest.map popS))) then (false, "frame")
      else if pop'.length != st'.mols.length then (false, "aligned")
      else if !(nonneg (st'.mols.map (·.ke)) st'.buffer) then (false, "negative")
      else if !(conserved (pop.map (·.obj)) (st.mols.map (·.ke)) st.buffer
                  (pop'.map (·.obj)) (st'.mols.map (·.ke)) st'.buffer) then (false, "energy")
      -- the order checks identify individuals by tag: only meaningful when population and products are pairwise distinct
      else if uniqueTags (pop ++ pPop) && !(pairsPreserved pop st.mols (rPop.map (·.tag)) pop' st'.mols) then (false, "order")
      else if uniqueTags (pop ++ pPop) && (kind == "decomp" || kind == "synth") &&
          !(productsPaired (pPop.map (·.tag)) pop' st'.mols) then (false, "order")
      else (true, "-")
    | [] => (false, "frame")
  | _ => (true, "-")

/-- Correspondence of two states: everything that is merely transported (individuals, counters,
remembered bests, stack shape) exactly; energies produced by arithmetic (kinetic energies, buffer)
up to `1e-9` relative to the total energy in play — the association order of the energy sums and
`E·(1−d)` vs `E − E·d` are not part of the property. -/
def stClose (scale : Float) (a b : St Float) : Bool :=
  let cl := fun (x y : Float) => x == y || (x - y).abs ≤ 1e-9 * scale
  Sexp.beq (.list (a.stack.map popS)) (.list (b.stack.map popS)) &&
  a.mols.length == b.mols.length &&
  (List.zip a.mols b.mols).all (fun (m, n) =>
    m.numHit == n.numHit && m.minHit == n.minHit && Sexp.beq (indS m.best) (indS n.best) && cl m.ke n.ke) &&
  cl a.buffer b.buffer

def energyScale (st : St Float) : Float :=
  sumAbs ((st.stack.take 3).flatten.map (·.obj)) + sumAbs (st.mols.map (·.ke)) + st.buffer.abs

def critS : Crit → Sexp
  | .val b => .list [.atom "val", Sexp.ofBool b] | .err => .atom "err" | .panic => .atom "panic"

/-- Indices of individuals equal to `r`. -/
def idxOf (pop : Pop Float) (r : Ind Float) : List Nat :=
  (List.range pop.length).filter (fun i => isAt pop i r)

/-- All legal reactant-index witnesses of a frame, the code's own choice (first match) first.
Which of several equal individuals reacts is not part of the property: the implementation agrees
with the model when it agrees for SOME legal witness. -/
def witnesses (st : St Float) : List (Nat × Nat) :=
  let first := (firstIdx st, secondIdx st)
  let others : List (Nat × Nat) := match st.stack with
    | _ :: [r] :: pop :: _ => (idxOf pop r).map (fun i => (i, 0))
    | _ :: [r1, r2] :: pop :: _ =>
      match position pop r1 with
      | none => []
      | some i0 =>
        match positionOther pop i0 r2 with
        | none => []
        | some _ => (idxOf pop r1).flatMap (fun i => ((idxOf pop r2).filter (· != i)).map (fun j => (i, j)))
    | _ => []
  first :: others.filter (fun w => !(w.1 == first.1 && w.2 == first.2))

def unitTol (x : Float) : Bool := -1e-9 ≤ x && x ≤ 1.0 + 1e-9

/-- Draw witnesses read off the implementation's OUTPUT (instead of a replay of the scripted
generator in the order the current code draws): the split ratio is the first product's new kinetic
energy over the energy that was distributed, the buffer share `δ1·δ2` is `1 − buffer'/buffer`.
Order and number of the generator calls are not part of the property; an implementation agrees
with the model when SOME legal draws explain its output.  Returned as `[g0, g1, g2, g3]` in the
model's argument order (`decomp`: dA, δ1, δ2, dB with δ2 = 1). -/
def derivedDraws (kind : String) (lr : Float) (st st' : St Float) (wi wj : Nat) : List Float :=
  match st.stack with
  | pPop :: rPop :: _ :: _ =>
    let keAt := fun (s : St Float) (i : Nat) => ((s.mols[i]?).map (·.ke)).getD 0.0
    let robj := fun (k : Nat) => ((rPop[k]?).map (·.obj)).getD 0.0
    let pobj := fun (k : Nat) => ((pPop[k]?).map (·.obj)).getD 0.0
    let ratio := fun (e : Float) (dflt : Float) => if e > 0.0 then keAt st' wi / e else dflt
    if kind == "onwall" then
      [ratio (robj 0 + keAt st wi - pobj 0) lr]
    else if kind == "decomp" then
      let tot := robj 0 + keAt st wi
      let prods := pobj 0 + pobj 1
      if prods ≤ tot then [ratio (tot - prods) 0.0, 0.0, 0.0, 0.0]
      else
        let deltas := if st.buffer > 0.0 then 1.0 - st'.buffer / st.buffer else 0.0
        [0.0, deltas, 1.0, ratio (tot + deltas * st.buffer - prods) 0.0]
    else if kind == "inter" then
      [ratio ((robj 0 + keAt st wi) + (robj 1 + keAt st wj) - (pobj 0 + pobj 1)) 0.0]
    else []
  | _ => []

def reactionCase (kind : String) (args : List Sexp) (implOut : Sexp) : Option Verdict := do
  let st ← st? args
  let lr := (float1 "lr" args).getD 0.0
  match implOut with
  | .list (.atom status :: rest) =>
    let w ← (← field "w" rest).mapM Sexp.float?
    let used ← nat1 "used" rest
    let g := fun (k : Nat) => w.getD k 0.0
    let run : Nat × Nat → Res Float × Bool := fun (wi, wj) =>
      if kind == "onwall" then
        let r := onWallAt lr (g 0) wi st
        (r, r.draws == 0 || (lr ≤ g 0 && g 0 < 1.0))
      else if kind == "decomp" then
        let r := decompositionAt (g 0) (g 1) (g 2) (g 3) wi st
        (r, if r.draws == 1 then unit01 (g 0)
            else if r.draws ≥ 2 then (0.0 ≤ g 1 && g 1 < 1.0 && 0.0 ≤ g 2 && g 2 < 1.0 && (r.draws == 2 || unit01 (g 3)))
            else true)
      else if kind == "inter" then
        let r := intermolecularAt (g 0) wi wj st
        (r, r.draws == 0 || unit01 (g 0))
      else (synthesisAt wi wj st, true)
    -- the same with draws read off the output (legal up to the tolerance of the division)
    let runDerived : St Float → Nat × Nat → Res Float × Bool := fun st' (wi, wj) =>
      let d := derivedDraws kind lr st st' wi wj
      let h := fun (k : Nat) => d.getD k 0.0
      if kind == "onwall" then
        let r := onWallAt lr (h 0) wi st
        (r, r.draws == 0 || (lr - 1e-9 ≤ h 0 && h 0 ≤ 1.0 + 1e-9))
      else if kind == "decomp" then
        let r := decompositionAt (h 0) (h 1) (h 2) (h 3) wi st
        (r, if r.draws == 1 then unitTol (h 0)
            else if r.draws ≥ 2 then (unitTol (h 1) && (r.draws == 2 || unitTol (h 3)))
            else true)
      else if kind == "inter" then
        let r := intermolecularAt (h 0) wi wj st
        (r, r.draws == 0 || unitTol (h 0))
      else (synthesisAt wi wj st, true)
    let implCore := Sexp.list [.atom status, .list (.atom "stack" :: (← field "stack" rest)),
                               .list (.atom "mols" :: (← field "mols" rest)), .list (.atom "buffer" :: (← field "buffer" rest))]
    let agrees : Res Float × Bool → Bool := fun (r, legal) =>
      let model := Sexp.list (statusS r.status :: stS r.st)
      let usedOk := used ≥ r.draws && ((used == 0) == (r.draws == 0))
      let agreeState := Sexp.beq model implCore ||
        (statusS r.status |>.beq (.atom status)) && (match st? rest with
          | some st' => stClose (energyScale st) r.st st'
          | none => false)
      agreeState && legal && usedOk
    let agreesDerived : Res Float × Bool → Bool := fun (r, legal) =>
      (statusS r.status |>.beq (.atom status)) && legal && (match st? rest with
        | some st' => stClose (energyScale st) r.st st'
        | none => false)
    let ws := witnesses st
    let results := ws.map run
    let resultsD := match st? rest with
      | some st' => ws.map (runDerived st')
      | none => []
    let agree := results.any agrees || resultsD.any agreesDerived
    -- report the agreeing witness' output, else the code's own choice
    let (r, _) := ((results.find? agrees).orElse (fun _ => resultsD.find? agreesDerived)).getD (run (firstIdx st, secondIdx st))
    let model := Sexp.list (statusS r.status :: stS r.st)
    let (holds, cls) := match st? rest with
      | some st' => reactionHolds kind lr st status st'
      | none => (status == "panic" && !wellFormed kind lr st, "unreadable")
    pure { agree, holds, cls := if holds then "-" else cls, model }
  | _ => none

def critCase (kind : String) (args : List Sexp) (implOut : Sexp) : Option Verdict := do
  let st ← st? args
  let r ← if kind == "dcrit" then (nat1 "alpha" args).map (fun a => decompositionCriterion a st)
          else (float1 "beta" args).map (fun b => synthesisCriterion b st)
  let model := critS r
  pure { agree := Sexp.beq model implOut, holds := true, model }

def initCase (args : List Sexp) (implOut : Sexp) : Option Verdict := do
  let st ← st? args
  let ke ← float1 "ke" args
  let ibuf ← float1 "ibuf" args
  match st.stack with
  | [] =>
    let model := Sexp.list (.atom "panic" :: stS { st with mols := [], buffer := ibuf })
    pure { agree := Sexp.beq model implOut, holds := true, model }
  | pop :: _ =>
    let st' := init ke { st with buffer := ibuf }
    let model := Sexp.list (.atom "ok" :: stS st')
    let holds := match implOut with
      | .list (.atom "ok" :: rest) => match st? rest with
        | some o => o.mols.length == pop.length && o.mols.all (fun m => m.ke == ke) &&
                    (List.zip pop o.mols).all (fun (i, m) => i.tag == m.best.tag)
        | none => false
      | _ => false
    pure { agree := Sexp.beq model implOut, holds, cls := if holds then "-" else "aligned", model }

def floats? (s : Sexp) : Option (List Float) :=
  match s with
  | .list xs => xs.mapM Sexp.float?
  | _ => none

/-- One observed step of a `real_cro` run: (ok?, class, wiring-as-modelled?) -/
def stepOk (st : Sexp) : Bool × String × Bool :=
  match st with
  | .list [.atom "pass", h, pn, mn] =>
    match h.nat?, pn.nat?, mn.nat? with
    | some h, some pn, some mn =>
      if h != 1 then (false, "frame", true) else if pn != mn then (false, "aligned", true) else (true, "-", true)
    | _, _, _ => (false, "bad-step", true)
  | .list [.atom "init", _h, objs, kes, _buf] =>
    match objs, floats? kes with
    | .list os, some ks => if os.length == ks.length then (true, "-", true) else (false, "aligned", true)
    | _, _ => (false, "bad-step", true)
  | .list [.atom "upd", _kind, h0, objs0, kes0, buf0, _prods, _reacts, crit, h1, objs1, kes1, buf1] =>
    match h0.nat?, floats? objs0, floats? kes0, buf0.float?, h1.nat?, floats? objs1, floats? kes1, buf1.float? with
    | some h0, some o0, some k0, some b0, some h1, some o1, some k1, some b1 =>
      let wiring := match crit with
        | .list [.atom "crit", taken, _intended, asWired] => Sexp.beq taken asWired
        | _ => false
      if h1 + 2 != h0 then (false, "frame", wiring)
      else if o0.length != k0.length || o1.length != k1.length then (false, "aligned", wiring)
      else if !(nonneg k1 b1) then (false, "negative", wiring)
      else if !(conserved o0 k0 b0 o1 k1 b1) then (false, "energy", wiring)
      else (true, "-", wiring)
    | _, _, _, _, _, _, _, _ => (false, "unevaluated", true)
  | _ => (false, "shape", true)

/-- The (objectives, kinetic energies, buffer) a step starts from / leaves behind. -/
def stepBefore (st : Sexp) : Option (List Float × List Float × Float) :=
  match st with
  | .list [.atom "init", _h, objs, kes, buf] => do pure (← floats? objs, ← floats? kes, ← buf.float?)
  | .list [.atom "upd", _kind, _h0, objs0, kes0, buf0, _prods, _reacts, _crit, _h1, _objs1, _kes1, _buf1] =>
    do pure (← floats? objs0, ← floats? kes0, ← buf0.float?)
  | _ => none
def stepAfter (st : Sexp) : Option (List Float × List Float × Float) :=
  match st with
  | .list [.atom "init", _h, objs, kes, buf] => do pure (← floats? objs, ← floats? kes, ← buf.float?)
  | .list [.atom "upd", _kind, _h0, _objs0, _kes0, _buf0, _prods, _reacts, _crit, _h1, objs1, kes1, buf1] =>
    do pure (← floats? objs1, ← floats? kes1, ← buf1.float?)
  | _ => none

/-- History oracle: between two reaction updates (and between the molecule initialisation and the
first update) nothing may change the energy: what update k leaves behind is what update k+1 starts
from (same number of individuals / molecules, same total energy). Returns the number of leaks. -/
def chainLeaks : List Sexp → Option (List Float × List Float × Float) → Nat
  | [], _ => 0
  | s :: ss, last =>
    let here := match last, stepBefore s with
      | some (o0, k0, b0), some (o1, k1, b1) =>
        if o0.length == o1.length && k0.length == k1.length && conserved o0 k0 b0 o1 k1 b1 then 0 else 1
      | _, _ => 0
    let next := match stepAfter s with
      | some x => some x
      | none => match s with
        | .list (.atom "pass" :: _) => last
        | _ => none
    here + chainLeaks ss next

def runCase (_args : List Sexp) (implOut : Sexp) : Option Verdict := do
  match implOut with
  | .list [.atom status, stepsS] =>
    let steps ← Sexp.tagged? "steps" stepsS
    let rs := steps.map stepOk
    let leaks := chainLeaks steps none
    let bad := rs.filter (fun r => !r.1) ++ (if leaks > 0 then [(false, "leak", true)] else [])
    let nUpd := (steps.filter (fun s => match s with | .list (.atom "upd" :: _) => true | _ => false)).length
    let holds := bad.isEmpty && (status != "ok" || nUpd > 0)
    let cls := match bad with
      | (_, c, _) :: _ => c
      | [] => if holds then "-" else "no-update"
    let wiring := rs.all (fun r => r.2.2)
    pure { agree := holds && wiring, holds, cls, model := .list [.atom "updates", Sexp.ofNat nUpd] }
  | _ => none

def handle (input implOut : Sexp) : Option Verdict := do
  match input with
  | .list (.atom kind :: args) =>
    if kind == "onwall" || kind == "decomp" || kind == "inter" || kind == "synth" then reactionCase kind args implOut
    else if kind == "dcrit" || kind == "scrit" then critCase kind args implOut
    else if kind == "init" then initCase args implOut
    else if kind == "run" then runCase args implOut
    else none
  | _ => none

end C20Drv

def main : IO Unit := driverMain (respond C20Drv.handle)
