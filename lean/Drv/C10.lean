import MahfModel.Model.Conditions
open MahfModel MahfModel.Sexp MahfModel.Conditions

/-! Driver for C10: `agree` = code-shaped model reproduces the implementation's output,
`holds` = the property's predicate (specification side) on the implementation's output. -/

def tag (t : String) (xs : List Sexp) : Sexp := .list (.atom t :: xs)

def verdict (agree holds : Bool) (cls : String) (model : Sexp) : Verdict :=
  { agree, holds, cls := if holds then "-" else cls, model }

/-- Floats on the wire: NaN is canonicalised (its payload is not part of any property). -/
def fxn (f : Float) : Sexp := if f.isNaN then .atom "nan" else Sexp.ofFloat f

def floatOrNan? : Sexp → Option Float
  | .atom "nan" => some (0.0 / 0.0)
  | s => float? s

def ltOut (r : Bool) (p : Float) : Sexp := .list [tag "r" [ofBool r], tag "progress" [fxn p]]

def caseLtNat (n v : Nat) (impl : Sexp) : Verdict :=
  let m := lessThanN Nat.toFloat n v
  let model := ltOut m.1 m.2
  -- property: true exactly while value < n; progress = value / n
  let spec := ltOut (decide (v < n)) (v.toFloat / n.toFloat)
  verdict (Sexp.beq model impl) (Sexp.beq spec impl) "wrong-value" model

def caseLtFloat (n v : Float) (impl : Sexp) : Verdict :=
  let m := lessThanN (fun x : Float => x) n v
  let model := ltOut m.1 m.2
  let spec := ltOut (decide (v < n)) (v / n)
  verdict (Sexp.beq model impl) (Sexp.beq spec impl) "wrong-value" model

def caseEvery (n v : Nat) (impl : Sexp) : Verdict :=
  let model := tag "r" [ofBool (everyN n v)]
  -- property: true exactly on multiples of n (0 ∣ v ↔ v = 0)
  let spec := tag "r" [ofBool (if n == 0 then v == 0 else v % n == 0)]
  let cls := match impl with
    | .atom "panic" => "panic"
    | _ => "wrong-value"
  verdict (Sexp.beq model impl) (Sexp.beq spec impl) cls model

def caseOpt (eps : Float) (best : Option Float) (opt : Float) (impl : Sexp) : Verdict :=
  match optimumReachedNew eps with
  | none =>
    let model := Sexp.list [.atom "e", .atom "ctor"]
    verdict (Sexp.beq model impl) (Sexp.beq model impl) "wrong-value" model
  | some e =>
    let model := tag "r" [ofBool (optimumReached e best opt)]
    -- property: a best value exists and is within epsilon of the optimum (either rounding of "within")
    -- Domain (theorem `optimumReached_iff`, hypothesis `hlb`): the known optimum is a lower bound of
    -- the best value; a best value below it is outside the property — nothing is demanded there.
    let s1 := match best with | some b => decide (b ≤ opt + e) | none => false
    let s2 := match best with | some b => decide ((b - opt).abs ≤ e) | none => false
    let outside := match best with | some b => decide (b < opt) | none => false
    let holds := outside || Sexp.beq (tag "r" [ofBool s1]) impl || Sexp.beq (tag "r" [ofBool s2]) impl
    verdict (Sexp.beq model impl) holds "wrong-value" model

def bools? (s : Sexp) : Option (List Bool) :=
  match s with
  | .list xs => xs.mapM bool?
  | _ => none

/-- Specification of change-of on the implementation's own report history: the k-th verdict is true
iff nothing was reported before or the value differs from the one last reported. -/
def chgSpecOk (differs : Nat → Nat → Bool) (vals : List Nat) (outs : List Bool) : Bool :=
  vals.length == outs.length &&
  (List.range vals.length).all fun k =>
    match vals[k]?, outs[k]? with
    | some v, some o =>
      let expected := match lastReported (vals.take k) (outs.take k) with
        | none => true
        | some p => differs v p
      o == expected
    | _, _ => false

def caseChg (th : Option Nat) (vals : List Nat) (impl : Sexp) : Verdict :=
  let outs := match th with
    | none => changeOfRun (partialEq (V := Nat)) none vals
    | some t => changeOfRun (deltaEq t) none vals
  let model := Sexp.list (outs.map ofBool)
  let differs : Nat → Nat → Bool := match th with
    | none => fun a b => a != b
    | some t => fun a b => decide ((if a < b then b - a else a - b) ≥ t)
  let holds := match bools? impl with
    | some os => chgSpecOk differs vals os
    | none => false
  verdict (Sexp.beq model impl) holds "wrong-value" model

def chgSpecOkF (differs : Float → Float → Bool) (vals : List Float) (outs : List Bool) : Bool :=
  vals.length == outs.length &&
  (List.range vals.length).all fun k =>
    match vals[k]?, outs[k]? with
    | some v, some o =>
      let expected := match lastReported (vals.take k) (outs.take k) with
        | none => true
        | some p => differs v p
      o == expected
    | _, _ => false

/-- Objective-valued ChangeOf: the carrier is `Float` (the values are legal objectives: no NaN). -/
def caseChgObj (th : Option Float) (vals : List Float) (impl : Sexp) : Verdict :=
  let outs := match th with
    | none => changeOfRun (fun a b : Float => a == b) none vals
    | some t => changeOfRun (deltaEqG t) none vals
  let model := Sexp.list (outs.map ofBool)
  -- "differs by the measure": the distance (0 between equal values, also between +inf and +inf)
  -- is not below the threshold
  let differs : Float → Float → Bool := match th with
    | none => fun a b => !(a == b)
    | some t => fun a b => !((if a == b then 0.0 else (a - b).abs) < t)
  let holds := match bools? impl with
    | some os => chgSpecOkF differs vals os
    | none => false
  -- tie the exact-value model `deltaEqObj` (the counterexample theorems speak about it) to the run:
  -- wherever it decides, it must say what the float computation says
  let exactOk := match th with
    | none => true
    | some t =>
      let pairs := vals.zip (vals.drop 1) ++ vals.map fun v => (v, v)
      pairs.all fun (a, b) =>
        match deltaEqObj (Objective.ofBits t.toBits) (Objective.ofBits a.toBits) (Objective.ofBits b.toBits) with
        | some r => deltaEqG t a b == r
        | none => true
  verdict (Sexp.beq model impl && exactOk) holds "wrong-value" model

/-! Several ChangeOf conditions, re-initialisation, scopes -/

def lens? : Sexp → Option Nat
  | .atom "it" => some 0
  | .atom "ev" => some 1
  | .atom "oa" => some 2
  | .atom "ob" => some 3
  | _ => none

def condSpec? : Sexp → Option CondSpec
  | .list [.atom "c", l, .atom "pe"] => (lens? l).map fun k => { lens := k, key := k, th := none }
  | .list [.atom "c", l, .list [.atom "de", t]] => do
    let k ← lens? l
    let t ← nat? t
    pure { lens := k, key := k, th := some t }
  | _ => none

/-- `fuel` bounds the nesting depth of scopes only. -/
def parseItems : Nat → List Sexp → Option Items
  | 0, _ => none
  | fuel + 1, xs => go fuel xs
where
  go (fuel : Nat) : List Sexp → Option Items
    | [] => some .nil
    | x :: xs => do
      let i ← match x with
        | .list [.atom "set", l, v] => do pure (Item.ev (.set (← lens? l) (← nat? v)))
        | .list [.atom "eval", c] => do pure (Item.ev (.eval (← nat? c)))
        | .list [.atom "init", c] => do pure (Item.ev (.init (← nat? c)))
        | .list (.atom "scope" :: body) => do pure (Item.scope (← parseItems fuel body))
        | _ => none
      let rest ← go fuel xs
      pure (.cons i rest)

def flatEvs? : Items → Option (List Ev)
  | .nil => some []
  | .cons (.ev e) is => (flatEvs? is).map (e :: ·)
  | .cons (.scope _) _ => none

def logSexp (log : List (Nat × Option Bool)) : Sexp :=
  .list [tag "res" [.atom "ok"], tag "log" (log.map fun (c, r) =>
    .list [ofNat c, match r with | some b => ofBool b | none => .atom "err"])]

/-- Model: `Previous` is keyed by the lens (the code). Specification: every condition remembers
what IT reported — the same run with a private key per condition. -/
def caseChgMulti (conds : List CondSpec) (items : Items) (flat : Option (List Ev)) (impl : Sexp) : Verdict :=
  let condOf : Nat → CondSpec := fun c => (conds[c]?).getD { lens := 0, key := 0, th := none }
  let modelLog := runItems condOf items
  let model := logSexp modelLog
  let specOf : Nat → CondSpec := fun c => { condOf c with key := 100 + c }
  let spec := logSexp (runItems specOf items)
  -- the flat model the theorems speak about must say the same on scope-free cases
  let flatOk := match flat with
    | some evs =>
      let s0 : MSt := { vals := fun _ => 0, stack := [fun _ => none] }
      runFlat condOf (initItems condOf items s0) evs == modelLog
    | none => true
  verdict (Sexp.beq model impl && flatOk) (Sexp.beq spec impl) "wrong-value" model

def caseLoopChg (th : Option Nat) (entries v0 : Nat) (script : List Nat) (impl : Sexp) : Verdict :=
  let eqv : Nat → Nat → Bool := match th with
    | none => partialEq
    | some t => deltaEq t
  let model := match loopChangeRun eqv entries v0 script with
    | some ps => Sexp.list [tag "res" [.atom "ok"], tag "passes" (ps.map ofNat)]
    | none => .atom "timeout"
  let cls := match impl with
    | .atom "panic" => "panic"
    | _ => "count"
  verdict (Sexp.beq model impl) (Sexp.beq model impl) cls model

def isPrefix : List Nat → List Nat → Bool
  | [], _ => true
  | _ :: _, [] => false
  | x :: xs, y :: ys => x == y && isPrefix xs ys

def caseForm (f : Form) (env : Env) (impl : Sexp) : Verdict :=
  let m := eval env f []
  let model := Sexp.list [tag "r" [resSexp m.1], tag "log" (m.2.map ofNat)]
  let holds := match impl with
    | .list [.list [.atom "r", r], .list (.atom "log" :: lg)] =>
      match lg.mapM nat? with
      | none => false
      | some log =>
        if errFree env f then
          -- property: Boolean combination; every operand exactly once, in order
          Sexp.beq r (ofBool (sem (fun o => (env o).toBool) f)) && log == leaves f
        else
          Sexp.beq r (.atom "err") && isPrefix log (leaves f)
    | _ => false
  let cls := match impl with
    | .list [.list [.atom "r", r], .list (.atom "log" :: lg)] =>
      if (lg.mapM nat?) == some (leaves f) || !(errFree env f) then
        (if Sexp.beq r (.atom "err") then "err" else "wrong-value") else "count"
    | _ => "panic"
  verdict (Sexp.beq model impl) holds cls model

def caseChance (p : UInt64) (words : List Nat) (impl : Sexp) : Verdict :=
  let b := bernoulliNew (Objective.ofBits p)
  let model := match randomChanceRun b words.length words with
    | .ok (rs, rest) => Sexp.list [tag "r" (rs.map ofBool), tag "used" [ofNat (words.length - rest.length)]]
    | .panic => .atom "panic"
  -- The property speaks about the probability only, which no single scripted word can refute (that is
  -- the frequency test's job); the exact word → bool mapping is checked by `agree`. What a single
  -- evaluation can refute: `p = 1` must fire, `p = 0` must not, a legal `p` must not panic.
  -- An invalid `p` is not a probability: nothing is demanded of it.
  let outs : Option (List Bool) := match impl with
    | .list [.list (.atom "r" :: rs), _] => rs.mapM bool?
    | _ => none
  let isZero := Objective.ofBits p == .fin 0
  let holds := match b, outs with
    | .invalid, _ => true
    | .always, some rs => rs.all id
    | .thr _, some rs => !isZero || rs.all (!·)
    | _, none => false
  verdict (Sexp.beq model impl) holds (if outs.isNone then "panic" else "wrong-value") model

def caseFreq (p : Float) (n : Nat) (impl : Sexp) : Verdict :=
  let expect := p * n.toFloat
  let sigma := Float.sqrt (n.toFloat * p * (1.0 - p))
  let model := Sexp.list [tag "expect" [ofNat expect.round.toUInt64.toNat], tag "sigma5" [ofNat (5.0 * sigma).ceil.toUInt64.toNat]]
  let holds := match impl with
    | .list [.atom "count", c] =>
      match nat? c with
      | some c => (c.toFloat - expect).abs ≤ 5.0 * sigma + 0.5
      | none => false
    | _ => false
  verdict holds holds "frequency" model

def loopOut (passes tests counter iters : Nat) (progress : Float) : Sexp :=
  .list [tag "res" [.atom "ok"], tag "passes" [ofNat passes], tag "tests" [ofNat tests],
         tag "counter" [ofNat counter], tag "iters" [ofNat iters], tag "progress" [fxn progress]]

def caseLoop (n step : Nat) (byEvals : Bool) (impl : Sexp) : Verdict :=
  let model := match loopRun Nat.toFloat n step 0 (n + 2) with
    | some s => loopOut s.passes s.tests s.counter s.passes s.progress
    | none => .atom "timeout"
  -- property: exactly ⌈n/step⌉ passes (n for the iteration counter), one more test, progress = counter / n
  let passes := (n + step - 1) / step
  let spec := loopOut passes (passes + 1) (passes * step) passes ((passes * step).toFloat / n.toFloat)
  let _ := byEvals
  let cls := match impl with
    | .atom "panic" => "panic"
    | _ => "count"
  verdict (Sexp.beq model impl) (Sexp.beq spec impl) cls model

def envOf (os : List Res) : Env := fun i => (os[i]?).getD .err

def c10 (input implOut : Sexp) : Option Verdict :=
  match input with
  | .list [.atom "lt", .atom "f", n, v] => do caseLtFloat (← float? n) (← float? v) implOut
  | .list [.atom "lt", _, n, v] => do caseLtNat (← nat? n) (← nat? v) implOut
  | .list [.atom "every", n, v] => do caseEvery (← nat? n) (← nat? v) implOut
  | .list [.atom "opt", e, .atom "none", o] => do caseOpt (← float? e) none (← float? o) implOut
  | .list [.atom "opt", e, .list [.atom "some", b], o] => do
    caseOpt (← float? e) (some (← float? b)) (← float? o) implOut
  | .list [.atom "chg", .atom "pe", .list (.atom "vals" :: vs)] => do caseChg none (← vs.mapM nat?) implOut
  | .list [.atom "chg", .list [.atom "de", t], .list (.atom "vals" :: vs)] => do
    caseChg (some (← nat? t)) (← vs.mapM nat?) implOut
  | .list [.atom "chgo", .atom "pe", .list (.atom "vals" :: vs)] => do caseChgObj none (← vs.mapM float?) implOut
  | .list [.atom "chgo", .list [.atom "de", t], .list (.atom "vals" :: vs)] => do
    caseChgObj (some (← float? t)) (← vs.mapM float?) implOut
  | .list [.atom "chgm", .list (.atom "conds" :: cs), .list (.atom "items" :: is)] => do
    let conds ← cs.mapM condSpec?
    let items ← parseItems 16 is
    caseChgMulti conds items (flatEvs? items) implOut
  | .list [.atom "loopchg", _, ck, e, v0, .list (.atom "script" :: sc)] => do
    let th ← match ck with
      | .atom "pe" => some none
      | .list [.atom "de", t] => (nat? t).map some
      | _ => none
    caseLoopChg th (← nat? e) (← nat? v0) (← sc.mapM nat?) implOut
  | .list [.atom "form", f, .list (.atom "env" :: os)] => do
    let (g, _) ← parseForm 64 f 0
    caseForm g (envOf (← os.mapM res?)) implOut
  | .list [.atom "chance", p, .list (.atom "words" :: ws)] => do caseChance (← bits? p) (← ws.mapM nat?) implOut
  | .list [.atom "freq", p, _, n] => do caseFreq (← float? p) (← nat? n) implOut
  | .list [.atom "loop", .atom "i", n] => do caseLoop (← nat? n) 1 false implOut
  | .list [.atom "loop", .atom "e", n, s] => do caseLoop (← nat? n) (← nat? s) true implOut
  | _ => none

def main : IO Unit := driverMain (respond c10)
