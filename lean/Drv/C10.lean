import MahfModel.Model.Conditions
import MahfModel.Model.ConditionsLoops
import MahfModel.Model.ConditionsNested
open MahfModel MahfModel.Sexp MahfModel.Conditions

/-! Driver for C10: `agree` = code-shaped model reproduces the implementation's output,
`holds` = the property's predicate (specification side) on the implementation's output. -/

def tag (t : String) (xs : List Sexp) : Sexp := .list (.atom t :: xs)

def verdict (agree holds : Bool) (cls : String) (model : Sexp) : Verdict :=
  { agree, holds, cls := if holds then "-" else cls, model }

/-- Floats on the wire: NaN is canonicalised (its payload is not part of any property). -/
def fxn (f : Float) : Sexp := if f.isNaN then .atom "nan" else Sexp.ofFloat f

def floatOrNan? : Sexp → Option Float
  | .atom "nan" => some (0.0 / 0.0)
  | s => float? s

def ltOut (r : Bool) (p : Float) : Sexp := .list [tag "r" [ofBool r], tag "progress" [fxn p]]

def caseLtNat (n v : Nat) (impl : Sexp) : Verdict :=
  let m := lessThanN Nat.toFloat n v
  let model := ltOut m.1 m.2
  -- property: true exactly while value < n; progress = value / n
  let spec := ltOut (decide (v < n)) (v.toFloat / n.toFloat)
  verdict (Sexp.beq model impl) (Sexp.beq spec impl) "wrong-value" model

def caseLtFloat (n v : Float) (impl : Sexp) : Verdict :=
  let m := lessThanN (fun x : Float => x) n v
  let model := ltOut m.1 m.2
  let spec := ltOut (decide (v < n)) (v / n)
  verdict (Sexp.beq model impl) (Sexp.beq spec impl) "wrong-value" model

def caseEvery (n v : Nat) (impl : Sexp) : Verdict :=
  let model := tag "r" [ofBool (everyN n v)]
  -- property: true exactly on multiples of n (0 ∣ v ↔ v = 0)
  let spec := tag "r" [ofBool (if n == 0 then v == 0 else v % n == 0)]
  let cls := match impl with
    | .atom "panic" => "panic"
    | _ => "wrong-value"
  verdict (Sexp.beq model impl) (Sexp.beq spec impl) cls model

def caseOpt (eps : Float) (best : Option Float) (opt : Float) (impl : Sexp) : Verdict :=
  match optimumReachedNew eps with
  | none =>
    let model := Sexp.list [.atom "e", .atom "ctor"]
    verdict (Sexp.beq model impl) (Sexp.beq model impl) "wrong-value" model
  | some e =>
    let model := tag "r" [ofBool (optimumReached e best opt)]
    -- property: a best value exists and is within epsilon of the optimum (either rounding of "within")
    -- Domain (theorem `optimumReached_iff`, hypothesis `hlb`): the known optimum is a lower bound of
    -- the best value; a best value below it is outside the property — nothing is demanded there.
    let s1 := match best with | some b => decide (b ≤ opt + e) | none => false
    let s2 := match best with | some b => decide ((b - opt).abs ≤ e) | none => false
    let outside := match best with | some b => decide (b < opt) | none => false
    let holds := outside || Sexp.beq (tag "r" [ofBool s1]) impl || Sexp.beq (tag "r" [ofBool s2]) impl
    verdict (Sexp.beq model impl) holds "wrong-value" model

def bools? (s : Sexp) : Option (List Bool) :=
  match s with
  | .list xs => xs.mapM bool?
  | _ => none

/-- Specification of change-of on the implementation's own report history: the k-th verdict is true
iff nothing was reported before or the value differs from the one last reported. -/
def chgSpecOk (differs : Nat → Nat → Bool) (vals : List Nat) (outs : List Bool) : Bool :=
  vals.length == outs.length &&
  (List.range vals.length).all fun k =>
    match vals[k]?, outs[k]? with
    | some v, some o =>
      let expected := match lastReported (vals.take k) (outs.take k) with
        | none => true
        | some p => differs v p
      o == expected
    | _, _ => false

def caseChg (th : Option Nat) (vals : List Nat) (impl : Sexp) : Verdict :=
  let outs := match th with
    | none => changeOfRun (partialEq (V := Nat)) none vals
    | some t => changeOfRun (deltaEq t) none vals
  let model := Sexp.list (outs.map ofBool)
  let differs : Nat → Nat → Bool := match th with
    | none => fun a b => a != b
    | some t => fun a b => decide ((if a < b then b - a else a - b) ≥ t)
  let holds := match bools? impl with
    | some os => chgSpecOk differs vals os
    | none => false
  verdict (Sexp.beq model impl) holds "wrong-value" model

def chgSpecOkF (differs : Float → Float → Bool) (vals : List Float) (outs : List Bool) : Bool :=
  vals.length == outs.length &&
  (List.range vals.length).all fun k =>
    match vals[k]?, outs[k]? with
    | some v, some o =>
      let expected := match lastReported (vals.take k) (outs.take k) with
        | none => true
        | some p => differs v p
      o == expected
    | _, _ => false

/-- Objective-valued ChangeOf: the carrier is `Float` (the values are legal objectives: no NaN). -/
def caseChgObj (th : Option Float) (vals : List Float) (impl : Sexp) : Verdict :=
  let outs := match th with
    | none => changeOfRun (fun a b : Float => a == b) none vals
    | some t => changeOfRun (deltaEqG t) none vals
  let model := Sexp.list (outs.map ofBool)
  -- "differs by the measure": the distance (0 between equal values, also between +inf and +inf)
  -- is not below the threshold
  let differs : Float → Float → Bool := match th with
    | none => fun a b => !(a == b)
    | some t => fun a b => !((if a == b then 0.0 else (a - b).abs) < t)
  let holds := match bools? impl with
    | some os => chgSpecOkF differs vals os
    | none => false
  -- tie the exact-value model `deltaEqObj` (the counterexample theorems speak about it) to the run:
  -- wherever it decides, it must say what the float computation says
  let exactOk := match th with
    | none => true
    | some t =>
      let pairs := vals.zip (vals.drop 1) ++ vals.map fun v => (v, v)
      pairs.all fun (a, b) =>
        match deltaEqObj (Objective.ofBits t.toBits) (Objective.ofBits a.toBits) (Objective.ofBits b.toBits) with
        | some r => deltaEqG t a b == r
        | none => true
  verdict (Sexp.beq model impl && exactOk) holds "wrong-value" model

/-! Several ChangeOf conditions, re-initialisation, scopes -/

def lens? : Sexp → Option Nat
  | .atom "it" => some 0
  | .atom "ev" => some 1
  | .atom "oa" => some 2
  | .atom "ob" => some 3
  | _ => none

def condSpec? : Sexp → Option CondSpec
  | .list [.atom "c", l, .atom "pe"] => (lens? l).map fun k => { lens := k, key := k, th := none }
  | .list [.atom "c", l, .list [.atom "de", t]] => do
    let k ← lens? l
    let t ← nat? t
    pure { lens := k, key := k, th := some t }
  | _ => none

/-- `fuel` bounds the nesting depth of scopes only. -/
def parseItems : Nat → List Sexp → Option Items
  | 0, _ => none
  | fuel + 1, xs => go fuel xs
where
  go (fuel : Nat) : List Sexp → Option Items
    | [] => some .nil
    | x :: xs => do
      let i ← match x with
        | .list [.atom "set", l, v] => do pure (Item.ev (.set (← lens? l) (← nat? v)))
        | .list [.atom "eval", c] => do pure (Item.ev (.eval (← nat? c)))
        | .list [.atom "init", c] => do pure (Item.ev (.init (← nat? c)))
        | .list (.atom "scope" :: body) => do pure (Item.scope (← parseItems fuel body))
        | _ => none
      let rest ← go fuel xs
      pure (.cons i rest)

def flatEvs? : Items → Option (List Ev)
  | .nil => some []
  | .cons (.ev e) is => (flatEvs? is).map (e :: ·)
  | .cons (.scope _) _ => none

def logSexp (log : List (Nat × Option Bool)) : Sexp :=
  .list [tag "res" [.atom "ok"], tag "log" (log.map fun (c, r) =>
    .list [ofNat c, match r with | some b => ofBool b | none => .atom "err"])]

/-- Model: `Previous` is keyed by the lens (the code). Specification: every condition remembers
what IT reported — the same run with a private key per condition. -/
def caseChgMulti (conds : List CondSpec) (items : Items) (flat : Option (List Ev)) (impl : Sexp) : Verdict :=
  let condOf : Nat → CondSpec := fun c => (conds[c]?).getD { lens := 0, key := 0, th := none }
  let modelLog := runItems condOf items
  let model := logSexp modelLog
  let specOf : Nat → CondSpec := fun c => { condOf c with key := 100 + c }
  let spec := logSexp (runItems specOf items)
  -- the flat model the theorems speak about must say the same on scope-free cases
  let flatOk := match flat with
    | some evs =>
      let s0 : MSt := { vals := fun _ => 0, stack := [fun _ => none] }
      runFlat condOf (initItems condOf items s0) evs == modelLog
    | none => true
  verdict (Sexp.beq model impl && flatOk) (Sexp.beq spec impl) "wrong-value" model

def caseLoopChg (th : Option Nat) (entries v0 : Nat) (script : List Nat) (impl : Sexp) : Verdict :=
  let eqv : Nat → Nat → Bool := match th with
    | none => partialEq
    | some t => deltaEq t
  let model := match loopChangeRun eqv entries v0 script with
    | some ps => Sexp.list [tag "res" [.atom "ok"], tag "passes" (ps.map ofNat)]
    | none => .atom "timeout"
  let cls := match impl with
    | .atom "panic" => "panic"
    | _ => "count"
  verdict (Sexp.beq model impl) (Sexp.beq model impl) cls model

def isPrefix : List Nat → List Nat → Bool
  | [], _ => true
  | _ :: _, [] => false
  | x :: xs, y :: ys => x == y && isPrefix xs ys

def caseForm (f : Form) (env : Env) (impl : Sexp) : Verdict :=
  let m := eval env f []
  -- `init` of a connective initialises every operand exactly once (K only: the harness reports the sorted tags)
  let model := Sexp.list [tag "r" [resSexp m.1], tag "log" (m.2.map ofNat), tag "inits" ((leaves f).map ofNat)]
  let holds := match impl with
    | .list [.list [.atom "r", r], .list (.atom "log" :: lg), _] =>
      match lg.mapM nat? with
      | none => false
      | some log =>
        if errFree env f then
          -- property: Boolean combination; every operand exactly once, in order
          Sexp.beq r (ofBool (sem (fun o => (env o).toBool) f)) && log == leaves f
        else
          Sexp.beq r (.atom "err") && isPrefix log (leaves f)
    | _ => false
  let cls := match impl with
    | .list [.list [.atom "r", r], .list (.atom "log" :: lg), _] =>
      if (lg.mapM nat?) == some (leaves f) || !(errFree env f) then
        (if Sexp.beq r (.atom "err") then "err" else "wrong-value") else "count"
    | _ => "panic"
  verdict (Sexp.beq model impl) holds cls model

/-- Number of equidistant words of a sweep (`2^64 / 4096 = 2^52` apart). -/
def sweepN : Nat := 4096

/-- RandomChance on held words. The property speaks about the probability only; it fixes neither which
generator words fire nor how many are drawn. What every correct implementation must do for EVERY word
is compared exactly: `p = 0` (and `-0`) never fires, `p = 1` always fires, an invalid `p` (not a
probability) panics as `gen_bool` documents. For `0 < p < 1` nothing is demanded of a single word. -/
def caseChance (p : UInt64) (k : Nat) (impl : Sexp) : Verdict :=
  let b := bernoulliNew (Objective.ofBits p)
  let isZero := Objective.ofBits p == .fin 0
  let outs : Option (List Bool) := match impl with
    | .list (.atom "r" :: rs) => rs.mapM bool?
    | _ => none
  let allErr := match impl with
    | .list (.atom "r" :: rs) => rs.all (Sexp.beq · (.atom "err")) && !rs.isEmpty
    | _ => false
  match b with
  | .invalid =>
    -- not a probability: the property demands nothing; K expects the documented refusal (panic or Err)
    verdict (Sexp.beq impl (.atom "panic") || allErr) true "wrong-value" (.atom "panic")
  | .always =>
    let ok := match outs with | some rs => rs.all id && rs.length == k | none => false
    verdict ok ok (if outs.isNone then "panic" else "wrong-value") (tag "r" ((List.replicate k true).map ofBool))
  | .thr _ =>
    if isZero then
      let ok := match outs with | some rs => rs.all (!·) && rs.length == k | none => false
      verdict ok ok (if outs.isNone then "panic" else "wrong-value") (tag "r" ((List.replicate k false).map ofBool))
    else
      let ok := outs.isSome
      verdict ok ok "panic" (.atom "any")

/-- Sweep over 4096 equidistant words: the fraction that fires is `p`. K: within 2 words (theorem
`randomChance_sweep`: `⌊m/D⌋` or `⌊m/D⌋+1` for a threshold test, whichever end of the range it fires
on); O: within 5 sigma + 2 (an implementation that scatters the firing words is still legal). -/
def caseSweep (p : UInt64) (impl : Sexp) : Verdict :=
  let b := bernoulliNew (Objective.ofBits p)
  let pf := Float.ofBits p
  let n := sweepN.toFloat
  let count : Option Nat := match impl with
    | .list [.atom "count", c] => nat? c
    | _ => none
  let cls := if count.isNone then "panic" else "frequency"
  match b with
  | .invalid => verdict (Sexp.beq impl (.atom "panic")) true cls (.atom "panic")
  | .always =>
    let ok := count == some sweepN
    verdict ok ok cls (tag "count" [ofNat sweepN])
  | .thr _ =>
    let expect := pf * n
    let model := tag "expect" [ofNat expect.round.toUInt64.toNat]
    match count with
    | none => verdict false false cls model
    | some c =>
      if Objective.ofBits p == .fin 0 then verdict (c == 0) (c == 0) cls model
      else
        let d := (c.toFloat - expect).abs
        verdict (d ≤ 2.0) (d ≤ 5.0 * Float.sqrt (n * pf * (1.0 - pf)) + 2.0) cls model

/-- Real generator: marginal frequency and the frequency of "both fire" among the n/2 disjoint
consecutive pairs, 5 sigma each (+3 absolute for the pairs, whose expectation can be far below 1). -/
def caseFreq (p : Float) (n : Nat) (impl : Sexp) : Verdict :=
  let nf := n.toFloat
  let expect := p * nf
  let sigma := Float.sqrt (nf * p * (1.0 - p))
  let expect2 := nf / 2.0 * p * p
  let sigma2 := Float.sqrt (nf / 2.0 * p * p * (1.0 - p * p))
  let model := Sexp.list [tag "expect" [ofNat expect.round.toUInt64.toNat], tag "sigma5" [ofNat (5.0 * sigma).ceil.toUInt64.toNat],
    tag "expect-both" [ofNat expect2.round.toUInt64.toNat], tag "sigma5-both" [ofNat (5.0 * sigma2).ceil.toUInt64.toNat]]
  let holds := match impl with
    | .list [.list [.atom "count", c], .list [.atom "both", b]] =>
      match nat? c, nat? b with
      | some c, some b =>
        (c.toFloat - expect).abs ≤ 5.0 * sigma + 0.5 && (b.toFloat - expect2).abs ≤ 5.0 * sigma2 + 3.0
      | _, _ => false
    | _ => false
  verdict holds holds "frequency" model

def loopOut (passes tests counter iters : Nat) (progress : Float) : Sexp :=
  .list [tag "res" [.atom "ok"], tag "passes" [ofNat passes], tag "tests" [ofNat tests],
         tag "counter" [ofNat counter], tag "iters" [ofNat iters], tag "progress" [fxn progress]]

def caseLoop (n step : Nat) (byEvals : Bool) (impl : Sexp) : Verdict :=
  let model := match loopRun Nat.toFloat n step 0 (n + 2) with
    | some s => loopOut s.passes s.tests s.counter s.passes s.progress
    | none => .atom "timeout"
  -- property: exactly ⌈n/step⌉ passes (n for the iteration counter), one more test, progress = counter / n
  let passes := (n + step - 1) / step
  let spec := loopOut passes (passes + 1) (passes * step) passes ((passes * step).toFloat / n.toFloat)
  let _ := byEvals
  let cls := match impl with
    | .atom "panic" => "panic"
    | _ => "count"
  verdict (Sexp.beq model impl) (Sexp.beq spec impl) cls model

/-! Iteration-bounded loops in nests (Model/ConditionsLoops.lean) -/

def optNat (o : Option Nat) : Sexp := match o with | some v => ofNat v | none => .atom "none"
def optF (o : Option Float) : Sexp := match o with | some v => fxn v | none => .atom "none"

def evSexp : LEvent Float → Sexp
  | .test id v it pr => .list [.atom "t", ofNat id, ofBool v, ofNat it, optF pr]
  | .pass tg it => .list [.atom "p", ofNat tg, optNat it]

def nestOut (log : List (LEvent Float)) (it : Option Nat) (pr : Option Float) : Sexp :=
  .list [tag "res" [.atom "ok"], tag "log" (log.map evSexp), tag "iters" [optNat it], tag "progress" [optF pr]]

mutual
  def boundsOf : LItem → List (Nat × Nat)
    | .leaf _ => []
    | .loop id n b => (id, n) :: boundsOfs b
    | .scope b => boundsOfs b
  def boundsOfs : LItems → List (Nat × Nat)
    | .nil => []
    | .cons i is => boundsOf i ++ boundsOfs is
end

/-- What one test event must satisfy in ANY tree (also where loops share a counter): the verdict is
`value < n` and the progress readable afterwards is `value / n`. -/
def testEventOk (bounds : List (Nat × Nat)) : Sexp → Bool
  | .list [.atom "t", id, v, it, pr] =>
    match nat? id, bool? v, nat? it with
    | some id, some v, some it =>
      match bounds.find? (·.1 == id) with
      | some (_, n) => v == decide (it < n) && Sexp.beq pr (fxn (it.toFloat / n.toFloat))
      | none => false
    | _, _, _ => false
  | .list (.atom "p" :: _) => true
  | _ => false

def specFinal (is : LItems) : Nat → Option Nat → Option Nat
  | 0, cur => cur
  | k + 1, cur => specFinal is k (specRun Nat.toFloat is cur).2

def caseNest (runs : Nat) (pre : Option Nat) (is : LItems) (impl : Sexp) : Verdict :=
  let r0 : LReg Float := { top := { iters := pre, progress := none }, rest := [] }
  let model := match lRunTimes Nat.toFloat (maxNs is + 1) is runs r0 [] with
    | .ok r log => nestOut log r.iters r.progress
    | .stop .fuel => .atom "model-fuel"
    | .stop .noCounter => .atom "model-err"
  let implLog : Option (List Sexp) := match impl with
    | .list [.list [.atom "res", .atom "ok"], .list (.atom "log" :: lg), _, _] => some lg
    | _ => none
  let holds :=
    if wellScoped is then
      -- the property: every loop makes exactly n passes, n + 1 tests, progress k/n, the body sees k — the
      -- state-free specification, once per run; the counter visible at the end is the specified one
      match impl with
      | .list [.list [.atom "res", .atom "ok"], .list (.atom "log" :: lg), .list [.atom "iters", it], _] =>
        Sexp.beq (.list lg) (.list ((specRunTimes Nat.toFloat is runs pre).map evSexp)) &&
          Sexp.beq it (optNat (specFinal is runs pre))
      | _ => false
    else
      -- loops sharing a counter (mahf: "a Scope is needed for nested loops"): only the less-than-n clause itself
      match implLog with
      | some lg => lg.all (testEventOk (boundsOfs is))
      | none => false
  let cls := match impl with
    | .atom "panic" => "panic"
    | .atom "budget" => "timeout"
    | .list (.list [.atom "res", .atom "err"] :: _) => "err"
    | _ => "count"
  verdict (Sexp.beq model impl) holds cls model

/-! Loop guarded by a composite of `iterations(n)` and `evaluations(m)` built with `&`, `|`, `!` -/

def conn? : Sexp → Option Conn
  | .atom "and" => some .and
  | .atom "or" => some .or
  | .atom "nand" => some .nand
  | _ => none

def ev2Sexp (e : L2Ev Float) : Sexp :=
  .list [.atom "t", ofBool e.verdict, ofNat e.it, ofNat e.ev, fxn e.pit, fxn e.pev]

def loopcOut (passes it ev : Nat) (log : List (L2Ev Float)) : Sexp :=
  .list [tag "res" [.atom "ok"], tag "passes" [ofNat passes], tag "iters" [ofNat it], tag "evals" [ofNat ev],
         tag "log" (log.map ev2Sexp)]

def caseLoopC (c : Conn) (n m step : Nat) (impl : Sexp) : Verdict :=
  let bound := max n m + 1
  let model := match loop2Run Nat.toFloat c n m step (bound + 1) with
    | some (s, log) => loopcOut s.passes s.it s.ev log
    | none => .atom "model-fuel"
  -- property: the first pass count p at which the Boolean combination of (p < n) and (p·step < m) is false
  -- (searched, not looped); p passes, tests at 0 … p with verdicts and both progress values as specified
  let spec := match firstStop c n m step bound 0 with
    | some p => loopcOut p p (p * step) ((List.range' 0 (p + 1)).map (specEv2 Nat.toFloat c n m step))
    | none => .atom "spec-unbounded"
  let cls := match impl with
    | .atom "panic" => "panic"
    | .atom "budget" => "timeout"
    | .list (.list [.atom "res", .atom "err"] :: _) => "err"
    | _ => "count"
  verdict (Sexp.beq model impl) (Sexp.beq spec impl) cls model

/-! Conditions on nested states (Model/ConditionsNested.lean) -/

def ckN? : Sexp → Option (Option Nat)
  | .atom "pe" => some none
  | .list [.atom "de", t] => (nat? t).map some
  | _ => none

def ckF? : Sexp → Option (Option Float)
  | .atom "pe" => some none
  | .list [.atom "de", t] => (float? t).map some
  | _ => none

def nCond? : Sexp → Option (NCond Float)
  | .list [.atom "opt", e] => (float? e).map .opt
  | .list [.atom "lt", k, n] => do pure (.lt (← nKey? k) (← nat? n))
  | .list [.atom "ltb", n] => (float? n).map .ltb
  | .list [.atom "every", k, n] => do pure (.every (← nKey? k) (← nat? n))
  | .list [.atom "chg", k, ck] => do pure (.chg (← nKey? k) (← ckN? ck))
  | .list [.atom "chgb", ck] => (ckF? ck).map .chgb
  | _ => none

def optF? : Sexp → Option (Option Float)
  | .atom "none" => some none
  | s => (float? s).map some

/-- `fuel` bounds the nesting depth of `(in …)` only. -/
def parseNItems : Nat → List Sexp → Option (NItems Float)
  | 0, _ => none
  | fuel + 1, xs => go fuel xs
where
  go (fuel : Nat) : List Sexp → Option (NItems Float)
    | [] => some .nil
    | x :: xs => do
      let i ← match x with
        | .list [.atom "put", k, v] => do pure (NItem.op (.put (← nKey? k) (← nat? v)))
        | .list [.atom "putb", b] => do pure (NItem.op (.putb (← optF? b)))
        | .list [.atom "set", k, v] => do pure (NItem.op (.set (← nKey? k) (← nat? v)))
        | .list [.atom "updb", b] => do pure (NItem.op (.updb (← float? b)))
        | .list [.atom "init", c] => do pure (NItem.op (.init (← nat? c)))
        | .list [.atom "eval", c] => do pure (NItem.op (.eval (← nat? c)))
        | .list (.atom "in" :: body) => do pure (NItem.inner (← parseNItems fuel body))
        | _ => none
      let rest ← go fuel xs
      pure (.cons i rest)

def resB : Option Bool → Sexp
  | some b => ofBool b
  | none => .atom "err"

def nEventSexp (e : NEvent Float) : Sexp :=
  match e.prog with
  | none => .list [ofNat e.c, resB e.res]
  | some p => .list [ofNat e.c, resB e.res, optF p]

/-- What the property allows for one evaluation: the acceptable results and, for LessThanN, the
progress that must be readable afterwards (checked when the result is a verdict). -/
structure NExpect where
  c : Nat
  accept : List (Option Bool)
  prog : Option (Option Float)

/-- The specification-side judge: everything is read off what the state SEES (`visible`: the first of
the values declared along the chain, innermost first).
* optimum-reached: true exactly when the state sees a best value and it is within eps of the optimum
  (either rounding of "within"; a best value below the known optimum is outside the domain);
* less-than-n / every-n: the verdict about the value the state sees, progress value/n; no value — not true;
* change-of: the value the state sees against the memory the condition sees; no value / no memory — not true. -/
def nSpecEval (optimum : Float) (c : Nat) (cd : NCond Float) (fs : List (NFrame Float)) : NExpect × List (NFrame Float) :=
  let notTrue : List (Option Bool) := [some false, none]
  let seenBest : Option Float := match visible (fun f => f.best) fs with
    | some (some b) => some b
    | _ => none
  match cd with
  | .opt eps =>
    let acc := match seenBest with
      | some b =>
        if b < optimum then [some true, some false]
        else [some (decide (b ≤ optimum + eps)), some (decide ((b - optimum).abs ≤ eps))]
      | none => notTrue
    ({ c, accept := acc, prog := none }, fs)
  | .lt key n =>
    match visible (fun f => f.obs key) fs with
    | none => ({ c, accept := notTrue, prog := some (visible (fun f => f.prog key) fs) }, fs)
    | some v =>
      let p := v.toFloat / n.toFloat
      let fs' := nWrite (fun f => f.prog key) (fun f => { f with prog := upd f.prog key (some p) }) fs
      ({ c, accept := [some (decide (v < n))], prog := some ((visible (fun f => f.prog key) fs).map fun _ => p) }, fs')
  | .ltb n =>
    match seenBest with
    | none => ({ c, accept := notTrue, prog := some (visible (fun f => f.prog 4) fs) }, fs)
    | some b =>
      let p := b / n
      let fs' := nWrite (fun f => f.prog 4) (fun f => { f with prog := upd f.prog 4 (some p) }) fs
      ({ c, accept := [some (decide (b < n))], prog := some ((visible (fun f => f.prog 4) fs).map fun _ => p) }, fs')
  | .every key n =>
    match visible (fun f => f.obs key) fs with
    | none => ({ c, accept := notTrue, prog := none }, fs)
    | some v => ({ c, accept := [some (if n == 0 then v == 0 else v % n == 0)], prog := none }, fs)
  | .chg key th =>
    match visible (fun f => f.obs key) fs, visible (fun f => f.prevN key) fs with
    | some v, some prev =>
      let differs : Nat → Nat → Bool := match th with
        | none => fun a b => a != b
        | some t => fun a b => decide ((if a < b then b - a else a - b) ≥ t)
      let fired := match prev with
        | none => true
        | some p => differs v p
      let fs' := if fired then nWrite (fun f => f.prevN key) (fun f => { f with prevN := upd f.prevN key (some (some v)) }) fs else fs
      ({ c, accept := [some fired], prog := none }, fs')
    | _, _ => ({ c, accept := notTrue, prog := none }, fs)
  | .chgb th =>
    match seenBest, visible (fun f => f.prevB) fs with
    | some b, some prev =>
      let differs : Float → Float → Bool := match th with
        | none => fun a b => !(a == b)
        | some t => fun a b => !((if a == b then 0.0 else (a - b).abs) < t)
      let fired := match prev with
        | none => true
        | some p => differs b p
      let fs' := if fired then nWrite (fun f => f.prevB) (fun f => { f with prevB := some (some b) }) fs else fs
      ({ c, accept := [some fired], prog := none }, fs')
    | _, _ => ({ c, accept := notTrue, prog := none }, fs)

def resOpt? : Sexp → Option (Option Bool)
  | .atom "t" => some (some true)
  | .atom "f" => some (some false)
  | .atom "err" => some none
  | _ => none

def nEventOk (x : NExpect) (impl : Sexp) : Bool :=
  match impl with
  | .list [c, r] => nat? c == some x.c && x.prog.isNone && (match resOpt? r with | some r => x.accept.contains r | none => false)
  | .list [c, r, p] =>
    nat? c == some x.c &&
      (match resOpt? r, x.prog with
       | some r, some xp => x.accept.contains r && (r.isNone || Sexp.beq p (optF xp))
       | _, _ => false)
  | _ => false

def allOk : List NExpect → List Sexp → Bool
  | [], [] => true
  | x :: xs, e :: es => nEventOk x e && allOk xs es
  | _, _ => false

def caseNst (optimum : Float) (conds : List (NCond Float)) (items : NItems Float) (impl : Sexp) : Verdict :=
  let model := tag "log" ((nRun Nat.toFloat optimum conds items).map nEventSexp)
  let spec := (nExecItems conds (nSpecEval optimum) items [NFrame.empty] []).2
  let holds := match impl with
    | .list (.atom "log" :: es) => allOk spec es
    | _ => false
  let cls := match impl with
    | .atom "panic" => "panic"
    | _ => "wrong-value"
  verdict (Sexp.beq model impl) holds cls model

/-! The nested search (`scope_`* around `while !OptimumReached(eps) & iterations < k`) -/

def sEventSexp (e : SEvent Float) : Sexp :=
  .list [.atom "t", ofBool e.verdict, ofNat e.iters, optF e.best]

def nsOut (passes : Nat) (log : List (SEvent Float)) (root : Option Float) : Sexp :=
  .list [tag "res" [.atom "ok"], tag "passes" [ofNat passes], tag "log" (log.map sEventSexp), tag "root" [optF root]]

/-- The least `j ≤ bound` at which the search stops. -/
def searchStop (optimum eps : Float) (k : Nat) (start : Option Float) (script : List Float) : Nat → Nat → Option Nat
  | 0, j => if searchGoesOn optimum eps k start script j then none else some j
  | fuel + 1, j => if searchGoesOn optimum eps k start script j then searchStop optimum eps k start script fuel (j + 1) else some j

def caseNSearch (optimum eps : Float) (k : Nat) (outer : Option Float) (shadow : List Bool) (script : List Float)
    (impl : Sexp) : Verdict :=
  let model := match nsRun Nat.toFloat optimum eps k outer shadow script (k + 2) with
    | some (p, log, root) => nsOut p log root
    | none => .atom "model-fuel"
  -- property: the loop tests `!reached(best the search's state sees) & j < k` at j = 0, 1, …; it makes exactly the
  -- first such j that is false; the state of the search sees NOTHING of the outer best once a scope keeps its own
  let start := searchStart outer shadow
  let spec := match searchStop optimum eps k start script k 0 with
    | some p =>
      nsOut p ((List.range' 0 (p + 1)).map fun j =>
          { verdict := searchGoesOn optimum eps k start script j, iters := j, best := runningBest start script j })
        (if shadow.any id then outer else runningBest outer script p)
    | none => .atom "spec-unbounded"
  let cls := match impl with
    | .atom "panic" => "panic"
    | .atom "budget" => "timeout"
    | .list (.list [.atom "res", .atom "err"] :: _) => "err"
    | _ => "count"
  verdict (Sexp.beq model impl) (Sexp.beq spec impl) cls model

def envOf (os : List Res) : Env := fun i => (os[i]?).getD .err

def c10 (input implOut : Sexp) : Option Verdict :=
  match input with
  | .list [.atom "lt", .atom "f", n, v] => do caseLtFloat (← float? n) (← float? v) implOut
  | .list [.atom "lt", _, n, v] => do caseLtNat (← nat? n) (← nat? v) implOut
  | .list [.atom "every", n, v] => do caseEvery (← nat? n) (← nat? v) implOut
  | .list [.atom "everyo", n, v] => do caseEvery (← nat? n) (← nat? v) implOut
  | .list [.atom "opt", e, .atom "none", o] => do caseOpt (← float? e) none (← float? o) implOut
  | .list [.atom "opt", e, .list [.atom "some", b], o] => do
    caseOpt (← float? e) (some (← float? b)) (← float? o) implOut
  | .list [.atom "chg", .atom "pe", .list (.atom "vals" :: vs)] => do caseChg none (← vs.mapM nat?) implOut
  | .list [.atom "chg", .list [.atom "de", t], .list (.atom "vals" :: vs)] => do
    caseChg (some (← nat? t)) (← vs.mapM nat?) implOut
  | .list [.atom "chgo", .atom "pe", .list (.atom "vals" :: vs)] => do caseChgObj none (← vs.mapM float?) implOut
  | .list [.atom "chgo", .list [.atom "de", t], .list (.atom "vals" :: vs)] => do
    caseChgObj (some (← float? t)) (← vs.mapM float?) implOut
  | .list [.atom "chgm", .list (.atom "conds" :: cs), .list (.atom "items" :: is)] => do
    let conds ← cs.mapM condSpec?
    let items ← parseItems 16 is
    caseChgMulti conds items (flatEvs? items) implOut
  | .list [.atom "loopchg", _, ck, e, v0, .list (.atom "script" :: sc)] => do
    let th ← match ck with
      | .atom "pe" => some none
      | .list [.atom "de", t] => (nat? t).map some
      | _ => none
    caseLoopChg th (← nat? e) (← nat? v0) (← sc.mapM nat?) implOut
  | .list [.atom "form", f, .list (.atom "env" :: os)] => do
    let (g, _) ← parseForm 64 f 0
    caseForm g (envOf (← os.mapM res?)) implOut
  | .list [.atom "chance", p, .list (.atom "words" :: ws)] => do caseChance (← bits? p) ws.length implOut
  | .list [.atom "sweep", p, _] => do caseSweep (← bits? p) implOut
  | .list [.atom "freq", p, _, n] => do caseFreq (← float? p) (← nat? n) implOut
  | .list [.atom "nest", runs, pre, .list (.atom "items" :: is)] => do
    let pre ← match pre with
      | .atom "none" => some none
      | p => (nat? p).map some
    caseNest (← nat? runs) pre (← parseLItems 32 is) implOut
  | .list [.atom "nst", .list [.atom "opt", o], .list (.atom "conds" :: cs), .list (.atom "items" :: is)] => do
    caseNst (← float? o) (← cs.mapM nCond?) (← parseNItems 16 is) implOut
  | .list [.atom "nsearch", .list [.atom "opt", o], .list [.atom "eps", e], k, outer, .list (.atom "sh" :: sh),
      .list (.atom "script" :: sc)] => do
    caseNSearch (← float? o) (← float? e) (← nat? k) (← optF? outer) (← sh.mapM bool?) (← sc.mapM float?) implOut
  | .list [.atom "loopc", c, n, m, st] => do caseLoopC (← conn? c) (← nat? n) (← nat? m) (← nat? st) implOut
  | .list [.atom "loop", .atom "i", n] => do caseLoop (← nat? n) 1 false implOut
  | .list [.atom "loop", .atom "e", n, s] => do caseLoop (← nat? n) (← nat? s) true implOut
  | _ => none

def main : IO Unit := driverMain (respond c10)
