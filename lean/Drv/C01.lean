import MahfModel.Model.RegistryH
open MahfModel

/-- K: the code-shaped model's outputs equal the implementation's; O: the implementation's outputs equal
what the abstract stack of maps answers. -/
def c01 (input implOut : Sexp) : Option Verdict := do
  let (model, spec) ← RegistryH.handleHistoryH input
  let agree := Sexp.beq model implOut
  let holds := Sexp.beq spec implOut
  pure { agree, holds, cls := if holds then "-" else "wrong-value", model }

def main : IO Unit := driverMain (respond c01)
