import MahfModel.Model.Selection
open MahfModel

def c11 (input implOut : Sexp) : Option Verdict := do
  let r ← Selection.handleCase input implOut
  pure { agree := r.agree, holds := r.cls.isNone, cls := r.cls.getD "-", model := r.model }

def main : IO Unit := driverMain (respond c11)
