import MahfModel.Model.PsoNest
open MahfModel MahfModel.Pso

namespace C18Drv

def field (name : String) : List Sexp → Option (List Sexp)
  | [] => none
  | x :: xs => match Sexp.tagged? name x with
    | some r => some r
    | none => field name xs

def float1 (name : String) (args : List Sexp) : Option Float := do
  match ← field name args with
  | [x] => x.float?
  | _ => none

def nat1 (name : String) (args : List Sexp) : Option Nat := do
  match ← field name args with
  | [x] => x.nat?
  | _ => none

def floats? : Sexp → Option (List Float)
  | .list xs => xs.mapM Sexp.float?
  | _ => none

def part? : Sexp → Option (Part Float)
  | .list [pos, .atom "u"] => do pure { pos := ← floats? pos, obj := 0.0, ev := false }
  | .list [pos, o] => do pure { pos := ← floats? pos, obj := ← o.float?, ev := true }
  | _ => none

def gbest? : List Sexp → Option (Option (Part Float))
  | [.atom "none"] => some none
  | [p] => (part? p).map some
  | _ => none

def floatsS (v : List Float) : Sexp := .list (v.map Sexp.ofFloat)
def partS (p : Part Float) : Sexp := .list [floatsS p.pos, if p.ev then Sexp.ofFloat p.obj else .atom "u"]
def partsS (tag : String) (ps : List (Part Float)) : Sexp := .list (.atom tag :: ps.map partS)
def vsS (vs : List (List Float)) : Sexp := .list (.atom "vs" :: vs.map floatsS)
def gbestS : Option (Part Float) → Sexp
  | none => .list [.atom "gbest", .atom "none"]
  | some g => .list [.atom "gbest", partS g]
def statusS : Status → Sexp
  | .ok => .atom "ok" | .err => .atom "err" | .panic => .atom "panic"

def unitOfWord (w : Nat) : Float := (Float.ofNat ((w % 2 ^ 64) / 2 ^ 11)) * (1.0 / 9007199254740992.0)

def close (tol : Float) (a b scale : Float) : Bool := a == b || (a - b).abs ≤ tol * scale

def zip3 {α β γ : Type} : List α → List β → List γ → List (α × β × γ)
  | a :: as, b :: bs, c :: cs => (a, b, c) :: zip3 as bs cs
  | _, _, _ => []

/-- Property clauses of one velocity update on the implementation's output: every coordinate within
`[−v_max, v_max]`, moved by exactly the new velocity (one rounding), and — wherever the result does
not depend on the draws (both attraction terms vanish) — the STORED inertia weight scales the old
velocity: `v' = clamp(w · v)`. Which draw feeds which term and how the sum is associated is not
part of the property (that is compared in `agree`, tolerantly). -/
def velHolds (w c1 c2 vmax : Float) (sw : Swarm Float) (g : Part Float)
    (xs' : List (Part Float)) (vs' : List (List Float)) : Bool × String :=
  let n := sw.xs.length
  if xs'.length != n || vs'.length != n then (false, "count") else
  let rows := List.zip (zip3 sw.xs sw.vs sw.pbest) (List.zip xs' vs')
  let bad := rows.filterMap fun ((x, v, p), (x', v')) =>
    if x'.pos.length != x.pos.length || v'.length != v.length then some "count" else
    let comps := List.zip (zip3 v x.pos p.pos) (zip3 v' x'.pos g.pos)
    comps.findSome? fun ((v, x, xp), (v', x', xg)) =>
      if !(v'.abs ≤ vmax) then some "clamp"
      else if !(close 4e-16 x' (x + v') (max x.abs (max v'.abs x'.abs))) then some "motion"
      else if c1 * (xp - x) == 0.0 && c2 * (xg - x) == 0.0 &&
          !(close 1e-9 v' (clamp (-vmax) vmax (w * v)) (w * v).abs) then some "weight"
      else none
  match bad with
  | c :: _ => (false, c)
  | [] => (true, "-")

/-- One coordinate waiting for its two coefficients: `(w·v, c1·(xp − x), c2·(xg − x), v')`. -/
structure Slot where
  t1 : Float
  a : Float
  b : Float
  v' : Float

def Slot.fits (vmax : Float) (s : Slot) (r1 r2 : Float) : Bool :=
  close 1e-9 s.v' (clamp (-vmax) vmax (s.t1 + s.a * r1 + s.b * r2)) (s.t1.abs + s.a.abs + s.b.abs)

/-- Every way of taking one element out of a list. -/
def pickOne : List Float → List (Float × List Float)
  | [] => []
  | x :: xs => (x, xs) :: (pickOne xs).map (fun (y, rest) => (y, x :: rest))

/-- Is there an assignment of DISTINCT consumed draws to the coefficient slots of the coordinates under
which every new velocity is the documented formula? (Depth-first; the most constrained coordinates come
first, so a wrong choice for a clamped or degenerate coordinate cannot starve an exact one.) -/
def assignDraws (vmax : Float) : Nat → List Slot → List Float → Bool
  | 0, _, _ => false
  | _, [], _ => true
  | fuel + 1, s :: ss, ds =>
    (pickOne ds).any fun (r1, rest1) =>
      (pickOne rest1).any fun (r2, rest2) => s.fits vmax r1 r2 && assignDraws vmax fuel ss rest2

def insertBy (key : Slot → Nat) (s : Slot) : List Slot → List Slot
  | [] => [s]
  | t :: ts => if key s ≤ key t then s :: t :: ts else t :: insertBy key s ts

/-- Correspondence of a successful velocity update. The witness is the stream of draws the update consumed;
WHICH of the draws a particle consumed feeds which coefficient of which of its coordinates is not part of
the property (the theorems quantify over all draws): the implementation's velocities must be the formula
under SOME one-to-one assignment of the particle's `2·dim` draws to its `2·dim` coefficient slots; the
association of the sum is free (relative tolerance 1e-9); `x' = x + v'`. -/
def velAgreeOk (w c1 c2 vmax : Float) (sw : Swarm Float) (g : Part Float) (draws : List (List (Float × Float)))
    (xs' : List (Part Float)) (vs' : List (List Float)) : Bool :=
  let n := sw.xs.length
  xs'.length == n && vs'.length == n && xs'.all (fun x => !x.ev) &&
  (List.zip (zip3 sw.xs sw.vs sw.pbest) (zip3 xs' vs' draws)).all fun ((x, v, p), (x', v', rs)) =>
    x'.pos.length == x.pos.length && v'.length == v.length &&
    -- coordinates beyond the velocity's length are only transported
    ((x'.pos.drop v.length).zip (x.pos.drop v.length)).all (fun (a, b) => a == b) &&
    ((zip3 x.pos v' x'.pos).all fun (x, v', x') => close 1e-9 x' (x + v') (x.abs + v'.abs)) &&
    (let slots : List Slot := (List.zip (zip3 v x.pos p.pos) (List.zip v' g.pos)).map
        fun ((v, x, xp), (v', xg)) => { t1 := w * v, a := c1 * (xp - x), b := c2 * (xg - x), v' }
     let block : List Float := rs.flatMap (fun (r1, r2) => [r1, r2])
     let count := fun (s : Slot) =>
       ((pickOne block).map fun (r1, rest) => ((pickOne rest).filter fun (r2, _) => s.fits vmax r1 r2).length).foldl (· + ·) 0
     let sorted := slots.foldl (fun acc s => insertBy count s acc) []
     rs.length == v.length && assignDraws vmax (slots.length + 1) sorted block)

def allFinite (sw : Swarm Float) (g : Part Float) : Bool :=
  sw.xs.all (fun x => x.pos.all Float.isFinite) && sw.vs.all (fun v => v.all Float.isFinite) &&
  sw.pbest.all (fun x => x.pos.all Float.isFinite) && g.pos.all Float.isFinite

def velCase (args : List Sexp) (implOut : Sexp) : Option Verdict := do
  let w ← float1 "w" args
  let c1 ← float1 "c1" args
  let c2 ← float1 "c2" args
  let vmax ← float1 "vmax" args
  let words ← (← field "words" args).mapM Sexp.nat?
  let xs ← (← field "xs" args).mapM part?
  let vs ← (← field "vs" args).mapM floats?
  let pbest ← (← field "pbest" args).mapM part?
  let gbest ← gbest? (← field "gbest" args)
  let sw : Swarm Float := { xs, vs, pbest, gbest, w }
  match implOut with
  | .list [.atom status, dS, xsS, vsS'] =>
    let d ← (← Sexp.tagged? "d" dS).mapM Sexp.float?
    let draws := flatDraws vs d
    let (ms, msw) := velStep c1 c2 vmax draws sw
    -- the witness: documented word → draw mapping, draws in [0,1), exactly two per coordinate
    let mapped := (List.zip words d).all (fun (wd, u) => unitOfWord wd == u)
    let legal := d.all (fun u => 0.0 ≤ u && u < 1.0)
    let need := 2 * (vs.map List.length).foldl (· + ·) 0
    let countOk := if ms == .ok then d.length == need else true
    let model := Sexp.list [statusS ms, partsS "xs" msw.xs, vsS msw.vs]
    let implCore := Sexp.list [.atom status, xsS, vsS']
    let xsOut := (Sexp.tagged? "xs" xsS).bind (·.mapM part?)
    let vsOut := (Sexp.tagged? "vs" vsS').bind (·.mapM floats?)
    let agreeState := match ms, gbest, xsOut, vsOut with
      | .panic, _, _, _ => status == "panic"
      | .ok, some g, some xs', some vs' => status == "ok" && velAgreeOk w c1 c2 vmax sw g draws xs' vs'
      | _, _, _, _ => Sexp.beq model implCore   -- Err: the state is only transported
    let agree := agreeState && mapped && legal && countOk
    let dims := vs.all (fun v => v.length == (vs.headD []).length) && xs.all (fun x => x.pos.length == (vs.headD []).length) &&
      pbest.all (fun x => x.pos.length == (vs.headD []).length)
    let (holds, cls) := match gbest with
      | some g =>
        if vs.length == xs.length && pbest.length == xs.length && dims && g.pos.length == (vs.headD []).length &&
            vmax > 0.0 && allFinite sw g && w.isFinite && c1.isFinite && c2.isFinite then
          if status != "ok" then (false, status) else
          match (Sexp.tagged? "xs" xsS).bind (·.mapM part?), (Sexp.tagged? "vs" vsS').bind (·.mapM floats?) with
          | some xs', some vs' => velHolds w c1 c2 vmax sw g xs' vs'
          | _, _ => (false, "unreadable")
        else (true, "-")
      | none => (true, "-")
    pure { agree, holds, cls := if holds then "-" else cls, model }
  | .list [.atom "ctor-err"] =>
    let ok := !(vmax > 0.0 && c1 ≥ 0.0 && c2 ≥ 0.0)
    pure { agree := ok, holds := true, model := .atom "ctor-err" }
  | _ => none

def velInitCase (args : List Sexp) (implOut : Sexp) : Option Verdict := do
  let vmax ← float1 "vmax" args
  let dim ← nat1 "dim" args
  let xs ← (← field "xs" args).mapM part?
  match implOut with
  | .list [.atom "ctor-err"] => pure { agree := !(vmax > 0.0), holds := true, model := .atom "ctor-err" }
  | .list [.atom status, vsS'] =>
    let vs' ← (← Sexp.tagged? "vs" vsS').mapM floats?
    let sw : Swarm Float := { xs, vs := [], pbest := [], gbest := none, w := 0.0 }
    let legal := velInitLegal vmax dim vs' sw
    let msw := velInit vs' sw
    let holds := status == "ok" && legal
    pure { agree := status == "ok" && vmax > 0.0 && legal && Sexp.beq (vsS msw.vs) vsS', holds,
           cls := if holds then "-" else if status != "ok" then status
             else if vs'.length != xs.length || !(vs'.all (fun v => v.length == dim)) then "count" else "clamp",
           model := vsS msw.vs }
  | _ => none

def minObj (ps : List (Part Float)) : Option Float :=
  ps.foldl (fun acc p => match acc with | none => some p.obj | some m => some (if p.obj < m then p.obj else m)) none

def partEq (a b : Part Float) : Bool := Sexp.beq (partS a) (partS b)

def pbestCase (args : List Sexp) (implOut : Sexp) : Option Verdict := do
  let xs ← (← field "xs" args).mapM part?
  let pbest ← (← field "pbest" args).mapM part?
  let op ← (← field "op" args).head?.bind Sexp.atom?
  let sw : Swarm Float := { xs, vs := [], pbest, gbest := none, w := 0.0 }
  match implOut with
  | .list [.atom status, pbS] =>
    let (ms, msw) := if op == "init" then (Status.ok, pbestInit sw) else pbestStep sw
    let model := Sexp.list [statusS ms, partsS "pbest" msw.pbest]
    let agree := if ms == .panic then status == "panic" else Sexp.beq model implOut
    let wellFormed := xs.length == pbest.length && xs.all (·.ev) && pbest.all (·.ev)
    let (holds, cls) :=
      if op == "init" then
        (status == "ok" && Sexp.beq pbS (partsS "pbest" xs), "count")
      else if !wellFormed then (true, "-")
      else if status != "ok" then (false, status)
      else match (Sexp.tagged? "pbest" pbS).bind (·.mapM part?) with
        | some pb' =>
          if pb'.length != pbest.length then (false, "count")
          else
            let rows := zip3 pbest xs pb'
            if !(rows.all fun (b, _, b') => b'.obj ≤ b.obj) then (false, "not-monotone")
            else if !(rows.all fun (b, c, b') => (partEq b' b || partEq b' c) && b'.obj ≤ c.obj) then (false, "not-best")
            else (true, "-")
        | none => (false, "unreadable")
    pure { agree, holds, cls := if holds then "-" else cls, model }
  | _ => none

def gbestCase (args : List Sexp) (implOut : Sexp) : Option Verdict := do
  let xs ← (← field "xs" args).mapM part?
  let gbest ← gbest? (← field "gbest" args)
  let sw : Swarm Float := { xs, vs := [], pbest := [], gbest, w := 0.0 }
  match implOut with
  | .list [.atom status, gS] =>
    let (ms, msw) := gbestStep sw
    let model := Sexp.list [statusS ms, gbestS msw.gbest]
    let agree := if ms == .panic then status == "panic" else Sexp.beq model implOut
    let wellFormed := xs.all (·.ev) && (match gbest with | some g => g.ev | none => true)
    let (holds, cls) :=
      if !wellFormed then (true, "-")
      else if status != "ok" then (false, status)
      else match (Sexp.tagged? "gbest" gS).bind gbest? with
        | some (some g') =>
          let cands := (match gbest with | some g => [g] | none => []) ++ xs
          if !(cands.any (partEq g')) then (false, "not-member")
          else if !(cands.all fun c => g'.obj ≤ c.obj) then (false, "not-min")
          else (true, "-")
        | some none => (xs.isEmpty && gbest.isNone, "lost")
        | none => (false, "unreadable")
    pure { agree, holds, cls := if holds then "-" else cls, model }
  | _ => none

def swarmCase (args : List Sexp) (implOut : Sexp) : Option Verdict := do
  let xs ← (← field "xs" args).mapM part?
  let pbest ← (← field "pbest" args).mapM part?
  let gbest ← gbest? (← field "gbest" args)
  let sw : Swarm Float := { xs, vs := [], pbest, gbest, w := 0.0 }
  match implOut with
  | .list [.atom status, pbS, gS] =>
    let s1 := { sw with pbest := pbestUpd sw.pbest sw.xs }
    let s2 := { s1 with gbest := gbestUpd s1.gbest s1.xs }
    let model := Sexp.list [.atom "ok", partsS "pbest" s2.pbest, gbestS s2.gbest]
    let (holds, cls) :=
      if status != "ok" then (false, status)
      else match (Sexp.tagged? "pbest" pbS).bind (·.mapM part?), (Sexp.tagged? "gbest" gS).bind gbest? with
        | some pb', some (some g') =>
          if pb'.length != xs.length then (false, "count")
          else if !(pb'.any (partEq g')) then (false, "gbest-not-a-pbest")
          else if minObj pb' != some g'.obj then (false, "gbest-not-min")
          else (true, "-")
        | _, _ => (false, "unreadable")
    pure { agree := Sexp.beq model implOut, holds, cls := if holds then "-" else cls, model }
  | _ => none

/-- The `ParticleSwarmInit` block. The sampled velocities are the witness (legality checked). O is the
property on the implementation's state: one entry per particle, and the global best a minimal personal
best — which fails when the state still held a better (or equally good) global best of an earlier swarm. -/
def swarmInitCase (args : List Sexp) (implOut : Sexp) : Option Verdict := do
  let vmax ← float1 "vmax" args
  let dim ← nat1 "dim" args
  let xs ← (← field "xs" args).mapM part?
  let gbest ← match field "gbest" args with
    | some g => gbest? g
    | none => some none
  match implOut with
  | .list [.atom "ctor-err"] => pure { agree := !(vmax > 0.0), holds := true, model := .atom "ctor-err" }
  | .list [.atom status, vsS', pbS, gS] =>
    let vs' ← (← Sexp.tagged? "vs" vsS').mapM floats?
    let sw : Swarm Float := { xs, vs := [], pbest := [], gbest, w := 0.0 }
    let legal := velInitLegal vmax dim vs' sw
    let msw := swarmInit vs' sw
    let model := Sexp.list [.atom "ok", vsS msw.vs, partsS "pbest" msw.pbest, gbestS msw.gbest]
    let agree := status == "ok" && vmax > 0.0 && legal && Sexp.beq model implOut
    let (holds, cls) :=
      if status != "ok" then (false, status)
      else if !legal then (false, "clamp")
      else match (Sexp.tagged? "pbest" pbS).bind (·.mapM part?), (Sexp.tagged? "gbest" gS).bind gbest? with
        | some pb', some g' =>
          if pb'.length != xs.length || vs'.length != xs.length then (false, "count")
          else if gbestHolds pb' g' then (true, "-")
          else match g' with
            | some g => if pb'.any (partBEq g) then (false, "gbest-not-min") else (false, "gbest-not-a-pbest")
            | none => (false, "gbest-missing")
        | _, _ => (false, "unreadable")
    pure { agree, holds, cls := if holds then "-" else cls, model }
  | _ => none

def linearCase (args : List Sexp) (implOut : Sexp) : Option Verdict := do
  let start ← float1 "start" args
  let stop ← float1 "end" args
  let prog ← float1 "progress" args
  let want := linear start stop prog
  let model := Sexp.list [.atom "ok", Sexp.ofFloat want]
  let holds := match implOut with
    | .list [.atom "ok", w] => match w.float? with
      | some w => close 1e-12 w want (start.abs + stop.abs)
      | none => false
    | _ => false
  pure { agree := holds, holds, cls := if holds then "-" else "inertia", model }

/-- One observed step of a `real_pso` run. -/
def stepOk (start stop : Float) (st : Sexp) : Bool × String :=
  match st with
  | .list [.atom "len", .atom tag, nx, nv, npb] =>
    if tag == "velinit" then (Sexp.beq nx nv, "count")
    else (Sexp.beq nx nv && Sexp.beq nx npb, "count")
  | .list [.atom "inertia", it, n, prog, w] =>
    match it.nat?, n.nat?, prog.float?, w.float? with
    | some it, some n, some prog, some w =>
      if !(close 1e-12 prog (progress (Float.ofNat it) (Float.ofNat n)) 1.0) then (false, "progress")
      else (close 1e-12 w (linear start stop prog) (start.abs + stop.abs), "inertia")
    | _, _, _, _ => (false, "bad-step")
  | .list [.atom "pb0", cand, new, hist] =>
    match floats? cand, floats? new, floats? hist with
    | some c, some n, some h => (c.length == n.length && (List.zip n h).all (fun (a, b) => close 1e-12 a b (a.abs + b.abs)) &&
        (List.zip n c).all (fun (a, b) => a == b), "not-best")
    | _, _, _ => (false, "unevaluated")
  | .list [.atom "pb", old, cand, new, hist, raw] =>
    match floats? old, floats? cand, floats? new, floats? hist, floats? raw with
    | some o, some c, some n, some h, some r =>
      if o.length != n.length || c.length != n.length || h.length != n.length then (false, "count")
      else if !((List.zip o n).all fun (a, b) => b ≤ a) then (false, "not-monotone")
      else if !((zip3 o c n).all fun (a, b, m) => m == (if b < a then b else a)) then (false, "not-best")
      else if !((List.zip n h).all fun (a, b) => close 1e-12 a b (a.abs + b.abs)) then (false, "not-best-visited")
      else if !((List.zip n r).all fun (a, b) => close 1e-12 a b (a.abs + b.abs)) then (false, "stale-best")
      else (true, "-")
    | _, _, _, _, _ => (false, "bad-step")
  | .list [.atom "inv", g, pbo, member] =>
    match g.float?, floats? pbo with
    | some g, some pbo =>
      if !(pbo.all fun o => g ≤ o) || !(pbo.any fun o => o == g) then (false, "gbest-not-min")
      else (Sexp.beq member (.atom "t"), "gbest-not-a-pbest")
    | _, _ => (false, "gbest-missing")
  | _ => (false, "shape")

def runCase (args : List Sexp) (implOut : Sexp) : Option Verdict := do
  let start ← float1 "start" args
  let stop ← float1 "end" args
  match implOut with
  | .list [.atom status, stepsS] =>
    let steps ← Sexp.tagged? "steps" stepsS
    let bad := (steps.map (stepOk start stop)).filter (fun r => !r.1)
    let n := fun (t : String) => (steps.filter (fun s => match s with | .list (.atom h :: _) => h == t | _ => false)).length
    let holds := bad.isEmpty && (status != "ok" || (n "pb" > 0 && n "inv" > 0 && n "inertia" > 0))
    let cls := match bad with
      | (_, c) :: _ => c
      | [] => if holds then "-" else "no-steps"
    -- the model never ends in `Err` / panic on these inputs (`run_keeps_swarm_consistent`)
    pure { agree := holds && status == "ok", holds, cls, model := .list [.atom "steps", Sexp.ofNat steps.length] }
  | _ => none

/-! ### `runx`: runs under composite termination conditions, hybrid prefixes, without inertia update -/

/-- `(lti n) | (lte k) | (not C) | (and C C) | (or C C) | (andn C+) | (orn C+)`; the n-ary forms
(`And::new([..])`) evaluate their operands in the same order as the nested binary ones. -/
def condOf : Nat → Sexp → Option Cond
  | 0, _ => none
  | _ + 1, .list [.atom "lti", n] => n.nat?.map Cond.ltIter
  | _ + 1, .list [.atom "lte", n] => n.nat?.map Cond.ltEval
  | fuel + 1, .list [.atom "not", c] => (condOf fuel c).map Cond.not
  | fuel + 1, .list [.atom "and", a, b] => do pure (Cond.and (← condOf fuel a) (← condOf fuel b))
  | fuel + 1, .list [.atom "or", a, b] => do pure (Cond.or (← condOf fuel a) (← condOf fuel b))
  | fuel + 1, .list (.atom "andn" :: x :: xs) => do
    let first ← condOf fuel x
    xs.foldlM (fun acc y => do pure (Cond.and acc (← condOf fuel y))) first
  | fuel + 1, .list (.atom "orn" :: x :: xs) => do
    let first ← condOf fuel x
    xs.foldlM (fun acc y => do pure (Cond.or acc (← condOf fuel y))) first
  | _, _ => none

def closeN (tol a b scale : Float) : Bool := (a.isNaN && b.isNaN) || close tol a b scale

/-- An observed `Progress` (`x` = not in the state) against the model's. -/
def progAgrees (obs : Sexp) (m : Option Float) : Bool :=
  match obs, m with
  | .atom "x", none => true
  | o, some p => match o.float? with
    | some v => closeN 1e-15 v p 1.0
    | none => false
  | _, _ => false

/-- K for the loop: the condition model, fed with the counters observed at each pass boundary, must
answer `true` before every pass and `false` at the exit, passes must be numbered 0, 1, 2, …, and the
two `Progress` states must hold what the model's evaluation leaves behind. -/
def loopAgrees (c : Cond) (steps : List Sexp) (foreignProgress : Bool := false) : Bool :=
  let lv0 : LoopVars Float := condInit 0.0 c ⟨0, 0, none, none⟩
  let obs := steps.filterMap fun s => match s with
    | .list [.atom "passx", it, ev, pi, pe] => some (true, it, ev, pi, pe)
    | .list [.atom "exitx", it, ev, pi, pe] => some (false, it, ev, pi, pe)
    | _ => none
  let rec go (k : Nat) : List (Bool × Sexp × Sexp × Sexp × Sexp) → Bool
    | [] => true
    | (want, it, ev, pi, pe) :: rest =>
      match it.nat?, ev.nat? with
      | some it, some ev =>
        let r := evalCond Float.ofNat c { lv0 with iters := it, evals := ev }
        -- what the `Progress` states hold after the loop has ended is not C18's business
        -- (with unscoped conditions in the loop body a `Progress` the loop's own condition knows nothing of may exist)
        it == k && r.1 == want && (!want || (progAgrees pi r.2.progIter &&
          (progAgrees pe r.2.progEval || (foreignProgress && r.2.progEval.isNone)))) && go (k + 1) rest
      | _, _ => false
  go 0 obs

/-- Verdict on one PSO loop's worth of observed steps (a whole `runx` run, or one segment of a `runn` run):
`(holds, class, agree, passes)`. -/
def segVerdict (start stop : Float) (inertia : Bool) (c : Cond) (status : String) (needExit : Bool) (useWAt : Bool)
    (steps : List Sexp) : Bool × String × Bool × Nat :=
  let P : Params Float := { c1 := 0.0, c2 := 0.0, vmax := 0.0, start, stop, inertia }
  let n := (c.lastIterBound).getD 0
  let isX := fun (s : Sexp) => match s with
    | .list (.atom h :: _) => h == "passx" || h == "exitx" || h == "wuse" || h == "ipass"
    | _ => false
  -- O, step by step: the clauses of the property on the implementation's states
  let bad := ((steps.filter (fun s => !isX s)).map (stepOk start stop)).filter (fun r => !r.1)
  -- … and "it is that stored weight which scales the old velocity in the next update": every velocity
  -- update read exactly the weight the latest inertia-weight update stored (the initial one before the
  -- first), wherever in the loop body that update stands
  let chain := steps.foldl (fun (acc : Float × List String) s => match s with
    | .list [.atom "inertia", _, _, _, w] => match w.float? with
      | some w => (w, acc.2)
      | none => (acc.1, "bad-step" :: acc.2)
    | .list [.atom "wuse", _, w] => match w.float? with
      | some w => if w == acc.1 then acc else (acc.1, "weight-chain" :: acc.2)
      | none => (acc.1, "bad-step" :: acc.2)
    | _ => acc) (start, [])
  let badW := chain.2.reverse
  -- K: the schedule the loop model predicts (`wAt`)
  let schedule := !useWAt || steps.all fun s => match s with
    | .list [.atom "wuse", it, w] => match it.nat?, w.float? with
      | some it, some w => close 1e-12 w (wAt Float.ofNat P n start it) (start.abs + stop.abs)
      | _, _ => false
    | _ => true
  let cnt := fun (t : String) => (steps.filter (fun s => match s with | .list (.atom h :: _) => h == t | _ => false)).length
  let passes := cnt "passx"
  let complete := status != "ok" ||
    ((cnt "exitx" == 1 || !needExit) && cnt "inv" == 2 * passes && cnt "pb" == passes && cnt "wuse" == passes &&
      cnt "inertia" == (if inertia then passes else 0))
  -- a run that ends in `Err` / panic disagrees with the model (K); O judges the states it went through
  let holds := bad.isEmpty && badW.isEmpty && complete
  let cls := match bad, badW with
    | (_, c) :: _, _ => c
    | [], c :: _ => c
    | [], [] => if holds then "-" else "no-steps"
  let agree := status == "ok" && loopAgrees c steps (!useWAt) && schedule
  (holds, cls, agree, passes)

def runxCase (args : List Sexp) (implOut : Sexp) : Option Verdict := do
  let start ← float1 "start" args
  let stop ← float1 "end" args
  let inertia ← nat1 "inertia" args
  let c ← condOf 64 (← (← field "cond" args).head?)
  match implOut with
  | .list [.atom status, stepsS] =>
    let steps ← Sexp.tagged? "steps" stepsS
    let (holds, cls, agree, passes) := segVerdict start stop (inertia == 1) c status true true steps
    pure { agree, holds, cls, model := .list [.atom "steps", Sexp.ofNat steps.length, .atom "passes", Sexp.ofNat passes] }
  | _ => none

/-! ### `runn`: PSO loops with further (scoped) loops / conditions in the body, PSO loops inside an enclosing loop -/

mutual
/-- `(sat) | (nop) | (eval) | (scope K*) | (loop C K*) | (if C K*)` -/
def compOf : Nat → Sexp → Option Comp
  | 0, _ => none
  | _ + 1, .list [.atom "sat"] => some .nop
  | _ + 1, .list [.atom "nop"] => some .nop
  | _ + 1, .list [.atom "eval"] => some .evals
  | fuel + 1, .list (.atom "scope" :: ks) => (compsOf fuel ks).map Comp.scope
  | fuel + 1, .list (.atom "loop" :: c :: ks) => do pure (Comp.loop (← condOf 64 c) (← compsOf fuel ks))
  | fuel + 1, .list (.atom "if" :: c :: ks) => do pure (Comp.branch (← condOf 64 c) (← compsOf fuel ks))
  | _, _ => none
def compsOf : Nat → List Sexp → Option Comps
  | 0, _ => none
  | _ + 1, [] => some .nil
  | fuel + 1, k :: ks => do pure (Comps.cons (← compOf fuel k) (← compsOf fuel ks))
end

/-- Every component of the block is a `Scope` (or has no bookkeeping at all) — `Comps.allScoped` of the proofs. -/
def Comps.allScopedB : Comps → Bool
  | .nil => true
  | .cons (.scope _) cs => Comps.allScopedB cs
  | .cons .nop cs => Comps.allScopedB cs
  | .cons _ _ => false

/-- Split the steps of a run at the `(seg)` markers (one segment per PSO executed). -/
def segments (steps : List Sexp) : List (List Sexp) :=
  let r := steps.foldl (fun (acc : List (List Sexp) × List Sexp) s => match s with
    | .list [.atom "seg"] => (acc.2.reverse :: acc.1, [])
    | s => (acc.1, s :: acc.2)) ([], [])
  (r.2.reverse :: r.1).reverse

/-- K for the refinements: the model's execution of the four slots (on the counters observed at the pass
boundary) goes through exactly as many passes of nested loops as the implementation did between two pass
boundaries of the PSO loop, and the `Progress<Iterations>` it leaves in the PSO loop's registry in front of the
inertia-weight update gives the weight the implementation stored in that pass. -/
def innerAgrees (start stop : Float) (inertia : Bool) (c : Cond) (np : Nat) (sl : Slots) (steps : List Sexp) : Bool :=
  let lv0 : LoopVars Float := condInit 0.0 c ⟨0, 0, none, none⟩
  -- observed: per pass (iterations, evaluations, number of `ipass`, weight stored)
  let obs := steps.foldl (fun (acc : List (Nat × Nat × Nat × Option Float)) s => match s with
    | .list [.atom "passx", it, ev, _, _] => ((it.nat?.getD 0), (ev.nat?.getD 0), 0, none) :: acc
    | .list (.atom "ipass" :: _) => match acc with
      | (it, ev, k, w) :: rest => (it, ev, k + 1, w) :: rest
      | [] => [(0, 0, 1, none)]
    | .list [.atom "inertia", _, _, _, w] => match acc with
      | (it, ev, k, _) :: rest => (it, ev, k, w.float?) :: rest
      | [] => []
    | _ => acc) []
  obs.all fun (it, ev, k, w) =>
    let lv := (evalCond Float.ofNat c { lv0 with iters := it, evals := ev }).2
    let run := fun (cs : Comps) (ch : Chain Float) => cexecs Float.ofNat 0.0 np 100000 cs ch
    let r1 := run sl.pre [frameOf lv]
    let r2 := run sl.con r1.chain
    -- the PSO loop's own evaluation
    let ch3 := setFirst (fun fr => fr.evals.isSome) (fun fr => { fr with evals := fr.evals.map (· + np) }) r2.chain
    let r3 := run sl.ine ch3
    let r4 := run sl.upd r3.chain
    let wOk := match w, getFirst (fun fr => fr.progIter) r3.chain with
      | some w, some p => inertia && close 1e-12 w (linear start stop p) (start.abs + stop.abs)
      | none, _ => true     -- no inertia-weight update observed in this pass (none configured, or the run ended)
      | some _, none => false
    r1.status == .ok && r2.status == .ok && r3.status == .ok && r4.status == .ok &&
      k == r1.passes + r2.passes + r3.passes + r4.passes && wOk

def runnCase (args : List Sexp) (implOut : Sexp) : Option Verdict := do
  let start ← float1 "start" args
  let stop ← float1 "end" args
  let inertia ← nat1 "inertia" args
  let wrap ← nat1 "wrap" args
  let np ← nat1 "np" args
  let c ← condOf 64 (← (← field "cond" args).head?)
  let sl : Slots := { pre := ← compsOf 64 (← field "pre" args), con := ← compsOf 64 (← field "con" args),
                      ine := ← compsOf 64 (← field "ine" args), upd := ← compsOf 64 (← field "upd" args) }
  match implOut with
  | .list [.atom status, stepsS] =>
    let steps ← Sexp.tagged? "steps" stepsS
    let segs := if wrap == 0 then [steps] else (segments steps).drop 1
    let vs := segs.map fun seg =>
      -- the schedule `wAt` is what the theorem promises for scoped refinements; in general the weight comes from
      -- the model's execution of the slots
      let isScoped := Comps.allScopedB sl.pre && Comps.allScopedB sl.con && Comps.allScopedB sl.ine && Comps.allScopedB sl.upd
      let (holds, cls, agree, passes) := segVerdict start stop (inertia == 1) c status (wrap == 0) isScoped seg
      (holds, cls, agree && innerAgrees start stop (inertia == 1) c np sl seg, passes)
    let holds := vs.all (·.1) && (status != "ok" || segs.length == (if wrap == 0 then 1 else wrap))
    let cls := match vs.find? (fun v => !v.1) with
      | some v => v.2.1
      | none => if holds then "-" else "no-steps"
    let agree := vs.all (·.2.2.1)
    let passes := (vs.map (·.2.2.2)).foldl (· + ·) 0
    pure { agree, holds, cls, model := .list [.atom "steps", Sexp.ofNat steps.length, .atom "passes", Sexp.ofNat passes] }
  | _ => none

def handle (input implOut : Sexp) : Option Verdict := do
  match input with
  | .list (.atom kind :: args) =>
    if kind == "vel" then velCase args implOut
    else if kind == "velinit" then velInitCase args implOut
    else if kind == "pbest" then pbestCase args implOut
    else if kind == "gbest" then gbestCase args implOut
    else if kind == "swarm" then swarmCase args implOut
    else if kind == "swarminit" then swarmInitCase args implOut
    else if kind == "linear" then linearCase args implOut
    else if kind == "run" || kind == "runc" then runCase args implOut
    else if kind == "runx" then runxCase args implOut
    else if kind == "runn" then runnCase args implOut
    else none
  | _ => none

end C18Drv

def main : IO Unit := driverMain (respond C18Drv.handle)
