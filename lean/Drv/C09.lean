import MahfModel.Model.Objective
open MahfModel MahfModel.Sexp MahfModel.Objective

/-! Driver for C09: `agree` = code-shaped model reproduces the implementation's output,
`holds` = the property's predicate on the implementation's output. -/

def tag (t : String) (xs : List Sexp) : Sexp := .list (.atom t :: xs)

def clsName (c : Cls) : String :=
  match c with
  | .nan => "nan" | .ninf => "ninf" | .pinf => "pinf" | .fin => "fin"

def illegalCls (v : F64) : String :=
  match v with
  | .nan => "nan" | .ninf => "ninf" | _ => "-"

def verdict (agree holds : Bool) (cls : String) (model : Sexp) : Verdict :=
  { agree, holds, cls := if holds then "-" else cls, model }

/-- `(try xB)` -/
def caseTry (b : UInt64) (impl : Sexp) : Verdict :=
  let v := Objective.ofBits b
  let model := match tryFrom v with
    | .ok w => tag "ok" [Sexp.ofBits b, Sexp.ofBits b, ofBool (isFinite w)]
    | .error e => illegalSexp e
  -- property: a value that comes out of the constructor is neither NaN nor −inf
  let (holds, cls) := match impl with
    | .list [.atom "ok", v1, v2, _] =>
      match bits? v1, bits? v2 with
      | some b1, some b2 =>
        let w1 := Objective.ofBits b1
        let w2 := Objective.ofBits b2
        (legal w1 && legal w2, if legal w1 then illegalCls w2 else illegalCls w1)
      | _, _ => (false, "badout")
    | _ => (true, "-")
  verdict (Sexp.beq model impl) holds cls model

def caseConst (impl : Sexp) : Verdict :=
  let model := Sexp.ofBits (0x7ff0000000000000 : UInt64)
  let (holds, cls) := match bits? impl with
    | some b => (legal (Objective.ofBits b), illegalCls (Objective.ofBits b))
    | none => (false, "badout")
  verdict (Sexp.beq model impl) holds cls model

def cmpOut (lt le gt ge eq : Bool) (p : Sexp) (c : Sexp) : Sexp :=
  .list [tag "lt" [ofBool lt], tag "le" [ofBool le], tag "gt" [ofBool gt], tag "ge" [ofBool ge],
         tag "eq" [ofBool eq], tag "pcmp" [p], tag "cmp" [c]]

def caseCmp (x y : UInt64) (impl : Sexp) : Verdict :=
  let a := Objective.ofBits x
  let b := Objective.ofBits y
  if !(legal a && legal b) then
    verdict (Sexp.beq (.atom "illegal") impl) true "-" (.atom "illegal")
  else
    let pc := objPartialCmp a b
    let model := cmpOut (pc == some .lt) (pc == some .lt || pc == some .eq) (pc == some .gt)
      (pc == some .gt || pc == some .eq) (objEq a b) (optOrdSexp pc) (outOrdSexp (objCmp a b))
    -- property: total, and exactly the numeric order
    let sp := valueCmp a b
    let spec := cmpOut (sp == some .lt) (sp == some .lt || sp == some .eq) (sp == some .gt)
      (sp == some .gt || sp == some .eq) (sp == some .eq) (optOrdSexp sp) (optOrdSexp sp)
    let panicked := match impl with
      | .list [_, _, _, _, _, _, .list [.atom "cmp", .atom "panic"]] => true
      | _ => false
    verdict (Sexp.beq model impl) (Sexp.beq spec impl) (if panicked then "panic" else "order") model

def caseOp (op : String) (x : UInt64) (y : Option UInt64) (impl : Sexp) : Option Verdict := do
  let a := Objective.ofBits x
  if !legal a then return verdict (Sexp.beq (.atom "illegal") impl) true "-" (.atom "illegal")
  if (op == "add" || op == "sub") && !(y.all fun y => legal (Objective.ofBits y)) then
    return verdict (Sexp.beq (.atom "illegal") impl) true "-" (.atom "illegal")
  let c ← match op, y with
    | "neg", none => some (negC a)
    | "add", some y => some (addC a (Objective.ofBits y))
    | "sub", some y => some (subC a (Objective.ofBits y))
    | "mul", some y => some (mulC a (Objective.ofBits y))
    | "div", some y => some (divC a (Objective.ofBits y) (signBit y))
    | _, _ => none
  let model := Sexp.list [tag "class" [c.toSexp], tag "cmp" [.atom (if c == .nan then "panic" else "ok")]]
  match impl with
  | .list [.list [.atom "r", r], .list [.atom "cmp", .atom later]] =>
    let rb ← bits? r
    let rc := cls (Objective.ofBits rb)
    let agree := rc == c && later == (if c == .nan then "panic" else "ok")
    let holds := rc.legal && later == "ok"
    pure (verdict agree holds (if rc.legal then "panic" else clsName rc) model)
  | _ => pure (verdict false false "badout" model)

def ordOf? : Sexp → Option (Option Ordering)
  | .atom "lt" => some (some .lt)
  | .atom "eq" => some (some .eq)
  | .atom "gt" => some (some .gt)
  | .atom "none" => some none
  | _ => none

/-- Transitivity on three observed comparison results (`none` = incomparable). -/
def transOk (ab bc ac : Option Ordering) : Bool :=
  match ab, bc with
  | some .eq, some .eq => ac == some .eq
  | some .lt, some .lt => ac == some .lt
  | some .lt, some .eq => ac == some .lt
  | some .eq, some .lt => ac == some .lt
  | some .gt, some .gt => ac == some .gt
  | some .gt, some .eq => ac == some .gt
  | some .eq, some .gt => ac == some .gt
  | some .eq, none => ac == none
  | none, some .eq => ac == none
  | _, _ => true

def caseTrip (x y z : UInt64) (impl : Sexp) : Verdict :=
  let a := Objective.ofBits x
  let b := Objective.ofBits y
  let c := Objective.ofBits z
  if !(legal a && legal b && legal c) then
    verdict (Sexp.beq (.atom "illegal") impl) true "-" (.atom "illegal")
  else
    let model := Sexp.list [outOrdSexp (objCmp a b), outOrdSexp (objCmp b c), outOrdSexp (objCmp a c)]
    let (holds, cls) := match impl with
      | .list [p, q, r] =>
        match ordOf? p, ordOf? q, ordOf? r with
        | some (some ab), some (some bc), some (some ac) => (transOk (some ab) (some bc) (some ac), "order")
        | _, _, _ => (false, "panic")
      | _ => (false, "badout")
    verdict (Sexp.beq model impl) holds cls model

def natSort (l : List Nat) : List Nat := l.foldr (fun x acc => ins x acc) []
where
  ins (x : Nat) : List Nat → List Nat
    | [] => [x]
    | y :: ys => if x ≤ y then x :: y :: ys else y :: ins x ys

def sortedBy (l : List F64) : Bool :=
  match l with
  | [] => true
  | x :: xs => (go x xs)
where
  go (p : F64) : List F64 → Bool
    | [] => true
    | y :: ys => (valueCmp p y == some .lt || valueCmp p y == some .eq) && go y ys

def optBits (o : Option UInt64) : Sexp :=
  match o with
  | some b => Sexp.ofBits b
  | none => .atom "none"

def caseSort (xs : List UInt64) (impl : Sexp) : Verdict :=
  let key : UInt64 → F64 := Objective.ofBits
  if !(xs.all fun b => legal (key b)) then
    verdict (Sexp.beq (.atom "illegal") impl) true "-" (.atom "illegal")
  else
    let model := match sortObjs key xs, minObjs key xs, maxObjs key xs with
      | .ok s, .ok mn, .ok mx =>
        Sexp.list [tag "sorted" (s.map Sexp.ofBits), tag "min" [optBits mn], tag "max" [optBits mx]]
      | _, _, _ => .atom "panic"
    let (holds, cls) := match impl with
      | .list [.list (.atom "sorted" :: s), .list [.atom "min", mn], .list [.atom "max", mx]] =>
        match s.mapM bits? with
        | none => (false, "badout")
        | some sb =>
          let perm := natSort (sb.map (·.toNat)) == natSort (xs.map (·.toNat))
          let sorted := sortedBy (sb.map key)
          let minOk := match bits? mn with
            | some m => xs.contains m && xs.all fun x => valueCmp (key m) (key x) != some .gt
            | none => xs.isEmpty
          let maxOk := match bits? mx with
            | some m => xs.contains m && xs.all fun x => valueCmp (key m) (key x) != some .lt
            | none => xs.isEmpty
          (perm && sorted && minOk && maxOk, "order")
      | _ => (false, "panic")
    verdict (Sexp.beq model impl) holds cls model

def vecSexp (v : List UInt64) : Sexp := .list (v.map Sexp.ofBits)

def caseMTry (xs : List UInt64) (impl : Sexp) : Verdict :=
  let v := xs.map Objective.ofBits
  let r := match tryFromVec v with
    | .ok w => tag "ok" [vecSexp xs, vecSexp xs, ofBool (w.all isFinite)]
    | .error e => illegalSexp e
  let model := Sexp.list [tag "vec" [r], tag "slice" [r]]
  let okLegal : Sexp → Bool
    | .list [.atom "ok", v1, v2, _] =>
      match bitsList? v1, bitsList? v2 with
      | some l1, some l2 => legalVec (l1.map Objective.ofBits) && legalVec (l2.map Objective.ofBits)
      | _, _ => false
    | _ => true
  let holds := match impl with
    | .list [.list [.atom "vec", r1], .list [.atom "slice", r2]] => okLegal r1 && okLegal r2
    | _ => false
  let cls := if v.any isNan then "nan" else "ninf"
  -- a vector holding both a NaN and a -inf is illegal for two reasons; which one is reported is not part of the
  -- property (the code scans for NaN first; reporting the first offending element is just as good)
  let bothKinds := v.any isNan && v.any infIsNegative
  let isErr : Sexp → Bool
    | .list [.atom "ok", _, _, _] => false
    | _ => true
  let agree := Sexp.beq model impl ||
    (bothKinds && match impl with
      | .list [.list [.atom "vec", r1], .list [.atom "slice", r2]] => isErr r1 && isErr r2
      | _ => false)
  verdict agree holds cls model

def mcmpOut (eq : Bool) (p : Option Ordering) : Sexp :=
  .list [tag "eq" [ofBool eq], tag "pcmp" [optOrdSexp p], tag "lt" [ofBool (p == some .lt)],
         tag "gt" [ofBool (p == some .gt)]]

def caseMCmp (xs ys : List UInt64) (impl : Sexp) : Verdict :=
  let a := xs.map Objective.ofBits
  let b := ys.map Objective.ofBits
  if !(legalVec a && legalVec b) then
    verdict (Sexp.beq (.atom "illegal") impl) true "-" (.atom "illegal")
  else
    let model := mcmpOut (vecEq a b) (paretoCmp a b)
    let spec := mcmpOut (paretoSpec a b == some .eq) (paretoSpec a b)
    verdict (Sexp.beq model impl) (Sexp.beq spec impl) "order" model

def caseMTrip (xs ys zs : List UInt64) (impl : Sexp) : Verdict :=
  let a := xs.map Objective.ofBits
  let b := ys.map Objective.ofBits
  let c := zs.map Objective.ofBits
  if !(legalVec a && legalVec b && legalVec c) then
    verdict (Sexp.beq (.atom "illegal") impl) true "-" (.atom "illegal")
  else
    let model := Sexp.list [optOrdSexp (paretoCmp a b), optOrdSexp (paretoCmp b c), optOrdSexp (paretoCmp a c)]
    let holds := match impl with
      | .list [p, q, r] =>
        match ordOf? p, ordOf? q, ordOf? r with
        | some ab, some bc, some ac => transOk ab bc ac
        | _, _, _ => false
      | _ => false
    verdict (Sexp.beq model impl) holds "order" model

def c09 (input implOut : Sexp) : Option Verdict :=
  match input with
  | .list [.atom "try", x] => do caseTry (← bits? x) implOut
  | .list [.atom "const", _] => some (caseConst implOut)
  | .list [.atom "cmp", x, y] => do caseCmp (← bits? x) (← bits? y) implOut
  | .list [.atom "op", .atom op, x] => do caseOp op (← bits? x) none implOut
  | .list [.atom "op", .atom op, x, y] => do caseOp op (← bits? x) (some (← bits? y)) implOut
  | .list [.atom "trip", x, y, z] => do caseTrip (← bits? x) (← bits? y) (← bits? z) implOut
  | .list [.atom "sort", xs] => do caseSort (← bitsList? xs) implOut
  | .list [.atom "mtry", xs] => do caseMTry (← bitsList? xs) implOut
  | .list [.atom "mcmp", xs, ys] => do caseMCmp (← bitsList? xs) (← bitsList? ys) implOut
  | .list [.atom "mtrip", xs, ys, zs] => do caseMTrip (← bitsList? xs) (← bitsList? ys) (← bitsList? zs) implOut
  | _ => none

def main : IO Unit := driverMain (respond c09)
