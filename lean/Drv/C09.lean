import MahfModel.Model.Objective
import MahfModel.Model.ObjectiveOrd
open MahfModel MahfModel.Sexp MahfModel.Objective

/-! Driver for C09: `agree` = code-shaped model reproduces the implementation's output,
`holds` = the property's predicate on the implementation's output. -/

def tag (t : String) (xs : List Sexp) : Sexp := .list (.atom t :: xs)

def clsName (c : Cls) : String :=
  match c with
  | .nan => "nan" | .ninf => "ninf" | .pinf => "pinf" | .fin => "fin"

def illegalCls (v : F64) : String :=
  match v with
  | .nan => "nan" | .ninf => "ninf" | _ => "-"

def verdict (agree holds : Bool) (cls : String) (model : Sexp) : Verdict :=
  { agree, holds, cls := if holds then "-" else cls, model }

/-- `(try xB)` -/
def caseTry (b : UInt64) (impl : Sexp) : Verdict :=
  let v := Objective.ofBits b
  let model := match tryFrom v with
    | .ok w => tag "ok" [Sexp.ofBits b, Sexp.ofBits b, ofBool (isFinite w)]
    | .error e => illegalSexp e
  -- property: a value that comes out of the constructor is neither NaN nor −inf
  let (holds, cls) := match impl with
    | .list [.atom "ok", v1, v2, _] =>
      match bits? v1, bits? v2 with
      | some b1, some b2 =>
        let w1 := Objective.ofBits b1
        let w2 := Objective.ofBits b2
        (legal w1 && legal w2, if legal w1 then illegalCls w2 else illegalCls w1)
      | _, _ => (false, "badout")
    | _ => (true, "-")
  verdict (Sexp.beq model impl) holds cls model

def caseConst (impl : Sexp) : Verdict :=
  let model := Sexp.ofBits (0x7ff0000000000000 : UInt64)
  let (holds, cls) := match bits? impl with
    | some b => (legal (Objective.ofBits b), illegalCls (Objective.ofBits b))
    | none => (false, "badout")
  verdict (Sexp.beq model impl) holds cls model

def cmpOut (lt le gt ge eq : Bool) (p : Sexp) (c : Sexp) : Sexp :=
  .list [tag "lt" [ofBool lt], tag "le" [ofBool le], tag "gt" [ofBool gt], tag "ge" [ofBool ge],
         tag "eq" [ofBool eq], tag "pcmp" [p], tag "cmp" [c], tag "ne" [ofBool (!eq)], tag "rcmp" [c],
         tag "rlt" [ofBool lt]]

def caseCmp (x y : UInt64) (impl : Sexp) : Verdict :=
  let a := Objective.ofBits x
  let b := Objective.ofBits y
  if !(legal a && legal b) then
    verdict (Sexp.beq (.atom "illegal") impl) true "-" (.atom "illegal")
  else
    let pc := objPartialCmp a b
    let model := cmpOut (pc == some .lt) (pc == some .lt || pc == some .eq) (pc == some .gt)
      (pc == some .gt || pc == some .eq) (objEq a b) (optOrdSexp pc) (outOrdSexp (objCmp a b))
    -- property: total, and exactly the numeric order
    let sp := valueCmp a b
    let spec := cmpOut (sp == some .lt) (sp == some .lt || sp == some .eq) (sp == some .gt)
      (sp == some .gt || sp == some .eq) (sp == some .eq) (optOrdSexp sp) (optOrdSexp sp)
    let panicked := match impl with
      | .list (_ :: _ :: _ :: _ :: _ :: _ :: .list [.atom "cmp", .atom "panic"] :: _) => true
      | _ => ((toString impl).splitOn "panic").length > 1
    verdict (Sexp.beq model impl) (Sexp.beq spec impl) (if panicked then "panic" else "order") model

def caseOp (op : String) (x : UInt64) (y : Option UInt64) (impl : Sexp) : Option Verdict := do
  let a := Objective.ofBits x
  if !legal a then return verdict (Sexp.beq (.atom "illegal") impl) true "-" (.atom "illegal")
  if (op == "add" || op == "sub") && !(y.all fun y => legal (Objective.ofBits y)) then
    return verdict (Sexp.beq (.atom "illegal") impl) true "-" (.atom "illegal")
  let c ← match op, y with
    | "neg", none => some (negC a)
    | "add", some y => some (addC a (Objective.ofBits y))
    | "sub", some y => some (subC a (Objective.ofBits y))
    | "mul", some y => some (mulC a (Objective.ofBits y))
    | "div", some y => some (divC a (Objective.ofBits y) (signBit y))
    | _, _ => none
  let model := Sexp.list [tag "class" [c.toSexp], tag "cmp" [.atom (if c == .nan then "panic" else "ok")]]
  match impl with
  | .list [.list [.atom "r", r], .list [.atom "cmp", .atom later]] =>
    let rb ← bits? r
    let rc := cls (Objective.ofBits rb)
    -- what `cmp` does on a NaN result (panic today) is not pinned: the NaN itself is already the recorded finding
    let agree := rc == c && (c == .nan || later == "ok")
    let holds := rc.legal && later == "ok"
    pure (verdict agree holds (if rc.legal then "panic" else clsName rc) model)
  | _ => pure (verdict false false "badout" model)

def ordOf? : Sexp → Option (Option Ordering)
  | .atom "lt" => some (some .lt)
  | .atom "eq" => some (some .eq)
  | .atom "gt" => some (some .gt)
  | .atom "none" => some none
  | _ => none

/-- Transitivity on three observed comparison results (`none` = incomparable). -/
def transOk (ab bc ac : Option Ordering) : Bool :=
  match ab, bc with
  | some .eq, some .eq => ac == some .eq
  | some .lt, some .lt => ac == some .lt
  | some .lt, some .eq => ac == some .lt
  | some .eq, some .lt => ac == some .lt
  | some .gt, some .gt => ac == some .gt
  | some .gt, some .eq => ac == some .gt
  | some .eq, some .gt => ac == some .gt
  | some .eq, none => ac == none
  | none, some .eq => ac == none
  | _, _ => true

def caseTrip (x y z : UInt64) (impl : Sexp) : Verdict :=
  let a := Objective.ofBits x
  let b := Objective.ofBits y
  let c := Objective.ofBits z
  if !(legal a && legal b && legal c) then
    verdict (Sexp.beq (.atom "illegal") impl) true "-" (.atom "illegal")
  else
    let model := Sexp.list [outOrdSexp (objCmp a b), outOrdSexp (objCmp b c), outOrdSexp (objCmp a c)]
    let (holds, cls) := match impl with
      | .list [p, q, r] =>
        match ordOf? p, ordOf? q, ordOf? r with
        | some (some ab), some (some bc), some (some ac) => (transOk (some ab) (some bc) (some ac), "order")
        | _, _, _ => (false, "panic")
      | _ => (false, "badout")
    verdict (Sexp.beq model impl) holds cls model

def natSort (l : List Nat) : List Nat := l.foldr (fun x acc => ins x acc) []
where
  ins (x : Nat) : List Nat → List Nat
    | [] => [x]
    | y :: ys => if x ≤ y then x :: y :: ys else y :: ins x ys

def sortedBy (l : List F64) : Bool :=
  match l with
  | [] => true
  | x :: xs => (go x xs)
where
  go (p : F64) : List F64 → Bool
    | [] => true
    | y :: ys => (valueCmp p y == some .lt || valueCmp p y == some .eq) && go y ys

def optBits (o : Option UInt64) : Sexp :=
  match o with
  | some b => Sexp.ofBits b
  | none => .atom "none"

def caseSort (xs : List UInt64) (impl : Sexp) : Verdict :=
  let key : UInt64 → F64 := Objective.ofBits
  if !(xs.all fun b => legal (key b)) then
    verdict (Sexp.beq (.atom "illegal") impl) true "-" (.atom "illegal")
  else
    let model := match sortObjs key xs, minObjs key xs, maxObjs key xs with
      | .ok s, .ok mn, .ok mx =>
        Sexp.list [tag "sorted" (s.map Sexp.ofBits), tag "min" [optBits mn], tag "max" [optBits mx]]
      | _, _, _ => .atom "panic"
    let (holds, cls) := match impl with
      | .list [.list (.atom "sorted" :: s), .list [.atom "min", mn], .list [.atom "max", mx]] =>
        match s.mapM bits? with
        | none => (false, "badout")
        | some sb =>
          let perm := natSort (sb.map (·.toNat)) == natSort (xs.map (·.toNat))
          let sorted := sortedBy (sb.map key)
          let minOk := match bits? mn with
            | some m => xs.contains m && xs.all fun x => valueCmp (key m) (key x) != some .gt
            | none => xs.isEmpty
          let maxOk := match bits? mx with
            | some m => xs.contains m && xs.all fun x => valueCmp (key m) (key x) != some .lt
            | none => xs.isEmpty
          (perm && sorted && minOk && maxOk, "order")
      | _ => (false, "panic")
    verdict (Sexp.beq model impl) holds cls model

def vecSexp (v : List UInt64) : Sexp := .list (v.map Sexp.ofBits)

def caseMTry (xs : List UInt64) (impl : Sexp) : Verdict :=
  let v := xs.map Objective.ofBits
  let r := match tryFromVec v with
    | .ok w => tag "ok" [vecSexp xs, vecSexp xs, ofBool (w.all isFinite)]
    | .error e => illegalSexp e
  let model := Sexp.list [tag "vec" [r], tag "slice" [r]]
  let okLegal : Sexp → Bool
    | .list [.atom "ok", v1, v2, _] =>
      match bitsList? v1, bitsList? v2 with
      | some l1, some l2 => legalVec (l1.map Objective.ofBits) && legalVec (l2.map Objective.ofBits)
      | _, _ => false
    | _ => true
  let holds := match impl with
    | .list [.list [.atom "vec", r1], .list [.atom "slice", r2]] => okLegal r1 && okLegal r2
    | _ => false
  let cls := if v.any isNan then "nan" else "ninf"
  -- a vector holding both a NaN and a -inf is illegal for two reasons; which one is reported is not part of the
  -- property (the code scans for NaN first; reporting the first offending element is just as good)
  let bothKinds := v.any isNan && v.any infIsNegative
  let isErr : Sexp → Bool
    | .list [.atom "ok", _, _, _] => false
    | _ => true
  let agree := Sexp.beq model impl ||
    (bothKinds && match impl with
      | .list [.list [.atom "vec", r1], .list [.atom "slice", r2]] => isErr r1 && isErr r2
      | _ => false)
  verdict agree holds cls model

def mcmpOut (eq : Bool) (p : Option Ordering) : Sexp :=
  .list [tag "eq" [ofBool eq], tag "pcmp" [optOrdSexp p], tag "lt" [ofBool (p == some .lt)],
         tag "gt" [ofBool (p == some .gt)], tag "le" [ofBool (p == some .lt || p == some .eq)],
         tag "ge" [ofBool (p == some .gt || p == some .eq)], tag "ne" [ofBool (!eq)]]

def caseMCmp (xs ys : List UInt64) (impl : Sexp) : Verdict :=
  let a := xs.map Objective.ofBits
  let b := ys.map Objective.ofBits
  if !(legalVec a && legalVec b) then
    verdict (Sexp.beq (.atom "illegal") impl) true "-" (.atom "illegal")
  else
    let model := mcmpOut (vecEq a b) (paretoCmp a b)
    let spec := mcmpOut (paretoSpec a b == some .eq) (paretoSpec a b)
    verdict (Sexp.beq model impl) (Sexp.beq spec impl) "order" model

def caseMTrip (xs ys zs : List UInt64) (impl : Sexp) : Verdict :=
  let a := xs.map Objective.ofBits
  let b := ys.map Objective.ofBits
  let c := zs.map Objective.ofBits
  if !(legalVec a && legalVec b && legalVec c) then
    verdict (Sexp.beq (.atom "illegal") impl) true "-" (.atom "illegal")
  else
    let model := Sexp.list [optOrdSexp (paretoCmp a b), optOrdSexp (paretoCmp b c), optOrdSexp (paretoCmp a c)]
    let holds := match impl with
      | .list [p, q, r] =>
        match ordOf? p, ordOf? q, ordOf? r with
        | some ab, some bc, some ac => transOk ab bc ac
        | _, _, _ => false
      | _ => false
    verdict (Sexp.beq model impl) holds "order" model

/-! ### users of the order (std, `BestIndividual`) -/

/-- An element of an input list: position, bit pattern, value. -/
structure El where
  ix : Nat
  bits : UInt64
  v : F64
  deriving Inhabited

def mkEls (xs : List UInt64) : List El :=
  (xs.zip (List.range xs.length)).map fun (b, i) => { ix := i, bits := b, v := Objective.ofBits b }

/-- The three questions, answered by the code-shaped model or by the numeric order. -/
structure Oracle where
  lt : F64 → F64 → Bool
  le : F64 → F64 → Bool
  eq : F64 → F64 → Bool

def codeO : Oracle := { lt := objLt, le := objLe, eq := objEq }
def specO : Oracle :=
  { lt := fun a b => valueCmp a b == some .lt
    le := fun a b => valueCmp a b == some .lt || valueCmp a b == some .eq
    eq := fun a b => valueCmp a b == some .eq }

def allLegal (xs : List UInt64) : Bool := xs.all fun b => legal (Objective.ofBits b)

def isPermOfRange (out : List Nat) (n : Nat) : Bool := natSort out == List.range n

def adjacent {α : Type} (r : α → α → Bool) : List α → Bool
  | x :: y :: rest => r x y && adjacent r (y :: rest)
  | _ => true

def optNat? : Sexp → Option (Option Nat)
  | .atom "none" => some none
  | .list [.atom "some", n] => (nat? n).map some
  | _ => none

def optNatSexp : Option Nat → Sexp
  | none => .atom "none"
  | some n => .list [.atom "some", ofNat n]

/-- first of the minima (documented for `Iterator::min`, `min_by`, `min_by_key`) -/
def firstMinOk (o : Oracle) (vals : Array F64) (r : Option Nat) : Bool :=
  match r with
  | none => vals.size == 0
  | some i => i < vals.size && (List.range vals.size).all fun j =>
      o.le (vals.getD i .nan) (vals.getD j .nan) && (j ≥ i || o.lt (vals.getD i .nan) (vals.getD j .nan))

/-- last of the maxima (documented for `Iterator::max`, `max_by`, `max_by_key`) -/
def lastMaxOk (o : Oracle) (vals : Array F64) (r : Option Nat) : Bool :=
  match r with
  | none => vals.size == 0
  | some i => i < vals.size && (List.range vals.size).all fun j =>
      o.le (vals.getD j .nan) (vals.getD i .nan) && (j ≤ i || o.lt (vals.getD j .nan) (vals.getD i .nan))

/-- some minimum (tie-agnostic): what a /repo-level user such as `best_individual` owes C09 -/
def anyMinOk (o : Oracle) (vals : Array F64) (r : Option Nat) : Bool :=
  match r with
  | none => vals.size == 0
  | some i => i < vals.size && (List.range vals.size).all fun j => o.le (vals.getD i .nan) (vals.getD j .nan)

/-- the unique result of a stable sort, as positions -/
def stableIdxOk (o : Oracle) (rev : Bool) (vals : Array F64) (out : List Nat) : Bool :=
  isPermOfRange out vals.size && adjacent (fun a b =>
    let x := vals.getD a .nan
    let y := vals.getD b .nan
    (if rev then o.lt y x else o.lt x y) || (o.eq x y && a < b)) out

def sortedIdxOk (o : Oracle) (vals : Array F64) (out : List Nat) : Bool :=
  isPermOfRange out vals.size && adjacent (fun a b => o.le (vals.getD a .nan) (vals.getD b .nan)) out

def permBits (xs out : List UInt64) : Bool := natSort (out.map (·.toNat)) == natSort (xs.map (·.toNat))

def sortedBitsOk (o : Oracle) (xs out : List UInt64) : Bool :=
  permBits xs out && adjacent (fun a b => o.le (Objective.ofBits a) (Objective.ofBits b)) out

def isZeroBits (b : UInt64) : Bool := b.toNat % 2 ^ 63 == 0

/-- Stable sort of bare values: ascending, and the only distinct patterns of equal value — the two
zeros (`cmp_eq_iff_bits`) — keep their input order. -/
def stableBitsOk (o : Oracle) (xs out : List UInt64) : Bool :=
  sortedBitsOk o xs out && out.filter isZeroBits == xs.filter isZeroBits

def selectNthOk (o : Oracle) (vals : Array F64) (k : Nat) (out : List Nat) : Bool :=
  let arr := out.toArray
  let pivot := vals.getD (arr.getD k 0) .nan
  isPermOfRange out vals.size && k < vals.size &&
    (List.range vals.size).all fun pos =>
      let x := vals.getD (arr.getD pos 0) .nan
      if pos < k then o.le x pivot else if pos > k then o.le pivot x else true

/-- members of a set built from `xs`: strictly ascending, drawn from `xs`, covering every value of `xs`;
with `first`, the representative of a value is the first pattern inserted with that value -/
def setOk (o : Oracle) (first : Bool) (xs out : List UInt64) : Bool :=
  let val := Objective.ofBits
  adjacent (fun a b => o.lt (val a) (val b)) out &&
  out.all (fun b => xs.contains b) &&
  xs.all (fun x => out.any fun b => o.eq (val b) (val x)) &&
  (!first || out.all fun b => (xs.find? fun x => o.eq (val x) (val b)) == some b)

def flagsOk (o : Oracle) (vals : Array F64) (flags : List Bool) : Bool :=
  flags.length == vals.size &&
  (flags.zip (List.range vals.size)).all fun (f, i) =>
    f == !((List.range i).any fun j => o.eq (vals.getD j .nan) (vals.getD i .nan))

def mapOk (o : Oracle) (xs : List UInt64) (vals : Array F64) (out : List (UInt64 × Nat)) : Bool :=
  setOk o true xs (out.map (·.1)) &&
  out.all fun (kb, i) =>
    i < vals.size && o.eq (vals.getD i .nan) (Objective.ofBits kb) &&
    (List.range vals.size).all fun j => j ≤ i || !o.eq (vals.getD j .nan) (Objective.ofBits kb)

def bsearchOk (o : Oracle) (xs sorted : List UInt64) (needle : F64) (r : Sexp) : Bool :=
  let sv := (sorted.map Objective.ofBits).toArray
  sortedBitsOk o xs sorted &&
  match r with
  | .list [.atom "ok", i] =>
    match nat? i with
    | some i => i < sv.size && o.eq (sv.getD i .nan) needle
    | none => false
  | .list [.atom "err", i] =>
    match nat? i with
    | some i => i ≤ sv.size && (List.range sv.size).all fun pos =>
        if pos < i then o.lt (sv.getD pos .nan) needle else o.lt needle (sv.getD pos .nan)
    | none => false
  | _ => false

def dedupO (o : Oracle) : List UInt64 → List UInt64
  | [] => []
  | x :: xs => x :: go x xs
where
  go (last : UInt64) : List UInt64 → List UInt64
    | [] => []
    | y :: ys =>
      if o.eq (Objective.ofBits y) (Objective.ofBits last) then go last ys else y :: go y ys

def lexO (o : Oracle) : List F64 → List F64 → Ordering
  | [], [] => .eq
  | [], _ :: _ => .lt
  | _ :: _, [] => .gt
  | x :: xs, y :: ys => if o.lt x y then .lt else if o.lt y x then .gt else lexO o xs ys

def sliceEqO (o : Oracle) : List F64 → List F64 → Bool
  | [], [] => true
  | x :: xs, y :: ys => o.eq x y && sliceEqO o xs ys
  | _, _ => false

def outToSexp {α : Type} (f : α → Sexp) : Outcome α → Sexp
  | .ok a => f a
  | .panic => .atom "panic"

def idxSexp (l : List El) : Sexp := ofNats (l.map (·.ix))
def bitsSexp (l : List El) : Sexp := .list (l.map fun e => Sexp.ofBits e.bits)
def optElSexp (o : Option El) : Sexp := optNatSexp (o.map (·.ix))

/-- programs are evaluated up to this length (they nest one `bind` per element) -/
def progLimit : Nat := 64

def pairs? : Sexp → Option (List (UInt64 × Nat))
  | .list xs => xs.mapM fun
      | .list [k, i] => do pure ((← bits? k), (← nat? i))
      | _ => none
  | _ => none

/-- `(std <op> (xs …) [arg])` -/
def caseStd (op : String) (xs : List UInt64) (arg : Option Sexp) (impl : Sexp) : Option Verdict := do
  if !allLegal xs then return verdict (Sexp.beq (.atom "illegal") impl) true "-" (.atom "illegal")
  let els := mkEls xs
  let vals := (els.map (·.v)).toArray
  let small := xs.length ≤ progLimit
  let key : El → F64 := El.v
  -- `pred o` is the documented result of the operation under the order `o`; `prog` the same operation as a
  -- comparison program run against the code-shaped model
  let (pred, prog) : (Oracle → Bool) × Option Sexp ←
    if op == "min" || op == "min_by_key" || op == "min_by_key_ref" || op == "min_by" || op == "tuple_min" then
      some (fun o => match optNat? impl with | some r => firstMinOk o vals r | none => false,
        some (outToSexp optElSexp ((pMin els).run key)))
    else if op == "max" || op == "max_by_key" || op == "max_by_key_ref" || op == "max_by" || op == "tuple_max" then
      some (fun o => match optNat? impl with | some r => lastMaxOk o vals r | none => false,
        some (outToSexp optElSexp ((pMax els).run key)))
    else if op == "sort" then
      some (fun o => match bitsList? impl with | some out => stableBitsOk o xs out | none => false,
        if small then some (outToSexp bitsSexp ((pSort false els).run key)) else none)
    else if op == "sort_by" || op == "sort_by_key" || op == "sort_by_cached_key" || op == "tuple_sort" then
      some (fun o => match nats? impl with | some out => stableIdxOk o false vals out | none => false,
        if small then some (outToSexp idxSexp ((pSort false els).run key)) else none)
    else if op == "sort_rev" then
      some (fun o => match nats? impl with | some out => stableIdxOk o true vals out | none => false,
        if small then some (outToSexp idxSexp ((pSort true els).run key)) else none)
    else if op == "sort_unstable" || op == "heap" then
      some (fun o => match bitsList? impl with | some out => sortedBitsOk o xs out | none => false, none)
    else if op == "sort_unstable_by" || op == "sort_unstable_by_key" then
      some (fun o => match nats? impl with | some out => sortedIdxOk o vals out | none => false, none)
    else if op == "select_nth" then
      let k ← arg.bind nat?
      some (fun o => match nats? impl with | some out => selectNthOk o vals k out | none => false, none)
    else if op == "btree_collect" then
      some (fun o => match bitsList? impl with | some out => setOk o false xs out | none => false, none)
    else if op == "btree_insert" then
      some (fun o => match impl with
          | .list [.list (.atom "set" :: s), .list (.atom "flags" :: fl)] =>
            match s.mapM bits?, fl.mapM bool? with
            | some out, some flags => setOk o true xs out && flagsOk o vals flags
            | _, _ => false
          | _ => false,
        if small then some (outToSexp (fun r : List El × List Bool =>
          .list [tag "set" (r.1.map fun e => Sexp.ofBits e.bits), tag "flags" (r.2.map ofBool)]) ((pSet els).run key))
        else none)
    else if op == "btree_map" then
      some (fun o => match pairs? impl with | some out => mapOk o xs vals out | none => false,
        if small then some (outToSexp (fun r : List (El × El) =>
          .list (r.map fun e => .list [Sexp.ofBits e.1.bits, ofNat e.2.ix])) ((pMap els).run key))
        else none)
    else if op == "binary_search" then
      let nb ← arg.bind bits?
      let needle := Objective.ofBits nb
      if !legal needle then none
      else some (fun o => match impl with
          | .list [.list (.atom "sorted" :: s), r] =>
            match s.mapM bits? with
            | some sorted => bsearchOk o xs sorted needle r
            | none => false
          | _ => false, none)
    else if op == "dedup" then
      some (fun o => Sexp.beq (.list ((dedupO o xs).map Sexp.ofBits)) impl,
        some (outToSexp bitsSexp ((pDedup els).run key)))
    else none
  let agree := match prog with
    | some m => Sexp.beq m impl
    | none => pred codeO
  let model := match prog with
    | some m => m
    | none => .atom "any-legal-witness"
  pure (verdict agree (pred specO) (if Sexp.beq impl (.atom "panic") then "panic" else "order") model)

/-- `(ord2 a b)`: the provided `Ord::min` / `Ord::max` (by value, through `std::cmp`, through references).
Which of two equal arguments comes back is std's documented choice (the model makes it), not part of C09:
the result must be one of the two arguments and bound both. -/
def caseOrd2 (x y : UInt64) (impl : Sexp) : Verdict :=
  let a : El := { ix := 0, bits := x, v := Objective.ofBits x }
  let b : El := { ix := 1, bits := y, v := Objective.ofBits y }
  if !(legal a.v && legal b.v) then verdict (Sexp.beq (.atom "illegal") impl) true "-" (.atom "illegal")
  else
    let out (mn mx : Sexp) : Sexp :=
      .list [tag "min" [mn], tag "max" [mx], tag "cmin" [mn], tag "cmax" [mx], tag "rmin" [mn], tag "rmax" [mx]]
    let elS : El → Sexp := fun e => Sexp.ofBits e.bits
    let model := out (outToSexp elS ((pOrdMin a b).run El.v)) (outToSexp elS ((pOrdMax a b).run El.v))
    let sel (o : Oracle) (isMin : Bool) (s : Sexp) : Bool :=
      match s with
      | .list [_, r] =>
        match bits? r with
        | some rb =>
          let rv := Objective.ofBits rb
          (rb == x || rb == y) &&
            (if isMin then o.le rv a.v && o.le rv b.v else o.le a.v rv && o.le b.v rv)
        | none => false
      | _ => false
    let pred (o : Oracle) : Bool := match impl with
      | .list [mn, mx, cmn, cmx, rmn, rmx] =>
        sel o true mn && sel o false mx && sel o true cmn && sel o false cmx && sel o true rmn && sel o false rmx
      | _ => false
    let panicked := ((toString impl).splitOn "panic").length > 1
    verdict (pred codeO) (pred specO) (if panicked then "panic" else "order") model

/-- `(clamp a lo hi)`: with `lo <= hi` the result is one of the three arguments, lies between the bounds and has the
value of `a` when `a` does. `lo > hi` is the documented precondition violation of `clamp` (std panics): nothing is
demanded of the code there. -/
def caseClamp (x l h : UInt64) (impl : Sexp) : Verdict :=
  let a : El := { ix := 0, bits := x, v := Objective.ofBits x }
  let lo : El := { ix := 1, bits := l, v := Objective.ofBits l }
  let hi : El := { ix := 2, bits := h, v := Objective.ofBits h }
  if !(legal a.v && legal lo.v && legal hi.v) then verdict (Sexp.beq (.atom "illegal") impl) true "-" (.atom "illegal")
  else
    let model := outToSexp (fun e : El => Sexp.ofBits e.bits) ((pClamp a lo hi).run El.v)
    let pred (o : Oracle) : Option Bool :=
      if o.lt hi.v lo.v then none
      else some (match bits? impl with
        | some rb =>
          let rv := Objective.ofBits rb
          (rb == x || rb == l || rb == h) && o.le lo.v rv && o.le rv hi.v &&
            (o.lt a.v lo.v || o.lt hi.v a.v || o.eq rv a.v)
        | none => false)
    let agree := match pred codeO with
      | some ok => ok
      | none => Sexp.beq model impl
    verdict agree ((pred specO).getD true) (if Sexp.beq impl (.atom "panic") then "panic" else "order") model

/-- `(lex (xs …) (ys …))`: lexicographic `Ord` / `PartialOrd` / `PartialEq` of slices of objectives -/
def caseLex (xs ys : List UInt64) (impl : Sexp) : Verdict :=
  if !(allLegal xs && allLegal ys) then verdict (Sexp.beq (.atom "illegal") impl) true "-" (.atom "illegal")
  else
    let a := mkEls xs
    let b := mkEls ys
    let out (c : Sexp) (p : Option Ordering) (e : Bool) : Sexp :=
      .list [tag "cmp" [c], tag "pcmp" [optOrdSexp p], tag "eq" [ofBool e], tag "lt" [ofBool (p == some .lt)],
             tag "le" [ofBool (p == some .lt || p == some .eq)]]
    let model := match (pLexP a b).run El.v, (pSliceEq a b).run El.v with
      | .ok p, .ok e => out (outOrdSexp ((pLex a b).run El.v)) p e
      | _, _ => .atom "panic"
    let so := lexO specO (a.map (·.v)) (b.map (·.v))
    let spec := out (ordSexp so) (some so) (sliceEqO specO (a.map (·.v)) (b.map (·.v)))
    let panicked := ((toString impl).splitOn "panic").length > 1
    verdict (Sexp.beq model impl) (Sexp.beq spec impl) (if panicked then "panic" else "order") model

/-- `(best (xs …))`: `BestIndividual::best_individual` on a `Vec` and on a slice of individuals. Which of several
individuals with the same objective value is returned is not C09's business. -/
def caseBest (xs : List UInt64) (impl : Sexp) : Verdict :=
  if !allLegal xs then verdict (Sexp.beq (.atom "illegal") impl) true "-" (.atom "illegal")
  else
    let els := mkEls xs
    let vals := (els.map (·.v)).toArray
    let pred (o : Oracle) : Bool := match impl with
      | .list [.list [.atom "vec", r1], .list [.atom "slice", r2]] =>
        match optNat? r1, optNat? r2 with
        | some a, some b => anyMinOk o vals a && anyMinOk o vals b
        | _, _ => false
      | _ => false
    let m := outToSexp optElSexp ((pMin els).run El.v)
    verdict (pred codeO) (pred specO) (if Sexp.beq impl (.atom "panic") then "panic" else "order")
      (.list [tag "vec" [m], tag "slice" [m]])

def c09 (input implOut : Sexp) : Option Verdict :=
  match input with
  | .list [.atom "try", x] => do caseTry (← bits? x) implOut
  | .list [.atom "const", _] => some (caseConst implOut)
  | .list [.atom "cmp", x, y] => do caseCmp (← bits? x) (← bits? y) implOut
  | .list [.atom "op", .atom op, x] => do caseOp op (← bits? x) none implOut
  | .list [.atom "op", .atom op, x, y] => do caseOp op (← bits? x) (some (← bits? y)) implOut
  | .list [.atom "trip", x, y, z] => do caseTrip (← bits? x) (← bits? y) (← bits? z) implOut
  | .list [.atom "sort", xs] => do caseSort (← bitsList? xs) implOut
  | .list [.atom "mtry", xs] => do caseMTry (← bitsList? xs) implOut
  | .list [.atom "mcmp", xs, ys] => do caseMCmp (← bitsList? xs) (← bitsList? ys) implOut
  | .list [.atom "ord2", x, y] => do caseOrd2 (← bits? x) (← bits? y) implOut
  | .list [.atom "clamp", x, l, h] => do caseClamp (← bits? x) (← bits? l) (← bits? h) implOut
  | .list [.atom "lex", .list (.atom "xs" :: xs), .list (.atom "ys" :: ys)] => do
    caseLex (← xs.mapM bits?) (← ys.mapM bits?) implOut
  | .list [.atom "std", .atom op, .list (.atom "xs" :: xs)] => do caseStd op (← xs.mapM bits?) none implOut
  | .list [.atom "std", .atom op, .list (.atom "xs" :: xs), arg] => do caseStd op (← xs.mapM bits?) (some arg) implOut
  | .list [.atom "best", .list (.atom "xs" :: xs)] => do caseBest (← xs.mapM bits?) implOut
  | .list [.atom "mtrip", xs, ys, zs] => do caseMTrip (← bitsList? xs) (← bitsList? ys) (← bitsList? zs) implOut
  | _ => none

def main : IO Unit := driverMain (respond c09)
