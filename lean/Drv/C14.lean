import MahfModel.Model.Boundary
open MahfModel MahfModel.Sexp MahfModel.Boundary

namespace C14

def floats? : Sexp → Option (List Float)
  | .list xs => xs.mapM float?
  | _ => none

def ofFloats (l : List Float) : Sexp := .list (l.map ofFloat)

def pop? (tag : String) (s : Sexp) : Option (List (List Float)) := do
  let xs ← tagged? tag s
  xs.mapM floats?

/-- `(dom (a b) ..)`: one pair = the same range in each of `dim` dimensions. -/
def dom? (s : Sexp) (dim : Nat) : Option (List (Float × Float)) := do
  let xs ← tagged? "dom" s
  let ps ← xs.mapM fun
    | .list [a, b] => do pure ((← float? a), (← float? b))
    | _ => none
  pure (match ps with | [p] => List.replicate dim p | _ => ps)

def ofPop (tag : String) (p : List (List Float)) : Sexp := .list (.atom tag :: p.map ofFloats)

/-- Relative tolerance 1e-9; bit-equal values (incl. NaN patterns) are equal. -/
def feq (x y : Float) : Bool :=
  if x.toBits == y.toBits then true
  else if x.isNaN || y.isNaN then x.isNaN && y.isNaN
  else x == y || (x - y).abs ≤ 1e-9 * (max x.abs y.abs) || (x - y).abs ≤ 1e-300

def feqList : List Float → List Float → Bool
  | [], [] => true
  | x :: xs, y :: ys => feq x y && feqList xs ys
  | _, _ => false

def feqPop : List (List Float) → List (List Float) → Bool
  | [], [] => true
  | x :: xs, y :: ys => feqList x y && feqPop xs ys
  | _, _ => false

def bitEqList (a b : List Float) : Bool := a.map Float.toBits == b.map Float.toBits
def bitEqPop (a b : List (List Float)) : Bool := a.map (·.map Float.toBits) == b.map (·.map Float.toBits)

/-- Fuel of the Mirror model. After the fold the real loop needs one or two passes; the fuel is kept
far larger so that a rewrite which folds later (or not at all for moderately distant values) and
therefore loops longer still agrees with the model, and far smaller than a hanging run takes. -/
def mirrorFuel : Nat := 4000000

/-- One application of operator `op` to a population; `none` = panic / fuel or script exhausted. -/
def applyOp (op : String) (dom : List (Float × Float)) (pop : List (List Float)) (script : List Float) :
    Option (List (List Float) × List Float) :=
  match op with
  | "sat" => (pop.mapM fun s => zipDomainM saturation s dom).map (·, script)
  | "tor" => some (pop.map fun s => zipDomain (toroidal Float.floor) s dom, script)
  | "mir" => (pop.mapM fun s => zipDomainM (mirror f64RemEuclid mirrorFuel) s dom).map (·, script)
  | "otn" => oneTailedPopulation dom pop script
  | _ => none

def verdict (agree holds : Bool) (cls : String) (model : Sexp) : Verdict :=
  { agree, holds, cls := if holds then "-" else cls, model }

/-- First failing clause of the repair property on the implementation's output; every coordinate
is judged against the range of ITS OWN dimension. -/
def repairClass (dom : List (Float × Float)) (inp r1 r2 : List (List Float)) : String :=
  let slack := fun (d : Float × Float) => 4 * 2.220446049250313e-16 * (max d.1.abs d.2.abs)
  let sameShape := inp.map List.length == r1.map List.length
  if !sameShape then "dimension"
  else if r1.any (·.any Float.isNaN) then "nan"
  else if r1.any (fun s => (s.zip dom).any fun (x, d) => !(d.1 - slack d ≤ x && x ≤ d.2 + slack d)) then "out-of-bounds"
  else if (inp.zip r1).any (fun (s, t) => ((s.zip t).zip dom).any fun ((x, y), d) =>
      d.1 ≤ x && x ≤ d.2 && x.toBits != y.toBits)
    then "moved-inside"
  else if !bitEqPop r1 r2 then "not-idempotent"
  else "-"

def bnd (args : List Sexp) (impl : Sexp) : Option Verdict :=
  match args with
  | [.atom op, _kind, domS, _seed, pop] => do
    let inp ← pop? "pop" pop
    let dim := inp.foldl (fun m s => max m s.length) 0
    let dom ← dom? domS dim
    -- the script is part of the implementation-side observation (twin generator)
    let script : List Float := match impl with
      | .list [_, _, w] => ((tagged? "w" w).bind fun xs => xs.mapM float?).getD []
      | _ => []
    let m1 := applyOp op dom inp script
    let m2 := m1.bind fun (p, s) => applyOp op dom p s
    let modelS : Sexp := match m1, m2 with
      | some (p1, _), some (p2, _) => .list [ofPop "r1" p1, ofPop "r2" p2]
      | _, _ => .atom (if op == "mir" || op == "otn" then "timeout" else "panic")
    match impl with
    | .atom "timeout" =>
      pure (verdict (op == "mir" && m1.isNone || op == "otn" && m1.isNone) false "timeout" modelS)
    | .atom "panic" => pure (verdict (op == "sat" && m1.isNone) false "panic" modelS)
    | .list [.atom "e", _] => pure (verdict false false "err" modelS)
    | .list [r1, r2, _] => do
      let r1 ← pop? "r1" r1
      let r2 ← pop? "r2" r2
      let agree := match m1, m2 with
        | some (p1, _), some (p2, _) => feqPop p1 r1 && feqPop p2 r2
        | _, _ => false
      let cls := repairClass dom inp r1 r2
      pure (verdict agree (cls == "-") cls modelS)
    | _ => none
  | _ => none

/-- `(EVAL sol)` entries of the printed population. -/
def inds? (s : Sexp) : Option (List (Bool × Sexp)) := do
  let xs ← tagged? "pop" s
  xs.mapM fun
    | .list [e, sol] => do pure ((← bool? e), sol)
    | _ => none

def init (args : List Sexp) (impl : Sexp) : Option Verdict :=
  match args with
  | .atom kind :: n :: dim :: h :: _seed :: rest => do
    let n ← nat? n
    let dim ← nat? dim
    let h ← nat? h
    match impl with
    | .atom "panic" =>
      -- only `RandomBitstring` with an invalid probability and n > 0 panics in the model
      let modelPanics := match kind, rest with
        | "bits", [p] => match float? p with
          | some p => (randomBitstring dim n (0.0 ≤ p && p ≤ 1.0) (fun _ _ => false)).isNone
          | none => false
        | _, _ => false
      let malformed := match kind, rest with
        | "bits", [p] => match float? p with
          | some p => !(0.0 ≤ p && p ≤ 1.0)
          | none => false
        | _, _ => false
      pure (verdict modelPanics malformed "panic" (.atom (if modelPanics then "panic" else "ok")))
    | .list [.atom "e", _] => pure (verdict false false "err" (.atom "ok"))
    | .list [height, below, popS] => do
      let height ← nat? height
      let below ← bool? below
      let inds ← inds? popS
      let frame := height == h + 1 && below
      let uneval := inds.all fun (e, _) => !e
      match kind, rest with
      | "empty", _ =>
        let ok := frame && inds.isEmpty
        pure (verdict ok ok (if !frame then "stack" else "count") (.atom "ok"))
      | "spread", [domS] => do
        let dom ← dom? domS dim
        let sols ← inds.mapM fun (_, s) => floats? s
        let model := randomSpread dom n (fun i j => (sols.getD i []).getD j (0.0 / 0.0))
        -- legality of the witness = `gen_range(a_j..b_j)`'s contract (half-open), per dimension
        let legal := sols.all fun s => (s.zip dom).all fun (x, d) => d.1 ≤ x && x < d.2
        let agree := bitEqPop model sols && legal && frame && uneval
        let cls := if !frame then "stack" else if sols.length != n then "count"
          else if sols.any (·.length != dim) then "dimension" else if !uneval then "evaluated"
          else if sols.any (fun s => (s.zip dom).any fun (x, d) => !(d.1 ≤ x && x ≤ d.2)) then "out-of-bounds" else "-"
        pure (verdict agree (cls == "-") cls (ofPop "pop" model))
      | "perm", _ => do
        let sols ← inds.mapM fun (_, s) => nats? s
        let model := randomPermutation dim n (fun i => sols.getD i [])
        let legal := sols.all (isPermOfRange · dim)
        let agree := model == some sols && legal && frame && uneval
        let cls := if !frame then "stack" else if sols.length != n then "count"
          else if sols.any (·.length != dim) then "dimension" else if !uneval then "evaluated"
          else if !legal then "not-permutation" else "-"
        pure (verdict agree (cls == "-") cls
          (match model with | some m => .list (m.map ofNats) | none => .atom "illegal-witness"))
      | "bits", [p] => do
        let p ← float? p
        let sols ← inds.mapM fun (_, s) => match s with
          | .list xs => xs.mapM bool?
          | _ => none
        let pValid := 0.0 ≤ p && p ≤ 1.0
        let model := randomBitstring dim n pValid (fun i j => (sols.getD i []).getD j false)
        let legal := (p != 0.0 || sols.all (·.all (!·))) && (p != 1.0 || sols.all (·.all id))
        let agree := model == some sols && legal && frame && uneval
        let cls := if !frame then "stack" else if sols.length != n then "count"
          else if sols.any (·.length != dim) then "dimension" else if !uneval then "evaluated" else "-"
        pure (verdict agree (cls == "-" || !pValid) cls (.atom (if model.isSome then "ok" else "panic")))
      | _, _ => none
    | _ => none
  | _ => none

def c14 (input implOut : Sexp) : Option Verdict :=
  match input with
  | .list (.atom "bnd" :: args) => bnd args implOut
  | .list (.atom "init" :: args) => init args implOut
  | _ => none

end C14

def main : IO Unit := driverMain (respond C14.c14)
