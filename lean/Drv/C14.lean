import MahfModel.Model.Boundary
open MahfModel MahfModel.Sexp MahfModel.Boundary

namespace C14

def floats? : Sexp → Option (List Float)
  | .list xs => xs.mapM float?
  | _ => none

def ofFloats (l : List Float) : Sexp := .list (l.map ofFloat)

def pop? (tag : String) (s : Sexp) : Option (List (List Float)) := do
  let xs ← tagged? tag s
  xs.mapM floats?

/-- `(dom (a b) ..)`: one pair = the same range in each of `dim` dimensions. -/
def dom? (s : Sexp) (dim : Nat) : Option (List (Float × Float)) := do
  let xs ← tagged? "dom" s
  let ps ← xs.mapM fun
    | .list [a, b] => do pure ((← float? a), (← float? b))
    | _ => none
  pure (match ps with | [p] => List.replicate dim p | _ => ps)

def ofPop (tag : String) (p : List (List Float)) : Sexp := .list (.atom tag :: p.map ofFloats)

/-- Relative tolerance 1e-9; bit-equal values (incl. NaN patterns) are equal. -/
def feq (x y : Float) : Bool :=
  if x.toBits == y.toBits then true
  else if x.isNaN || y.isNaN then x.isNaN && y.isNaN
  else x == y || (x - y).abs ≤ 1e-9 * (max x.abs y.abs) || (x - y).abs ≤ 1e-300

def feqList : List Float → List Float → Bool
  | [], [] => true
  | x :: xs, y :: ys => feq x y && feqList xs ys
  | _, _ => false

def feqPop : List (List Float) → List (List Float) → Bool
  | [], [] => true
  | x :: xs, y :: ys => feqList x y && feqPop xs ys
  | _, _ => false

/-- Comparison of repaired coordinates: `feq`, or an absolute difference within 1e-9 of the magnitude of
the coordinate's own bounds (a result next to zero carries the rounding of arithmetic on the bounds). -/
def feqIn (d : Float × Float) (x y : Float) : Bool :=
  feq x y || (x - y).abs ≤ 1e-9 * (max d.1.abs d.2.abs)

def feqSolDom (dom : List (Float × Float)) : List Float → List Float → Bool
  | [], [] => true
  | x :: xs, y :: ys =>
    (match dom with | d :: _ => feqIn d x y | [] => feq x y) && feqSolDom (dom.drop 1) xs ys
  | _, _ => false

def feqPopDom (dom : List (Float × Float)) : List (List Float) → List (List Float) → Bool
  | [], [] => true
  | x :: xs, y :: ys => feqSolDom dom x y && feqPopDom dom xs ys
  | _, _ => false

def bitEqList (a b : List Float) : Bool := a.map Float.toBits == b.map Float.toBits
def bitEqPop (a b : List (List Float)) : Bool := a.map (·.map Float.toBits) == b.map (·.map Float.toBits)

/-- Fuel of the Mirror model. After the fold the real loop needs one or two passes; the fuel is kept
far larger so that a rewrite which folds later (or not at all for moderately distant values) and
therefore loops longer still agrees with the model, and far smaller than a hanging run takes. -/
def mirrorFuel : Nat := 4000000

/-- The operator `op` as the driver `boundary_constraint` sees it (Model/Boundary.lean). -/
def opOf (op : String) (dom : List (Float × Float)) : Option (List Float → List Float → Option (List Float × List Float)) :=
  match op with
  | "sat" => some (satOp dom)
  | "tor" => some (torOp Float.floor dom)
  | "mir" => some (mirOp f64RemEuclid mirrorFuel dom)
  | "otn" => some (otnOp dom)
  | _ => none

/-- One application of the real driver's model to a population stack (last = current);
`none` = panic / fuel or script exhausted. -/
def applyOp (op : String) (dom : List (Float × Float)) (stack : List (List (List Float))) (script : List Float) :
    Option (List (List (List Float)) × List Float) :=
  (opOf op dom).bind fun f => boundaryConstraint f stack script

def verdict (agree holds : Bool) (cls : String) (model : Sexp) : Verdict :=
  { agree, holds, cls := if holds then "-" else cls, model }

def slackOf (d : Float × Float) : Float := 4 * 2.220446049250313e-16 * (max d.1.abs d.2.abs)

/-- First failing clause of the repair property on the implementation's output; every coordinate
is judged against the range of ITS OWN dimension.  Bounds are closed with 4 ulp slack (rounding of
the bound arithmetic); a coordinate that was inside must come back bit-identical; the second
application must return every coordinate that is exactly inside bit-identical, and keep one that is
within the slack within the slack. -/
def repairClass (dom : List (Float × Float)) (inp r1 r2 : List (List Float)) : String :=
  let inSlack := fun (x : Float) (d : Float × Float) => d.1 - slackOf d ≤ x && x ≤ d.2 + slackOf d
  let sameShape := inp.map List.length == r1.map List.length && r1.map List.length == r2.map List.length
  if !sameShape then "dimension"
  else if r1.any (·.any Float.isNaN) then "nan"
  else if r1.any (fun s => (s.zip dom).any fun (x, d) => !inSlack x d) then "out-of-bounds"
  else if (inp.zip r1).any (fun (s, t) => ((s.zip t).zip dom).any fun ((x, y), d) =>
      d.1 ≤ x && x ≤ d.2 && x.toBits != y.toBits)
    then "moved-inside"
  else if (r1.zip r2).any (fun (s, t) => ((s.zip t).zip dom).any fun ((y, z), d) =>
      if d.1 ≤ y && y ≤ d.2 then y.toBits != z.toBits else !inSlack z d)
    then "not-idempotent"
  else "-"

def ofStack (tag : String) (st : List (List (List Float))) : Sexp :=
  .list (.atom tag :: st.map (ofPop "pop"))

def stack? (tag : String) (s : Sexp) : Option (List (List (List Float))) := do
  let xs ← tagged? tag s
  xs.mapM (pop? "pop")

def bitEqStack (a b : List (List (List Float))) : Bool :=
  a.map (·.map (·.map Float.toBits)) == b.map (·.map (·.map Float.toBits))

def feqStack (dom : List (Float × Float)) : List (List (List Float)) → List (List (List Float)) → Bool
  | [], [] => true
  | x :: xs, y :: ys => feqPopDom dom x y && feqStack dom xs ys
  | _, _ => false

/-- Witness-based agreement for the resampling operator (DESIGN §5.5, §8: no draw-for-draw comparison):
from the implementation's output read off, per repaired coordinate, the deviate that produces it in ONE
pass (`s = (y − a)/σ` from below, `(b − y)/σ` from above, `σ = (b − a)/3`); the witness is legal iff every
deviate is a non-negative finite number, the model's value `a + σ·s` / `b − σ·s` reproduces the output, and
coordinates that were inside carry no deviate and are bit-identical. -/
def otnWitnessOk (dom : List (Float × Float)) (inp r1 : List (List Float)) : Bool :=
  inp.length == r1.length &&
  (inp.zip r1).all fun (s, t) => s.length == t.length &&
    ((s.zip t).zip dom).all fun ((x, y), d) =>
      let a := d.1; let b := d.2; let sg := (b - a) / 3
      if x < a then
        let dev := (y - a) / sg
        0.0 ≤ dev && dev.isFinite && feq (a + sg * dev) y || (a + sg * dev - y).abs ≤ 1e-9 * (max a.abs b.abs) && 0.0 ≤ dev
      else if x > b then
        let dev := (b - y) / sg
        0.0 ≤ dev && dev.isFinite && feq (b - sg * dev) y || (b - sg * dev - y).abs ≤ 1e-9 * (max a.abs b.abs) && 0.0 ≤ dev
      else x.toBits == y.toBits

/-- `(bnd OP KIND dom SEED (pop ..))` (one population) and `(bnds OP KIND dom SEED (stack (pop ..) ..))`
(a population stack, last = current): the model is the driver `boundaryConstraint` applied twice. -/
def bndCore (op : String) (domS : Sexp) (stack : List (List (List Float))) (asStack : Bool) (impl : Sexp) :
    Option Verdict := do
  let dim := stack.foldl (fun m p => p.foldl (fun m s => max m s.length) m) 0
  let dom ← dom? domS dim
  -- the script is part of the implementation-side observation (twin generator)
  let script : List Float := match impl with
    | .list [_, _, w] => ((tagged? "w" w).bind fun xs => xs.mapM float?).getD []
    | _ => []
  let m1 := applyOp op dom stack script
  let m2 := m1.bind fun (p, s) => applyOp op dom p s
  let show1 := fun (tag : String) (st : List (List (List Float))) =>
    if asStack then ofStack tag st else ofPop tag (st.getLast?.getD [])
  let modelS : Sexp := match m1, m2 with
    | some (p1, _), some (p2, _) => .list [show1 "r1" p1, show1 "r2" p2]
    | _, _ => .atom (if stack.isEmpty then "panic" else if op == "mir" || op == "otn" then "timeout" else "panic")
  match impl with
  | .atom "timeout" =>
    pure (verdict ((op == "mir" || op == "otn") && m1.isNone && !stack.isEmpty) false "timeout" modelS)
  | .atom "panic" =>
    -- an empty stack is outside the property (`current_mut` documents the panic): the model agrees, nothing is demanded
    if stack.isEmpty then pure (verdict m1.isNone true "-" modelS)
    else pure (verdict (op == "sat" && m1.isNone) false "panic" modelS)
  | .list [.atom "e", _] => pure (verdict false false "err" modelS)
  | .list [r1, r2, _] => do
    let r1 ← if asStack then stack? "r1" r1 else (pop? "r1" r1).map ([·])
    let r2 ← if asStack then stack? "r2" r2 else (pop? "r2" r2).map ([·])
    let inpTop := stack.getLast?.getD []
    let t1 := r1.getLast?.getD []
    let t2 := r2.getLast?.getD []
    let exact := match m1, m2 with
      | some (p1, _), some (p2, _) => feqStack dom p1 r1 && feqStack dom p2 r2
      | _, _ => false
    -- frame: same height, everything below the current population bit-identical, after both applications
    let frame := r1.length == stack.length && r2.length == stack.length && !stack.isEmpty &&
      bitEqStack r1.dropLast stack.dropLast && bitEqStack r2.dropLast stack.dropLast
    let cls := if !frame then "frame" else repairClass dom inpTop t1 t2
    let agree := exact || (op == "otn" && frame && cls == "-" && otnWitnessOk dom inpTop t1 && bitEqPop t1 t2)
    pure (verdict agree (cls == "-") cls modelS)
  | _ => none

def bnd (args : List Sexp) (impl : Sexp) : Option Verdict :=
  match args with
  | [.atom op, _kind, domS, _seed, pop] => do
    let inp ← pop? "pop" pop
    bndCore op domS [inp] false impl
  | _ => none

def bnds (args : List Sexp) (impl : Sexp) : Option Verdict :=
  match args with
  | [.atom op, _kind, domS, _seed, st] => do
    let stack ← stack? "stack" st
    bndCore op domS stack true impl
  | _ => none

/-- `(rem x m)`: the carrier operation `f64::rem_euclid` itself (trusted-base tie of `f64RemEuclid`). -/
def remCase (args : List Sexp) (impl : Sexp) : Option Verdict :=
  match args with
  | [x, m] => do
    let x ← float? x
    let m ← float? m
    let r ← float? impl
    let mine := f64RemEuclid x m
    let same := mine.toBits == r.toBits || (mine.isNaN && r.isNaN)
    pure (verdict same true "-" (ofFloat mine))
  | _ => none

/-- `(EVAL sol)` entries of the printed population. -/
def inds? (s : Sexp) : Option (List (Bool × Sexp)) := do
  let xs ← tagged? "pop" s
  xs.mapM fun
    | .list [e, sol] => do pure ((← bool? e), sol)
    | _ => none

/-- `(dom (a b) ..)` with natural-number bounds (integer-valued `RandomSpread`). -/
def domNat? (s : Sexp) (dim : Nat) : Option (List (Nat × Nat)) := do
  let xs ← tagged? "dom" s
  let ps ← xs.mapM fun
    | .list [a, b] => do pure ((← nat? a), (← nat? b))
    | _ => none
  pure (match ps with | [p] => List.replicate dim p | _ => ps)

def init (args : List Sexp) (impl : Sexp) : Option Verdict :=
  -- `RandomBitstring::new_uniform(n)` is `RandomBitstring::new(n, 0.5)`
  let args : List Sexp := match args with
    | .atom "bitsu" :: rest => Sexp.atom "bits" :: rest ++ [ofFloat 0.5]
    | _ => args
  match args with
  | .atom kind :: n :: dim :: h :: _seed :: rest => do
    let n ← nat? n
    let dim ← nat? dim
    let h ← nat? h
    match impl with
    | .atom "panic" =>
      -- only `RandomBitstring` with an invalid probability and n > 0 panics in the model
      let modelPanics := match kind, rest with
        | "bits", [p] => match float? p with
          | some p => (randomBitstring dim n (0.0 ≤ p && p ≤ 1.0) (fun _ _ => false)).isNone
          | none => false
        | _, _ => false
      let malformed := match kind, rest with
        | "bits", [p] => match float? p with
          | some p => !(0.0 ≤ p && p ≤ 1.0)
          | none => false
        | _, _ => false
      pure (verdict modelPanics malformed "panic" (.atom (if modelPanics then "panic" else "ok")))
    | .list [.atom "e", _] => pure (verdict false false "err" (.atom "ok"))
    | .list [height, below, popS] => do
      let height ← nat? height
      let below ← bool? below
      let inds ← inds? popS
      let frame := height == h + 1 && below
      let uneval := inds.all fun (e, _) => !e
      match kind, rest with
      | "empty", _ =>
        let ok := frame && inds.isEmpty
        pure (verdict ok ok (if !frame then "stack" else "count") (.atom "ok"))
      | "spread", [domS] => do
        let dom ← dom? domS dim
        let sols ← inds.mapM fun (_, s) => floats? s
        let model := randomSpread dom n (let arr := sols.toArray.map List.toArray; fun i j => (arr.getD i #[]).getD j (0.0 / 0.0))
        -- legality of the witness = `gen_range(a_j..b_j)`'s contract (half-open), per dimension
        let legal := sols.all fun s => (s.zip dom).all fun (x, d) => d.1 ≤ x && x < d.2
        let agree := bitEqPop model sols && legal && frame && uneval
        let cls := if !frame then "stack" else if sols.length != n then "count"
          else if sols.any (·.length != dim) then "dimension" else if !uneval then "evaluated"
          else if sols.any (fun s => (s.zip dom).any fun (x, d) => !(d.1 ≤ x && x ≤ d.2)) then "out-of-bounds" else "-"
        pure (verdict agree (cls == "-") cls (ofPop "pop" model))
      | "spreadn", [domS] => do
        -- the same generic model `randomSpread`, instantiated with natural numbers
        let dom ← domNat? domS dim
        let sols ← inds.mapM fun (_, s) => nats? s
        let model := randomSpread dom n (let arr := sols.toArray.map List.toArray; fun i j => (arr.getD i #[]).getD j 0)
        let legal := sols.all fun s => (s.zip dom).all fun (x, d) => d.1 ≤ x && x < d.2
        let agree := model == sols && legal && frame && uneval
        let cls := if !frame then "stack" else if sols.length != n then "count"
          else if sols.any (·.length != dim) then "dimension" else if !uneval then "evaluated"
          else if sols.any (fun s => (s.zip dom).any fun (x, d) => !(d.1 ≤ x && x ≤ d.2)) then "out-of-bounds" else "-"
        pure (verdict agree (cls == "-") cls (.list (model.map ofNats)))
      | "perm", _ => do
        let sols ← inds.mapM fun (_, s) => nats? s
        let model := randomPermutation dim n (let arr := sols.toArray; fun i => arr.getD i [])
        let legal := sols.all (isPermOfRange · dim)
        let agree := model == some sols && legal && frame && uneval
        let cls := if !frame then "stack" else if sols.length != n then "count"
          else if sols.any (·.length != dim) then "dimension" else if !uneval then "evaluated"
          else if !legal then "not-permutation" else "-"
        pure (verdict agree (cls == "-") cls
          (match model with | some m => .list (m.map ofNats) | none => .atom "illegal-witness"))
      | "bits", [p] => do
        let p ← float? p
        let sols ← inds.mapM fun (_, s) => match s with
          | .list xs => xs.mapM bool?
          | _ => none
        let pValid := 0.0 ≤ p && p ≤ 1.0
        let model := randomBitstring dim n pValid (let arr := sols.toArray.map List.toArray; fun i j => (arr.getD i #[]).getD j false)
        let legal := (p != 0.0 || sols.all (·.all (!·))) && (p != 1.0 || sols.all (·.all id))
        let agree := model == some sols && legal && frame && uneval
        let cls := if !frame then "stack" else if sols.length != n then "count"
          else if sols.any (·.length != dim) then "dimension" else if !uneval then "evaluated" else "-"
        pure (verdict agree (cls == "-" || !pValid) cls (.atom (if model.isSome then "ok" else "panic")))
      | _, _ => none
    | _ => none
  | _ => none

def c14 (input implOut : Sexp) : Option Verdict :=
  match input with
  | .list (.atom "bnd" :: args) => bnd args implOut
  | .list (.atom "bnds" :: args) => bnds args implOut
  | .list (.atom "rem" :: args) => remCase args implOut
  | .list (.atom "init" :: args) => init args implOut
  | _ => none

end C14

def main : IO Unit := driverMain (respond C14.c14)
