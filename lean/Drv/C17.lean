import MahfModel.Model.SaCool
open MahfModel MahfModel.Sa

namespace C17Drv

def field (name : String) : List Sexp → Option (List Sexp)
  | [] => none
  | x :: xs => match Sexp.tagged? name x with
    | some r => some r
    | none => field name xs

def float1 (name : String) (args : List Sexp) : Option Float := do
  match ← field name args with
  | [x] => x.float?
  | _ => none

def nat1 (name : String) (args : List Sexp) : Option Nat := do
  match ← field name args with
  | [x] => x.nat?
  | _ => none

def ind? : Sexp → Option (Ind Float)
  | .list [t, o] => do pure { tag := ← t.nat?, obj := ← o.float? }
  | _ => none

def pop? : Sexp → Option (Pop Float)
  | .list xs => xs.mapM ind?
  | _ => none

def indS (i : Ind Float) : Sexp := .list [Sexp.ofNat i.tag, Sexp.ofFloat i.obj]
def popS (p : Pop Float) : Sexp := .list (p.map indS)
def stackS (s : Stk Float) : Sexp := .list (.atom "stack" :: s.map popS)

def statusS : Status → Sexp
  | .ok => .atom "ok" | .err => .atom "err" | .panic => .atom "panic"

/-- `gen::<f64>()` of a 64-bit word. -/
def unitOfWord (w : Nat) : Float :=
  (Float.ofNat (unitNumer w)) * (1.0 / 9007199254740992.0)

/-- one unit in the last place up / down for a positive finite float (identity otherwise) -/
def ulpUp (x : Float) : Float := if x > 0.0 && x.isFinite then Float.ofBits (x.toBits + 1) else x
def ulpDown (x : Float) : Float := if x > 0.0 && x.isFinite then Float.ofBits (x.toBits - 1) else x
def expUp (x : Float) : Float := ulpUp (Float.exp x)
def expDown (x : Float) : Float := ulpDown (Float.exp x)

def acceptOutF (flip : Bool) (exp : Float → Float) (t u : Float) (s : Stk Float) : Sexp :=
  let (st, s', used) := acceptStep exp t u s
  let used := if flip then 1 - used else used
  .list [statusS st, stackS s', .list [.atom "t", Sexp.ofFloat t], .list [.atom "used", Sexp.ofNat used]]

def acceptOut (exp : Float → Float) (t u : Float) (s : Stk Float) : Sexp := acceptOutF false exp t u s

/-- The decision cannot depend on the draw `u ∈ [0, 1)`: the candidate is not worse, or `p` is
`0` (underflow), `≥ 1` (rounding) or NaN.  Whether the code asks the generator in such a case is
not part of the property, so both draw counts are legal witnesses. -/
def drawFree (cur cand t : Float) : Bool :=
  let p := prob Float.exp cur cand t
  cand ≤ cur || p ≤ 0.0 || p ≥ 1.0 || p.isNaN

def drawFreeFrame (t : Float) : Stk Float → Bool
  | (cand :: _) :: (cur :: _) :: _ => drawFree cur.obj cand.obj t
  | _ => false

def relClose (a b : Float) : Bool :=
  a == b || (a - b).abs ≤ 1e-9 * (max a.abs b.abs)

/-- Temperatures the oracle judges: `+0 ≤ T ≤ +∞` (sign bit clear, not NaN). `T = 0` is what a
cooling factor 0 or underflow leaves behind, `+∞` a legal `t_0`. -/
def tempLegal (t : Float) : Bool := t.toBits ≤ 0x7FF0000000000000

/-- `+∞` is a legal objective value (infeasible solution); NaN and `−∞` are not (C09). -/
def objLegal (o : Float) : Bool := o.isFinite || (o.isInf && o > 0.0)

/-- The Metropolis clauses for ONE decision, given which of the two individuals survived
(`isAcc`: the candidate, `isRej`: the current one; both when they are indistinguishable).
Comparisons are the numeric IEEE ones (`−0 = +0`, `+∞ ≤ +∞`), so every numeric tie must be
accepted at every temperature in `[+0, +∞]`; a worse candidate iff `u < exp((cur − cand)/T)` up to
one ulp of `exp` (at `T = +0` that is `exp(−∞) = 0`: never; at `T = +∞` `exp(−0) = 1`: always);
where the formula itself is NaN (`∞/∞`) the property is silent. -/
def decisionHolds (t u : Float) (cand cur : Ind Float) (isAcc isRej : Bool) : Bool × String :=
  if !(tempLegal t && objLegal cand.obj && objLegal cur.obj) then (true, "-") else
  if !(isAcc || isRej) then (false, "frame")
  else if cand.obj ≤ cur.obj then (if isAcc then (true, "-") else (false, "rejected-not-worse"))
  else
    let x := (cur.obj - cand.obj) / t
    if (Float.exp x).isNaN then (true, "-") else
    let ok := fun (p : Float) => isAcc == decide (u < p)
    if ok (Float.exp x) || ok (expUp x) || ok (expDown x) then (true, "-")
    else (false, if isAcc then "accepted-worse" else "rejected-worse")

/-- Property clauses for one acceptance on a well-formed frame, on the implementation's output. -/
def acceptHolds (t u : Float) (s : Stk Float) (implOut : Sexp) : Bool × String :=
  match s with
  | [cand] :: [cur] :: rest =>
    -- the admissible outputs: candidate survives / current survives, with 0 or 1 draws
    let outAcc := fun used : Nat => Sexp.list [.atom "ok", stackS ([cand] :: rest), .list [.atom "t", Sexp.ofFloat t], .list [.atom "used", Sexp.ofNat used]]
    let outRej := fun used : Nat => Sexp.list [.atom "ok", stackS ([cur] :: rest), .list [.atom "t", Sexp.ofFloat t], .list [.atom "used", Sexp.ofNat used]]
    let isAcc := Sexp.beq implOut (outAcc 0) || Sexp.beq implOut (outAcc 1)
    let isRej := Sexp.beq implOut (outRej 0) || Sexp.beq implOut (outRej 1)
    decisionHolds t u cand cur isAcc isRej
  | _ => (true, "-")

def splitmixNew (seed : UInt64) : UInt64 := (seed * 0x9E3779B97F4A7C15) ^^^ 0xD1B54A32D192ED03
def splitmixNext (s : UInt64) : UInt64 × UInt64 :=
  let s' := s + 0x9E3779B97F4A7C15
  let z := s'
  let z := (z ^^^ (z >>> 30)) * 0xBF58476D1CE4E5B9
  let z := (z ^^^ (z >>> 27)) * 0x94D049BB133111EB
  (s', z ^^^ (z >>> 31))

/-- Number of accepted candidates among `n` executions fed by the SplitMix stream. -/
def countAcc (exp : Float → Float) (cur cand t : Float) : Nat → UInt64 → Nat → Nat
  | 0, _, acc => acc
  | n + 1, s, acc =>
    if cand ≤ cur then countAcc exp cur cand t n s (acc + 1)
    else
      let (s', w) := splitmixNext s
      let a := accepts exp cur cand t (unitOfWord w.toNat)
      countAcc exp cur cand t n s' (if a then acc + 1 else acc)

def accOf (out : Sexp) : Option (Nat × Nat × Nat) :=
  match out with
  | .list xs => do pure (← nat1 "acc" xs, ← nat1 "bad" xs, ← nat1 "used" xs)
  | _ => none

def freqCase (args : List Sexp) (implOut : Sexp) : Option Verdict := do
  let kind ← (← field "kind" args).head?.bind Sexp.atom?
  let cur ← float1 "cur" args
  let cand ← float1 "cand" args
  let t ← float1 "t" args
  let n ← nat1 "n" args
  let seed ← nat1 "seed" args
  let (acc, bad, used) ← accOf implOut
  let p := if cand ≤ cur then 1.0 else prob Float.exp cur cand t
  let nf := Float.ofNat n
  let freq := Float.ofNat acc / nf
  let tol := 5.0 * Float.sqrt (p * (1.0 - p) / nf) + 1e-3
  let holds := bad == 0 && (if cand ≤ cur then acc == n else (freq - p).abs ≤ tol)
  let model := Sexp.list [.atom "p", Sexp.ofFloat p]
  if kind == "sm" then
    let s0 := splitmixNew seed.toUInt64
    let lo := countAcc expDown cur cand t n s0 0
    let hi := countAcc expUp cur cand t n s0 0
    let usedM := if cand ≤ cur then 0 else n
    let usedOk := used == usedM || (drawFree cur cand t && used ≤ n)
    let agree := lo ≤ acc && acc ≤ hi && bad == 0 && usedOk
    pure { agree, holds, cls := if holds then "-" else "frequency",
           model := .list [.atom "acc", Sexp.ofNat (countAcc Float.exp cur cand t n s0 0), model] }
  else
    pure { agree := holds, holds, cls := if holds then "-" else "frequency", model }

def coolCase (args : List Sexp) (implOut : Sexp) : Option Verdict := do
  let t ← float1 "t" args
  let alpha ← float1 "alpha" args
  let n ← nat1 "n" args
  if !alphaOk alpha then
    let model := Sexp.list [.atom "e", .atom "ctor"]
    -- the property says nothing about rejected factors
    pure { agree := Sexp.beq model implOut, holds := true, model }
  else
    let model := Sexp.list (.atom "ok" :: (coolTrace alpha n t).map Sexp.ofFloat)
    let holds := match Sexp.tagged? "ok" implOut with
      | some ts => match ts.mapM Sexp.float? with
        | some fs =>
          fs.length == n &&
          (List.zip (t :: fs) fs).all (fun (a, b) => relClose b (a * alpha))
        | none => false
      | none => false
    pure { agree := Sexp.beq model implOut, holds, cls := if holds then "-" else "cooling", model }

/-- One observed step of a template run. -/
def stepOk (alpha : Float) (st : Sexp) : Bool × String :=
  match st with
  | .list [.atom "pass"] => (true, "-")
  | .list [.atom "cool", a, b] =>
    match a.float?, b.float? with
    | some a, some b => if relClose b (cool alpha a) then (true, "-") else (false, "cooling")
    | _, _ => (false, "bad-step")
  | .list [.atom "acc", cur, cand, _t, h0, h1, .atom who] =>
    match cur.float?, cand.float?, h0.nat?, h1.nat? with
    | some cur, some cand, some h0, some h1 =>
      if h1 + 1 != h0 then (false, "frame")
      else if who == "none" then (false, "frame")
      else if cand ≤ cur && !(who == "cand" || who == "both") then (false, "rejected-not-worse")
      else (true, "-")
    | _, _, _, _ => (false, "bad-step")
  | _ => (false, "shape")

/-- Temperature continuity: nobody but the cooling component changes the temperature, and it runs
once per pass: `T` seen by each acceptance is the value the last cooling produced. -/
def tempsOk (t0 : Float) : List Sexp → Float → Bool
  | [], _ => true
  | .list [.atom "cool", a, b] :: rest, cur =>
    match a.float?, b.float? with
    | some a, some b => a == cur && tempsOk t0 rest b
    | _, _ => false
  | .list [.atom "acc", _, _, t, _, _, _] :: rest, cur =>
    match t.float? with
    | some t => t == cur && tempsOk t0 rest cur
    | none => false
  | _ :: rest, cur => tempsOk t0 rest cur

def runCase (args : List Sexp) (implOut : Sexp) : Option Verdict := do
  let alpha ← float1 "alpha" args
  let t0 ← float1 "t0" args
  match implOut with
  | .list [.atom status, stepsS] =>
    let steps ← Sexp.tagged? "steps" stepsS
    let bad := (steps.map (stepOk alpha)).filter (fun r => !r.1)
    let cont := tempsOk t0 steps t0
    let nCool := (steps.filter (fun s => match s with | .list (.atom "cool" :: _) => true | _ => false)).length
    let nAcc := (steps.filter (fun s => match s with | .list (.atom "acc" :: _) => true | _ => false)).length
    let nPass := (steps.filter (fun s => match s with | .list [.atom "pass"] => true | _ => false)).length
    let counts := status != "ok" || (nCool == nPass && nAcc == nPass)
    let holds := bad.isEmpty && cont && counts && nPass > 0
    let cls := match bad with
      | (_, c) :: _ => c
      | [] => if !cont then "temperature-drift" else if !counts then "count" else if nPass == 0 then "no-pass" else "-"
    let model := Sexp.list [.atom "passes", Sexp.ofNat nPass]
    pure { agree := holds, holds, cls, model }
  | _ => none


/-! ### cooling components inside programs (`coolprog`) -/

def optFloat? : Sexp → Option (Option Float)
  | .atom "none" => some none
  | x => x.float?.map some

def optNat? : Sexp → Option (Option Nat)
  | .atom "none" => some none
  | x => x.nat?.map some

def optFloatS : Option Float → Sexp
  | none => .atom "none"
  | some v => Sexp.ofFloat v

def optNatS : Option Nat → Sexp
  | none => .atom "none"
  | some v => Sexp.ofNat v

mutual
  def prog? : Nat → Sexp → Option (CProg Float)
    | 0, _ => none
    | fuel + 1, x =>
      match x with
      | .list [.atom "cool", id, c, a] => do pure (.cool (← id.nat?) (← c.nat?) (← a.float?))
      | .list [.atom "seti", v] => do pure (.setIter (← v.nat?))
      | .list [.atom "skip"] => some .skip
      | .list (.atom "seq" :: ps) => progs? fuel ps
      | .list [.atom "loop", n, b] => do pure (.loop (← n.nat?) (← prog? fuel b))
      | .list (.atom "scope" :: ps) => do pure (.scope (← progs? fuel ps))
      | _ => none
  def progs? : Nat → List Sexp → Option (CProg Float)
    | 0, _ => none
    | _ + 1, [] => some .skip
    | fuel + 1, p :: ps => do pure (.seq (← prog? fuel p) (← progs? fuel ps))
end

def cstatusS : CStatus → Sexp
  | .ok => .atom "ok" | .err => .atom "err" | .fuel => .atom "fuel"

def coolProgOut (st : CStatus) (s : CState Float) : Sexp :=
  .list [cstatusS st, .list [.atom "iters", optNatS (itersGet s.iters)],
         .list (.atom "cells" :: s.cells.map optFloatS),
         .list (.atom "trace" :: s.trace.reverse.map (fun e => .list [Sexp.ofNat e.id, Sexp.ofNat e.cell, Sexp.ofFloat e.value]))]

def sameOrClose (a b : Float) : Bool := relClose a b || (a.isNaN && b.isNaN)

/-- O for a program run, on the implementation's output alone: replay the logged executions —
each must have left `old · alpha` (its own factor) in its own cell — and nobody else may have
touched a cell. -/
def coolProgHolds (cools : List (Nat × Nat × Float)) (cells0 : List (Option Float)) (implOut : Sexp) : Bool × String :=
  match implOut with
  | .list [.atom _, _, .list (.atom "cells" :: cellsS), .list (.atom "trace" :: tr)] =>
    let rec go (cur : List (Option Float)) : List Sexp → Option (List (Option Float))
      | [] => some cur
      | .list [id, c, v] :: rest =>
        match id.nat?, c.nat?, v.float? with
        | some id, some c, some v =>
          match cools.find? (fun e => e.1 == id), cur[c]? with
          | some (_, c', a), some (some old) =>
            if c' == c && sameOrClose v (old * a) then go (cur.set c (some v)) rest else none
          | _, _ => none
        | _, _, _ => none
      | _ => none
    match go cells0 tr with
    | none => (false, "cooling")
    | some cur =>
      if Sexp.beq (.list (cur.map optFloatS)) (.list cellsS) then (true, "-") else (false, "cell-drift")
  | _ => (true, "-")  -- constructor error / panic: nothing the property speaks about

def coolProgCase (args : List Sexp) (implOut : Sexp) : Option Verdict := do
  let it ← (← field "iters" args).head?.bind optNat?
  let cells ← (← field "cells" args).mapM optFloat?
  let p ← (← field "prog" args).head?.bind (prog? 64)
  let cools := coolsOf p
  if !(cools.all (fun e => alphaOk e.2.2)) then
    let model := Sexp.list [.atom "e", .atom "ctor"]
    pure { agree := Sexp.beq model implOut, holds := true, model }
  else
    let (st, s') := cexec 100000 p { iters := [it], cells, trace := [] }
    let model := coolProgOut st s'
    let (holds, cls) := coolProgHolds cools cells implOut
    pure { agree := Sexp.beq model implOut, holds, cls, model }

/-! ### sequences of acceptances on one state (`chain`) -/

def indBeq (a b : Ind Float) : Bool := a.tag == b.tag && a.obj.toBits == b.obj.toBits

def step? : Sexp → Option (Step Float × Nat)
  | .list [tag, o, t, w] => do
    let w ← w.nat?
    pure ({ cand := { tag := ← tag.nat?, obj := ← o.float? }, t := ← t.float?, u := unitOfWord w }, w)
  | _ => none

def traceEntry? : Sexp → Option (Pop Float × Nat)
  | .list [p, u] => do pure (← pop? p, ← u.nat?)
  | _ => none

/-- K along the implementation's own trajectory: every step must be what the model's decision
gives from the survivor the code had before (one ulp of `exp`; draw count free where the decision
cannot depend on the draw). -/
def chainAgree : Ind Float → List (Step Float) → List (Pop Float × Nat) → Bool
  | _, [], [] => true
  | prev, st :: steps, (p, used) :: tr =>
    let variant := fun (e : Float → Float) =>
      let s := if accepts e prev.obj st.cand.obj st.t st.u then st.cand else prev
      match p with
      | [x] => indBeq x s
      | _ => false
    let usedM := drawsUsed prev.obj st.cand.obj
    let usedOk := used == usedM || (drawFree prev.obj st.cand.obj st.t && used ≤ 1)
    (variant Float.exp || variant expUp || variant expDown) && usedOk &&
      (match p with | [x] => chainAgree x steps tr | _ => false)
  | _, _, _ => false

/-- O along the implementation's own trajectory: each step is one Metropolis decision between the
step's candidate and the individual the code itself held as current. -/
def chainHolds : Ind Float → List (Step Float) → List (Pop Float × Nat) → Bool × String
  | _, [], _ => (true, "-")
  | _, _ :: _, [] => (false, "frame")
  | prev, st :: steps, (p, _) :: tr =>
    match p with
    | [x] =>
      let r := decisionHolds st.t st.u st.cand prev (indBeq x st.cand) (indBeq x prev)
      if !r.1 then r
      else if !(indBeq x st.cand || indBeq x prev) then (false, "frame")
      else chainHolds x steps tr
    | _ => (false, "frame")

def chainCase (args : List Sexp) (implOut : Sexp) : Option Verdict := do
  let cur ← (← field "cur" args).head?.bind ind?
  let rest ← (← field "rest" args).mapM pop?
  let stepsW ← (← field "steps" args).mapM step?
  let steps := stepsW.map (·.1)
  -- the model's own run
  let (st, s') := acceptChain Float.exp steps ([cur] :: rest)
  let survivors := (List.range steps.length).map (fun i => chainSurvivor Float.exp cur (steps.take (i + 1)))
  let prevs := cur :: survivors
  let mtrace := (List.zip (List.zip prevs steps) survivors).map (fun ((pv, stp), sv) =>
    Sexp.list [popS [sv], Sexp.ofNat (drawsUsed pv.obj stp.cand.obj)])
  let model := Sexp.list [statusS st, .list (.atom "trace" :: mtrace), stackS s']
  match implOut with
  | .list [.atom status, trS, stackSx] =>
    let tr ← (← Sexp.tagged? "trace" trS).mapM traceEntry?
    let last := match tr.getLast? with | some ([x], _) => x | _ => cur
    let frameOk := status == "ok" && tr.length == steps.length && Sexp.beq stackSx (stackS ([last] :: rest))
    let agree := frameOk && chainAgree cur steps tr
    let (h, cls) := chainHolds cur steps tr
    -- a chain of well-formed frames must end ok with the populations below untouched
    let allLegal := steps.all (fun s => tempLegal s.t && objLegal s.cand.obj) && objLegal cur.obj
    let (holds, cls) := if !h then (h, cls) else if allLegal && !frameOk then (false, "frame") else (true, "-")
    pure { agree, holds, cls, model }
  | _ => pure { agree := false, holds := false, cls := "frame", model }

def handle (input implOut : Sexp) : Option Verdict := do
  match input with
  | .list (.atom "accept" :: args) =>
    let t ← float1 "t" args
    let words ← (← field "words" args).mapM Sexp.nat?
    let stack ← (← field "stack" args).mapM pop?
    let u := unitOfWord (words.headD 0)
    let model := acceptOut Float.exp t u stack
    let agree := Sexp.beq model implOut || Sexp.beq (acceptOut expUp t u stack) implOut
      || Sexp.beq (acceptOut expDown t u stack) implOut
      || (drawFreeFrame t stack && Sexp.beq (acceptOutF true Float.exp t u stack) implOut)
    let (holds, cls) := acceptHolds t u stack implOut
    pure { agree, holds, cls, model }
  | .list (.atom "chain" :: args) => chainCase args implOut
  | .list (.atom "freq" :: args) => freqCase args implOut
  | .list (.atom "cool" :: args) => coolCase args implOut
  | .list (.atom "coolprog" :: args) => coolProgCase args implOut
  | .list (.atom "run" :: args) => runCase args implOut
  | _ => none

end C17Drv

def main : IO Unit := driverMain (respond C17Drv.handle)
