import MahfModel.Model.PopMachineWire
open MahfModel MahfModel.PopMachine.Wire

def c05 (input implOut : Sexp) : Option Verdict :=
  match input with
  | .list (.atom "api" :: _) => C05.api input implOut
  | .list (.atom "run" :: _) => C05.run input implOut
  | .list (.atom "comp" :: _) => C05.comp input implOut
  | _ => none

def main : IO Unit := driverMain (respond c05)
