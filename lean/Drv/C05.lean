import MahfModel.Model.PopMachineC05
open MahfModel MahfModel.PopMachine.WireC05

def c05 (input implOut : Sexp) : Option Verdict :=
  match input with
  | .list (.atom "api" :: _) => api input implOut
  | .list (.atom "run" :: _) => run input implOut
  | .list (.atom "rerun" :: _) => rerun input implOut
  | .list (.atom "comp" :: _) => comp input implOut
  | _ => none

def main : IO Unit := driverMain (respond c05)
