#!/usr/bin/env python3
"""Records, per property, a comment- and whitespace-insensitive fingerprint of every anchored source file of /repo
(anchors.files of properties.jsonl, plus all of src/ for the run-level properties) in anchors.lock.json.

The fingerprints are taken from /repo's HEAD when the models were last validated against it (all checks green).
`./check` compares them with the working tree on every run: a difference never raises an alarm by itself, it only makes
the quick tier spend the escalated budget on that property (DESIGN §3 "change-directed budget").
Development tool: run it after a new `fix:`/hook commit in /repo once all checks pass again; commit the result."""
import hashlib, json, os, re, subprocess, sys

ROOT = os.path.dirname(os.path.abspath(__file__))
RUN_LEVEL = {"C05", "C06", "C07", "C08", "C16"}          # decided on whole runs of every template: all of src/
EXTRA = {"C15": ["src/heuristics/"], "C10": ["src/lens/"], "C03": ["src/components/utils/"], "C13": ["src/components/mutation/", "src/components/recombination/"]}


def normalise(text):
    text = re.sub(r"/\*.*?\*/", " ", text, flags=re.S)
    out = []
    for line in text.splitlines():
        # drop `//` comments (a `//` inside a string literal is rare in this crate; a false difference only costs time)
        m = re.search(r"(?<![:\"'])//", line)
        if m:
            line = line[:m.start()]
        out.append(line)
    return re.sub(r"\s+", "", "\n".join(out))


def fingerprint(path):
    try:
        return hashlib.sha1(normalise(open(path, encoding="utf-8", errors="replace").read()).encode()).hexdigest()[:16]
    except OSError:
        return None


def anchor_files(repo, pid, anchors):
    pats = list(anchors) + EXTRA.get(pid, [])
    if pid in RUN_LEVEL:
        pats = ["src/"]
    files = set()
    for a in pats:
        p = os.path.join(repo, a)
        if os.path.isdir(p):
            for d, _, fs in os.walk(p):
                for f in fs:
                    if f.endswith(".rs"):
                        files.add(os.path.relpath(os.path.join(d, f), repo))
        elif os.path.isfile(p):
            files.add(a)
    files.discard("src/verif.rs")
    return sorted(files)


def current(repo, pid, anchors):
    return {f: fingerprint(os.path.join(repo, f)) for f in anchor_files(repo, pid, anchors)}


def main():
    repo = sys.argv[1] if len(sys.argv) > 1 else "/repo"
    dirty = subprocess.run(["git", "-C", repo, "status", "--porcelain", "--", "src"], capture_output=True, text=True).stdout.strip()
    if dirty:
        print("refusing: /repo/src has uncommitted changes\n" + dirty)
        return 1
    head = subprocess.run(["git", "-C", repo, "rev-parse", "--short", "HEAD"], capture_output=True, text=True).stdout.strip()
    out = {"repo_head": head, "properties": {}}
    for l in open(os.path.join(ROOT, "properties.jsonl")):
        p = json.loads(l)
        out["properties"][p["id"]] = current(repo, p["id"], p["anchors"]["files"])
    json.dump(out, open(os.path.join(ROOT, "anchors.lock.json"), "w"), indent=1, sort_keys=True)
    print("anchors.lock.json written for", head, {k: len(v) for k, v in out["properties"].items()})
    return 0


if __name__ == "__main__":
    sys.exit(main())
