#!/usr/bin/env python3
"""Confirms a behaviour-preserving rewrite produced by a sub-agent and imports it into /verif/benign/<name>/.
usage: tools_confirm_seed.py <src dir with patch.diff demo.rs meta.json> <name>
In a scratch worktree of /repo (under /var/tmp): demo passes at HEAD; with the patch: crate builds, the 51 lib tests
pass, demo still passes. Only then the rewrite is copied. The scratch worktree is removed."""
import json, os, shutil, subprocess, sys
src, name = sys.argv[1], sys.argv[2]
scratch = f"/var/tmp/confirmb/{name}"
def sh(cmd, cwd=None):
    p = subprocess.run(cmd, cwd=cwd, capture_output=True, text=True, env=dict(os.environ, CARGO_NET_OFFLINE="true"))
    return p.returncode, (p.stdout + p.stderr)
subprocess.run(["git", "-C", "/repo", "worktree", "remove", "--force", scratch], capture_output=True)
shutil.rmtree(scratch, ignore_errors=True)
os.makedirs("/var/tmp/confirmb", exist_ok=True)
sh(["git", "-C", "/repo", "worktree", "add", "-q", scratch, "HEAD"])
ran = []
ok = True
try:
    os.makedirs(os.path.join(scratch, "tests"), exist_ok=True)
    shutil.copy(os.path.join(src, "demo.rs"), os.path.join(scratch, "tests", "demo.rs"))
    rc, out = sh(["cargo", "test", "--offline", "--test", "demo"], cwd=scratch)
    ran.append(f"HEAD: cargo test --test demo -> rc={rc}")
    if rc != 0:
        ok = False; print("demo does not pass at HEAD:\n", out[-1500:])
    rc, out = sh(["git", "apply", os.path.abspath(os.path.join(src, "patch.diff"))], cwd=scratch)
    if rc != 0:
        ok = False; print("patch does not apply", out)
    if ok:
        rc, out = sh(["cargo", "test", "--offline", "--lib"], cwd=scratch)
        passed = "51 passed" in out
        ran.append(f"patched: cargo test --lib -> rc={rc} {'51 passed' if passed else out[-200:]}")
        if rc != 0 or not passed:
            ok = False; print("existing tests fail with the patch:\n", out[-1500:])
    if ok:
        rc, out = sh(["cargo", "test", "--offline", "--test", "demo"], cwd=scratch)
        ran.append(f"patched: cargo test --test demo -> rc={rc}")
        if rc != 0:
            ok = False; print("demo FAILS with the patch:\n", out[-1500:])
finally:
    subprocess.run(["git", "-C", "/repo", "worktree", "remove", "--force", scratch], capture_output=True)
    shutil.rmtree(scratch, ignore_errors=True)
if ok:
    dst = os.path.join(os.path.dirname(os.path.abspath(__file__)), "benign", name)
    os.makedirs(dst, exist_ok=True)
    for f in ("patch.diff", "demo.rs"):
        shutil.copy(os.path.join(src, f), os.path.join(dst, f))
    meta = json.load(open(os.path.join(src, "meta.json")))
    meta["confirmed_by_coordinator"] = ran
    meta["origin"] = "independent sub-agent (given only the property text and a scratch worktree; asked for a behaviour-preserving rewrite)"
    json.dump(meta, open(os.path.join(dst, "meta.json"), "w"), indent=1)
    print("CONFIRMED", name, ran)
else:
    print("REJECTED", name, ran)
    sys.exit(1)
