#!/usr/bin/env python3
"""Rewrites the per-template theorem blocks (after the marker line) of Props/C16.lean, Props/C06Templates.lean and
Props/C07Templates.lean for all 21 templates x N_VARIANTS parameter points. Expected values are the verdicts on the
unchanged tree (false = recorded finding / analysis not applicable), see DESIGN.md §12."""
import os, re, subprocess
ROOT = os.path.dirname(os.path.abspath(__file__))
T = ["real_ga", "binary_ga", "real_es", "real_de", "real_pso", "real_sa", "permutation_sa", "real_ls", "permutation_ls",
     "real_ils", "permutation_ils", "real_rs", "permutation_rs", "real_rw", "permutation_rw", "real_iwo", "real_fa",
     "real_bh", "real_cro", "ant_system", "max_min_ant_system"]
NV = 4
MARK = "/-! ### Per-template obligations on the regenerated trees -/"


def prescribed():
    """(template, variant) -> (lo, hi|None) as `hcommon::templates::prescribed_size` returns them (`c16 --prescribed`)."""
    exe = os.path.join(ROOT, "harness", "target", "debug", "c16")
    out = subprocess.run([exe, "--prescribed"], capture_output=True, text=True, check=True).stdout
    r = {}
    for m in re.finditer(r"\(prescribed (\w+) (\d+) (\d+) (\w+)\)", out):
        r[(m.group(1), int(m.group(2)))] = (int(m.group(3)), None if m.group(4) == "inf" else int(m.group(4)))
    assert len(r) == len(T) * NV, "run `cargo build --offline --bin c16` in harness/ first"
    return r


PRESCRIBED = prescribed()


def size_thm(t, v):
    lo, hi = PRESCRIBED[(t, v)]
    val = "true"
    return f"theorem {t}_v{v}_size : sizeWithin {t}_v{v} {lo} {'none' if hi is None else f'(some {hi})'} = {val} := by decide"


FILES = {
    "C16Size.lean": ("MahfModel.Props.C16.Size", size_thm),
    "C16.lean": ("MahfModel.Props.C16", lambda t, v: f"theorem {t}_v{v}_balanced : balanced {t}_v{v} = true := by decide"),
    "C06Templates.lean": ("MahfModel.Props.C06.Templates", lambda t, v: f"theorem {t}_v{v}_counter_exact : counterExactTop {t}_v{v} = {'false' if 'ils' in t else 'true'} := by decide"),
    "C07Templates.lean": ("MahfModel.Props.C07.Templates", lambda t, v: f"theorem {t}_v{v}_etu : evalThenUpdate {t}_v{v} = {'false' if ('ils' in t or t == 'real_fa') else 'true'} := by decide"),
}
for f, (ns, thm) in FILES.items():
    p = os.path.join(ROOT, "lean", "MahfModel", "Props", f)
    s = open(p).read()
    if MARK in s:
        head = s[:s.index(MARK)]
    else:
        m = re.search(r"\ntheorem \w+_v0_\w+ :", s)
        head = s[:m.start() + 1]
    body = MARK + "\n" + "\n".join(thm(t, v) for t in T for v in range(NV)) + f"\n\nend {ns}\n"
    open(p, "w").write(head + body)
    print(f, "ok")

# C06, generic loop functions instantiated with identifier A (Generated/TemplatesGenericA.lean; `aco::aco` cannot be
# built from outside the crate): "uses only the requested evaluator" + counterExact on the identifier-erased tree.
GT = ["ga", "es", "de", "pso", "sa", "ls", "ils", "rs", "rw", "iwo", "fa", "bh", "cro"]
p = os.path.join(ROOT, "lean", "MahfModel", "Props", "C06Generic.lean")
s = open(p).read()
head = s[:s.index(MARK)]
body = MARK + "\n"
body += "\n".join(f"theorem generic_{t}_v{v}_uses_only_A : usesOnlyTop .A generic_{t}_v{v} = true := by decide" for t in GT for v in range(NV))
body += "\n"
body += "\n".join(f"theorem generic_{t}_v{v}_counter_exact : counterExactTop (IComp.erase generic_{t}_v{v}) = {'false' if t == 'ils' else 'true'} := by decide"
                  for t in GT for v in range(NV))
body += "\n\nend MahfModel.Props.C06.Generic\n"
open(p, "w").write(head + body)
print("C06Generic.lean ok")
