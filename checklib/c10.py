import re

CONFIG = dict(
    bin="c10",
    drv="drv_c10",
    lean_modules=["MahfModel.Props.C10"],
    namespaces=["MahfModel.Props.C10"],
    shrink_lists=["vals", "words"],
    level="proof",
    rule=("Condition::evaluate on prepared States: LessThanN over Iterations / Evaluations / a float-valued state for all "
          "(n, value) on the grid {0,1,2,3,10,u32::MAX-1,u32::MAX} (floats: zeros, 0.5..3, 1e308, +-inf, NaN, -1, 5e-324) plus "
          "seeded random pairs biased to value in {n-1,n,n+1}; EveryN on the same grid, all n<=12 x v<=36, random multiples and "
          "non-multiples; OptimumReached on 10 tolerances x 12 best values (incl. none, +inf, 1 ulp above the edge) x 5 optima "
          "plus random edges optimum+eps +-1ulp; ChangeOf over ALL value histories of length <=5 over {5,6,8} for PartialEqChecker "
          "and DeltaEqChecker thresholds 0,1,2, plus random histories of length <=30 (also next to u32::MAX), and over objective values "
          "(BestObjectiveValueLens, thresholds 0/0.1/0.15/1/inf and PartialEq: all histories of length <=3 over 8 values incl. +inf, "
          "random longer ones), with re-initialisations (all histories of length <=5 over {observe 5,6,8, re-init} x 3 checkers), "
          "several conditions over different u32 lenses (Iterations, Evaluations, two custom states) in one State evaluated / re-initialised "
          "interleaved (all sequences of length <=5 over 5 tokens for two conditions + random with 2..4 conditions), inside real Scope "
          "components (random trees of depth <=2, Block::init / Scope lifecycle), two conditions over the same lens, and a real Loop "
          "guarded by ChangeOf entered 1..4 times (plain and inside a Scope) with a body that rewrites the observed value; all Boolean formulas "
          "of depth <=2 with up to 3 children per connective over operands a,b,c under all 27 outcome assignments (true/false/error), "
          "all depth-3 formulas with <=2 children under the 8 Boolean assignments plus sampled error assignments (all 27 in the "
          "thorough tier), every operand occurrence individually tagged and logging its evaluations; RandomChance with a scripted "
          "generator on words m-1, m, m+1, 0, u64::MAX around m = floor(p*2^64) for p on a grid (0, -0, 5e-324, 2^-64, 2^-63, "
          "0.1..0.9, 1-2^-53, 1, invalid p) and random p, and 10^5-draw frequency tests with ChaCha12 (5 sigma); real Loop with "
          "counting condition wrapper and counting body for n in {0,1,2,7,100} and random n, iteration- and evaluation-bounded "
          "(body adds 1..9 evaluations per pass). A case is non-trivial unless it is a LessThanN grid point with n = 0 or an empty "
          "history/formula; distinct = distinct input."),
    nontrivial=lambda inp: not re.match(r"\(lt [uef] (0|x0000000000000000) ", inp) and "(vals)" not in inp and len(inp) > 10,
    trusted_base=[
        "rand 0.8.8 Bernoulli::new / sample (p_int = (p * 2^64) as u64, ALWAYS_TRUE for p = 1, one u64 per sample) — modelled "
        "from the vendored source and checked with scripted words on both sides of the threshold",
        "State registry access (insert / set_value / try_borrow_value_mut) behaves as a typed map (C01/C02)",
        "u32 -> f64 conversion and IEEE division for the progress value (the driver uses native doubles)"],
    assumptions=["SplitMix64-seeded generator", "the loop body leaves the loop counter alone (Iterations) or adds a fixed step (Evaluations)",
                 "counters stay below 2^32 (u32 overflow is not modelled)",
                 "nested iteration-bounded loops without a Scope share the one Iterations counter (documented by mahf); the loop theorems are about a counter only this loop advances",
                 "scopes / Block::init lifecycle of ChangeOf are modelled and checked by K/O; the independence theorem is stated for one registry level"],
)
CONFIG.update(
    level_text=("Lean 4 theorems: LessThanN is true iff value < n and writes value/n; a Loop guarded by LessThanN over the iteration "
                "counter makes exactly n passes, n+1 tests, ends with counter n and (exact arithmetic, n>=1) progress 1, for every n; "
                "with a body adding step per pass it makes the least p with p*step >= n; EveryN = (n | value) for every n incl. 0 (only multiple of 0 is 0); "
                "OptimumReached iff a best value exists and |best - optimum| <= eps, under the explicit hypothesis that the known optimum is a "
                "lower bound of the best value (the code tests best <= optimum + eps; below optimum - eps it answers true: optimumReached_below, "
                "outside the property's domain, not flagged); ChangeOf "
                "over every history fires at k iff k = 0 or the value differs (by the checker) from the value last reported, for both "
                "checkers; after every (re-)init it behaves like a fresh condition (first evaluation fires); several conditions whose Previous "
                "key (lens type) is not shared follow their own histories under arbitrary interleaving; And/Or/Not compute the Boolean combination and evaluate every operand exactly once in order (no short-circuit), "
                "an operand error aborts after a prefix; RandomChance fires for exactly floor(p*2^64) of the 2^64 words, always for p = 1. "
                "Tied to /repo by running the real conditions, the real Loop and rand's gen_bool on generated cases and diffing against "
                "the compiled model (K) and the specification-side predicates (O)."),
    level_note=("Trusted: Lean kernel; rand 0.8.8 word-to-bool mapping as modelled (checked on scripted words); the State registry; "
                "native double arithmetic for the progress value. Theorems about progress = 1 and OptimumReached are in exact (ordered "
                "field) arithmetic; the float side is checked by K/O only. Observation (not a violation of the stated property): with "
                "n = 0 LessThanN reports progress 0/0 = NaN. Known findings: two ChangeOf over the same lens type on one registry level share their memory; ChangeOf + DeltaEqChecker<SingleObjective> "
                "fires on every evaluation while the value stays +inf (inf - inf = NaN). (EveryN with n = 0 was repaired in /repo c00d550.)"),
)
