import re

CONFIG = dict(
    bin="c10",
    drv="drv_c10",
    lean_modules=["MahfModel.Props.C10", "MahfModel.Props.C10Nested"],
    namespaces=["MahfModel.Props.C10"],
    shrink_lists=["vals", "words", "items", "script"],
    level="proof",
    rule=("Condition::evaluate on prepared States: LessThanN over Iterations / Evaluations / a float-valued state for all "
          "(n, value) on the grid {0,1,2,3,10,u32::MAX-1,u32::MAX} (floats: zeros, 0.5..3, 1e308, +-inf, NaN, -1, 5e-324) plus "
          "seeded random pairs biased to value in {n-1,n,n+1}; EveryN on the same grid, all n<=12 x v<=36, random multiples and "
          "non-multiples; OptimumReached on 10 tolerances x 12 best values (incl. none, +inf, 1 ulp above the edge) x 5 optima "
          "plus random edges optimum+eps +-1ulp; ChangeOf over ALL value histories of length <=5 over {5,6,8} for PartialEqChecker "
          "and DeltaEqChecker thresholds 0,1,2,3, plus random histories of length <=30 (also next to u32::MAX), and over objective values "
          "(BestObjectiveValueLens, thresholds 0/0.1/0.15/1/inf and PartialEq: all histories of length <=3 over 8 values incl. +inf, "
          "random longer ones), with re-initialisations (all histories of length <=5 over {observe 5,6,8, re-init} x 3 checkers), "
          "several conditions over different u32 lenses (Iterations, Evaluations, two custom states) in one State evaluated / re-initialised "
          "interleaved (all sequences of length <=5 over 5 tokens for two conditions + random with 2..4 conditions), inside real Scope "
          "components (random trees of depth <=2, Block::init / Scope lifecycle), two conditions over the same lens, and a real Loop "
          "guarded by ChangeOf entered 1..4 times (plain and inside a Scope) with a body that rewrites the observed value; all Boolean formulas "
          "of depth <=2 with up to 3 children per connective over operands a,b,c under all 27 outcome assignments (true/false/error), "
          "all depth-3 formulas with <=2 children under the 8 Boolean assignments plus sampled error assignments (all 27 in the "
          "thorough tier), every operand occurrence individually tagged and logging its evaluations; RandomChance — the property fixes the "
          "probability, not which generator words fire nor how many are drawn, so neither is observed — (a) on held words (every draw of one "
          "evaluation returns the same scripted word: 0, 1, u64::MAX, 2^63 +-1, random): p = 0 / -0 never fires, p = 1 always fires, an invalid p "
          "(negative, > 1, NaN, infinite) panics; (b) sweeps of 4096 equidistant words over the whole u64 range (3 offsets) for p on a grid "
          "(0, 5e-324, 2^-64, 2^-12, 0.001 .. 0.999, 1-2^-53, 1) and random p (also next to 0 and 1): the number firing is p*4096 within 2 "
          "(K) / 5 sigma + 2 (O); (c) 10^5-draw frequency tests with ChaCha12 on independent seeds for p in {0.5, 0.1, 0.9, 0.01, 0.99, 0.001, "
          "0.999, 0.25, 0.75, 0, 1} and random p: marginal count and count of disjoint consecutive pairs that both fire (5 sigma); real Loop with "
          "counting condition wrapper and counting body for n in {0,1,2,7,100} and random n, iteration- and evaluation-bounded "
          "(body adds 1..9 evaluations per pass); iteration-bounded loops INSIDE A STATE, built with the real builder "
          "(while_ / scope_ / do_) and run with Configuration::run: all chains Loop -> (Scope ->) Loop -> (Scope ->) Loop of depth 1..3 "
          "with bounds 0..3 on every level and every combination of with/without Scope, hand-written shapes (sequential loops, scope at the root, "
          "ILS-like depth 3, depth 4), seeded random trees of depth <=4 (two thirds well-scoped by construction, one third with loops sharing a "
          "counter), each run 1..3 times on the SAME State, with and without a pre-existing Iterations value, long flat loops (<=2000) and "
          "60 x 60 nests; every condition test logs verdict, counter and Progress, every leaf the counter it sees; a real loop guarded by "
          "iterations(n) & evaluations(m), iterations(n) | evaluations(m) and !(!.. | !..) built with the operators & | ! (n, m on a grid and random, "
          "step 0..9), logging both counters and both Progress values at every test; the operator forms in the formula cases (all binary "
          "formulas of depth 2 under all 27 assignments, random depth 3), every operand also logging its init; LessThanN::new / EveryN::new over a "
          "user-defined u32 state; the conditions on NESTED states (State::with_inner_state, depth 1..3): scripts of insert-into-the-top-registry / "
          "set-nearest / BestIndividual::update-nearest / init / evaluate / enter-an-inner-state over OptimumReached, LessThanN and EveryN over "
          "Iterations, Evaluations and two user-defined states, LessThanN over the best objective value, ChangeOf over the u32 lenses and over "
          "BestObjectiveValueLens (both checkers) — ladders (outer value absent / empty / within / far x inner shadow nothing / empty / within / far "
          "(counters: absent, below, at, above the bound) x shadow inserted 0..2 levels down x evaluated 0..2 levels below the shadow x with/without "
          "init at the root / at the shadow, an evaluation before and after every step and after leaving) and seeded random scripts (one kind of "
          "condition or a mix of up to 4, optimum 0 or 1), every evaluation logging its result and, for LessThanN, the Progress readable in that "
          "state; a nested search built with the real builder and run with Configuration::run: the outer level holds a best individual "
          "(update_best_individual) or none, 1..3 nested scope_ each with or without its own update_best_individual, innermost "
          "while_(!OptimumReached(eps) & iterations(k)) whose body feeds scripted objective values to the nearest BestIndividual (the real "
          "BestIndividualUpdate where the scope keeps its own), all of eps in {0, 0.5} x k in {0,1,3,5} x 4 outer values x 14 scope stacks x 7 scripts "
          "plus random ones, logging verdict, counter and the nearest BestIndividual at every test, the passes and the root's best afterwards. "
          "A case is non-trivial unless it is a LessThanN grid point with n = 0 or an empty "
          "history/formula; distinct = distinct input."),
    nontrivial=lambda inp: not re.match(r"\(lt [uefo] (0|x0000000000000000) ", inp) and "(vals)" not in inp and len(inp) > 10,
    trusted_base=[
        "RandomChance's verdict is a function of p and of uniformly distributed generator output; WHICH outputs fire is not pinned (any "
        "relabelling of the 2^64 words is legal, theorem randomChance_prob_any_mapping) — that floor(p*2^64) of them fire is evidenced by the "
        "sweep (4096 equidistant held words, within 2) and the frequency tests (statistical, 5 sigma), not proved about the code",
        "rand's ChaCha12 generator delivers uniformly distributed words (frequency tests)",
        "State registry access (insert / set_value / try_borrow_value_mut) behaves as a typed map (C01/C02); the registry chain of nested states "
        "(insert writes the top registry, every lookup finds the innermost holder, a child registry is dropped on leaving: C01/C03) is MODELLED in "
        "Model/ConditionsNested.lean and tied by K on the nested cases, not proved about the code",
        "u32 -> f64 conversion and IEEE division for the progress value (the driver uses native doubles)"],
    assumptions=["SplitMix64-seeded case generator", "RandomChance draws from state.random_mut() only (a held-word generator is substituted through Random::with_rng)", "the loop body leaves the loop counter alone (Iterations) or adds a fixed step (Evaluations)",
                 "counters stay below 2^32 (u32 overflow is not modelled)",
                 "loops that are not the only loop on their registry level (nested without a Scope — documented by mahf — or one after the other in "
                 "the same block) share one Iterations counter; the exact-count theorems are stated for well-scoped trees (every loop the only one on its "
                 "level); for the others the model is tied by K, the less-than-n clause is checked at every test, and the sharing is recorded as theorems "
                 "unscoped_nest_shares_counter / sequential_loops_share_counter",
                 "scopes / Block::init lifecycle of ChangeOf are modelled and checked by K/O; the independence theorem is stated for one registry level",
                 "'the state a condition is evaluated on' is read as: for every state type, the value of the innermost registry of the chain that holds it "
                 "(an inner, still empty BestIndividual means: no best value exists there, whatever an enclosing scope has found); where that state sees no "
                 "value at all (no counter / no best value for a lens) O only demands that the condition does not answer true (K pins the Err)",
                 "nested-search cases use objective values and tolerances that are multiples of 1/8 (both roundings of 'within eps' agree), optimum 0"],
)
CONFIG.update(
    level_text=("Lean 4 theorems: LessThanN is true iff value < n and writes value/n; a Loop guarded by LessThanN over the iteration "
                "counter makes exactly n passes, n+1 tests, ends with counter n and (exact arithmetic, n>=1) progress 1, for every n; "
                "with a body adding step per pass it makes the least p with p*step >= n; on the registry chain (Loop::init, Loop::execute, "
                "Scope::execute, LessThanN::init/evaluate, Configuration::run modelled per registry level): for EVERY tree in which each loop is the only "
                "loop on its registry level (any depth of Loop -> Scope -> Loop) and EVERY state the run starts from (whatever counters the state or the "
                "enclosing scopes hold), the run produces exactly the state-free specified log — each entry of a loop bounded by n tests at 0..n with "
                "verdicts true x n, false, progress k/n at test k, its body once after each true test seeing counter k — leaves the enclosing registries "
                "untouched (nested_loops_exactly_n, scoped_loop_exactly_m, loop_log_counts), and k runs on the same State give the k specified logs "
                "(rerun_exactly_n); a loop guarded by a composite of iterations(n) and evaluations(m) makes exactly the first pass count at which the "
                "Boolean combination is false, writing BOTH progress values at every test (loop_composite_passes; & stops at the first bound reached, "
                "| runs until both are reached); EveryN = (n | value) for every n incl. 0 (only multiple of 0 is 0); "
                "OptimumReached iff a best value exists and |best - optimum| <= eps, under the explicit hypothesis that the known optimum is a "
                "lower bound of the best value (the code tests best <= optimum + eps; below optimum - eps it answers true: optimumReached_below, "
                "outside the property's domain, not flagged); ChangeOf "
                "over every history fires at k iff k = 0 or the value differs (by the checker) from the value last reported, for both "
                "checkers; after every (re-)init it behaves like a fresh condition (first evaluation fires); several conditions whose Previous "
                "key (lens type) is not shared follow their own histories under arbitrary interleaving; And/Or/Not compute the Boolean combination and evaluate every operand exactly once in order (no short-circuit), "
                "an operand error aborts after a prefix; RandomChance: under the threshold test applied after ANY bijective relabelling of the words exactly "
                "floor(p*2^64) of the 2^64 words fire (gen_bool's lower end and the upper end are instances), always for p = 1, and a sweep of N equidistant "
                "words counts floor(m/D) or floor(m/D)+1 of them. "
                "On NESTED states (registry chain, innermost first; Props/C10Nested.lean): the lookup finds exactly the innermost holder "
                "(lookup_is_innermost); OptimumReached on ANY chain is true iff the innermost registry holding a BestIndividual holds a value within eps "
                "(optimumReached_nested_iff), false whenever that BestIndividual is still empty, whatever the enclosing registries hold "
                "(optimumReached_shadowed_empty / _value); LessThanN / EveryN on any chain decide about the value of the innermost holder of the observed "
                "state, err iff no registry holds it, and write value/n to the innermost Progress only (lessThanN_nested_iff, lessThanN_nested_progress, "
                "everyN_nested_iff); one ChangeOf evaluation compares the innermost observed value with the innermost Previous, writes only that registry, "
                "errs iff the state sees no value or no memory, and after an init inside a nested state the first evaluation fires whatever the outer memory "
                "holds (changeOf_nested_step, changeOf_nested_fresh); a search nested in any stack of scopes around while !OptimumReached(eps) & iterations<k "
                "makes exactly the first pass count at which its OWN state's best value (nothing of the outer best once a scope keeps its own) is within eps or "
                "k is reached, logs the specified tests, and leaves the root's best untouched / updated accordingly (nested_search_exact, nested_search_total, "
                "nested_search_ignores_outer_best). "
                "Tied to /repo by running the real conditions, the real Loop / Scope / Configuration::run (through the real builder), the operator "
                "impls & | ! and rand's gen_bool on generated cases and diffing against "
                "the compiled model (K) and the specification-side predicates (O)."),
    level_note=("Trusted: Lean kernel; the State registry; that RandomChance decides by a measure-floor(p*2^64)/2^64 set of generator words (the mapping itself "
                "is deliberately NOT pinned: a rewrite that fires on other words or draws a different number of words is not flagged; the probability is "
                "tied by the equidistant sweep, the marginal and the pair frequency tests — statistical evidence, false-alarm probability about 1e-5 per run; "
                "the sweep bound is proved for a threshold test on the lower end, for other interval tests it follows by symmetry, not by a theorem); "
                "native double arithmetic for the progress value. Theorems about progress = 1 and OptimumReached are in exact (ordered "
                "field) arithmetic; the float side is checked by K/O only. Observation (not a violation of the stated property): with "
                "n = 0 LessThanN reports progress 0/0 = NaN. Observation (outside the domain mahf documents, modelled and K-checked, proved as "
                "sequential_loops_share_counter): two loops one after the other in the same block share Iterations, so after a loop bounded by 5 a loop "
                "bounded by 3 makes no pass. init propagation of And/Or/Not is compared by K (as a multiset) and shows in O through the composite-guarded "
                "loops. Known findings: two ChangeOf over the same lens type on one registry level share their memory; ChangeOf + DeltaEqChecker<SingleObjective> "
                "fires on every evaluation while the value stays +inf (inf - inf = NaN). (EveryN with n = 0 was repaired in /repo c00d550.) "
                "Nested states: the theorems are about the modelled registry chain (nearest-holder lookup, top-registry insert, child dropped); that the real "
                "StateRegistry behaves so is the subject of C01/C03 and is here only tied by K. The nested cases enter inner states through "
                "State::with_inner_state (scripts) and through the real Scope (nested search, chgm/nest cases); conditions built by composition (And/Or/Not) "
                "are exercised on nested states only in the nested search. ChangeOf over the best objective value with DeltaEqChecker is not driven to +inf "
                "in the nested cases (known finding at its own site)."),
)
