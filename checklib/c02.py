import re

CONFIG = dict(
    bin="c02",
    drv="drv_c02",
    lean_modules=["MahfModel.Props.C02"],
    namespaces=["MahfModel.Props.C02"],
    shrink_lists=["mops", "hold", "inner"],
    level="proof",
    rule=("machine histories over the real State: the harness keeps live Ref/RefMut guards in a Vec while issuing "
          "further requests through &State; &mut statements (ex ...) only run when no guard is alive. (1) exhaustive "
          "guard interleavings: three prefixes (2 types x 1..3 scopes, with shadowing) followed by every sequence of "
          "L requests (quick: L=3 over a 25-request alphabet and L=4 over 11; thorough: L=4 / L=5) drawn from try_borrow, "
          "try_borrow_mut, borrow, borrow_mut, parent() borrows, drop/read/write of guards 0..2, try_get_value, "
          "get_value, set_value and illegal &mut requests, each followed by a lock dump; (2) multi-borrow: every "
          "tuple of arity 2..8 over a 2-type universe (508) and of arity 2..4 over 4 types (336), each with every "
          "subset of the universe present, plus 22 fixed tuples of arity 5..8 over 8 types (distinct permutations and "
          "repetitions at several positions) with all / all-but-one / random subsets present, flat and split over two "
          "scopes; (3) every nesting of holding / with_inner_state of depth 1..3 with ok/err at each level and a body "
          "operation at each level (re-insert of the held type, removal, none), under three scope layouts, followed by "
          "probe holdings; (4) seeded random machine histories of length 20..80 (600 quick / 20000 thorough). "
          "Non-trivial: at least one guard request or holding/inner/multi statement; distinct = distinct canonical input."),
    nontrivial=lambda inp: re.search(r"\((bor|bormut|borp|bormutp|parbor|parbormut) |\(hold |\(inner |\(multi ", inp) is not None,
    trusted_base=[
        "RefCell's implementation (the flag automaton is modelled: shared iff no writer, exclusive iff no writer and no reader)",
        "safe Rust cannot leak a guard past the registry except by mem::forget (not modelled); lifetimes / the borrow "
        "checker decide which requests compile - the harness answers 'illegal' for &mut requests while guards live",
        "Marker<T> cannot be named by a client: its presence is observed only through later holdings",
        "the memory model / the unsafe block of try_get_multiple_mut: the harness compares the returned addresses "
        "pairwise (alias) and writes through every reference; Miri is not run"],
    assumptions=["SplitMix64-seeded generator", "state values are u64 newtypes modelled as Nat (no overflow in the generators)"],
)
CONFIG.update(
    level_text=("Lean 4 theorems over the code-shaped model (RefCell flags in the cells, ghost list of live guards, Marker keys): "
                "flag_inv (every reachable state: each flag equals the live guards on its cell, at most one writer, never "
                "writer+reader), grant_iff, refused_never_granted (state unchanged, error kind), panicking accessors, "
                "noninterference across types and scopes, release_restores, write_then_read, multi_ok_iff / error kind / "
                "distinct cells for key lists of any length, holding_restores_partial for every body that does not nest a "
                "holding of the same type (ok and err bodies, nested holdings of other types, inner scopes), and a proved "
                "counterexample for the nested same-type case (recorded finding). The model is tied to /repo by running the "
                "real State with live guards, all multi-borrow tuples and all helper nestings, diffing against the compiled "
                "model (K) and against the abstract machine 'stack of maps + guard set, many readers xor one writer, holding "
                "restores into the scope it took from' (O)."),
    level_note=("Trusted: Lean kernel; RefCell represented by its flag automaton; harness + driver printing. The theorems are "
                "about the model; agreement with the code is checked on the generated histories only. Not verified: RefCell, "
                "that safe Rust cannot leak a guard past the registry, the memory model (no Miri run). partial: nested holding "
                "of the same type is outside holding_restores_partial and is a recorded finding."),
)
