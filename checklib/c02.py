import re

CONFIG = dict(
    bin="c02",
    drv="drv_c02",
    lean_modules=["MahfModel.Props.C02", "MahfModel.Props.C02Multi"],
    namespaces=["MahfModel.Props.C02"],
    shrink_lists=["mops", "hold", "inner"],
    level="proof",
    rule=("machine histories over the real State: the harness keeps live Ref/RefMut guards in a Vec while issuing "
          "further requests through &State; &mut statements (ex ...) only run when no guard is alive. (1) exhaustive "
          "guard interleavings: three prefixes (2 types x 1..3 scopes, with shadowing) followed by every sequence of "
          "L requests (quick: L=3 over a 25-request alphabet and L=4 over 11; thorough: L=4 / L=5) drawn from try_borrow, "
          "try_borrow_mut, borrow, borrow_mut, parent() borrows, drop/read/write of guards 0..2, try_get_value, "
          "get_value, set_value and illegal &mut requests, each followed by a lock dump; (1b) the four *_value accessors "
          "(try_borrow_value, try_borrow_value_mut, borrow_value, borrow_value_mut, also through parent()) as guard sources "
          "mixed with the plain accessors: every sequence of 3 (thorough: 4) requests over a 15-request alphabet after the "
          "same three prefixes (site vguards); (2) multi-borrow through EVERY public entry point - StateRegistry::"
          "try_get_multiple_mut and get_multiple_mut (sites multi-u*), the public trait method MultiStateTuple::try_get_mut "
          "called directly on the registry (sites multi-trait-u*), and the same three on the State wrapper by method syntax / "
          "deref coercion (sites multi-state-u*): every "
          "tuple of arity 2..8 over a 2-type universe (508) and of arity 2..4 over 4 types (336), each with every "
          "subset of the universe present (State wrapper over 4 types, quick: all or all-but-one present), plus 22 fixed "
          "tuples of arity 5..8 over 8 types (distinct permutations and "
          "repetitions at several positions) with all / all-but-one / random subsets present, flat and split over two "
          "scopes; (2b) the three registry entry points on a registry reached by parent_mut() (site multi-parent): three "
          "scopes in five layouts (shadowing, types only below / only above the addressed registry, empty scopes), every "
          "tuple of arity 2..3 (thorough: ..4) over 4 types, every distance 0..3 (3 = no such parent); "
          "scopes; (3) every nesting of holding / with_inner_state of depth 1..3 with ok/err at each level and a body "
          "operation at each level (re-insert of the held type, removal, none), under three scope layouts, followed by "
          "probe holdings (thorough: also guarded value accesses gset/gget as body operations); (4) seeded random machine "
          "histories of length 20..80 (1000 quick / 20000 thorough) over chains of 1..6 scopes with parent() distances "
          "0..4, plain and *_value guards, guarded value accesses inside bodies, multi-borrows through a random entry point "
          "on a random parent_mut(). "
          "Non-trivial: at least one guard request or holding/inner/multi statement; distinct = distinct canonical input."),
    nontrivial=lambda inp: re.search(r"\((bor|bormut|borp|bormutp|parbor|parbormut|borv|borvmut|borvp|borvmutp|parborv|parborvmut) "
                                     r"|\(hold |\(inner |\(multi[pv]? ", inp) is not None,
    trusted_base=[
        "RefCell's implementation (the flag automaton is modelled: shared iff no writer, exclusive iff no writer and no reader)",
        "Ref::map / RefMut::map keep the flag of the guard they are mapped from (the *_value accessors are modelled as "
        "the same transitions as try_borrow / try_borrow_mut; checked against the code on every generated history)",
        "safe Rust cannot leak a guard past the registry except by mem::forget (not modelled); lifetimes / the borrow "
        "checker decide which requests compile - the harness answers 'illegal' for &mut requests while guards live",
        "Marker<T> cannot be named by a client: its presence is observed only through later holdings",
        "the memory model / the unsafe block of MultiStateTuple::try_get_mut: the harness compares the returned addresses "
        "pairwise (alias) and writes through every reference; Miri is not run",
        "State has no multi-borrow method of its own (derive_more Deref/DerefMut to its registry): the model maps the "
        "st / stp / sttup routes to the registry functions; the harness calls them on &mut State by method syntax and by "
        "deref coercion, so an inherent State method shadowing them would be exercised",
        "the tuple types of the harness (8 client types, the instantiations of c01_reg.rs) stand for all tuple types: "
        "impl_multi_state_tuple! is one macro body for every arity 2..8"],
    assumptions=["SplitMix64-seeded generator", "state values are u64 newtypes modelled as Nat (no overflow in the generators)"],
)
CONFIG.update(
    level_text=("Lean 4 theorems over the code-shaped model (RefCell flags in the cells, ghost list of live guards, Marker keys): "
                "flag_inv (every reachable state: each flag equals the live guards on its cell, at most one writer, never "
                "writer+reader), grant_iff / refused_never_granted (state unchanged, error kind) for requests at the current "
                "registry and grant_iff_parent / refused_never_granted_parent for requests through parent() at any distance, "
                "panicking accessors, no_panic_from_fallible (no other request is ever answered by a panic), "
                "value_access_next_to_guards / _absent / _parent (try_get_value, get_value, set_value, parent().try_get_value "
                "next to ANY live guard set: granted iff compatible, refused without writing otherwise), noninterference across "
                "types and scopes, release_restores, write_then_read and write_then_value_read, multi_ok_iff / error kind / "
                "distinct cells for key lists of any length, the same clause for EVERY public entry point (Props/C02Multi.lean over "
                "Model/BorrowMulti.lean, which keeps the call structure trait method <- try_get_multiple_mut <- get_multiple_mut: "
                "multi_every_entry_refuses_repeats - trait method, registry front-end and panicking accessor each refuse a "
                "repeated type by themselves -, multi_every_entry_ok_iff, multi_every_entry_missing, "
                "multi_every_entry_distinct_cells, multi_entries_agree, and for a request issued on any parent_mut(): "
                "multi_via_granted_iff, multi_via_refused_unchanged, multi_via_frame, multi_via_refines, flag_inv_with_multi, "
                "multi_machine_conservative), holding_restores_partial for every body that does not nest a "
                "holding of the same type (ok and err bodies, nested holdings of other types, inner scopes), and proved "
                "counterexamples for both recorded symptoms of the nested same-type case (recorded finding). In addition a "
                "PROPOSED repair of holding (level of the source scope counted from the root instead of a per-type marker; "
                "Model/BorrowRepair.lean, patch in known_findings.d/, NOT applied to the code) is proved to be the abstract "
                "machine for EVERY body incl. nested same-type holdings (repaired_holding_refines, "
                "repaired_holding_restores_all_bodies, repaired_holding_on_witnesses). The model is tied to /repo by running the "
                "real State with live guards from all eight borrow accessors, all multi-borrow tuples through all entry points "
                "(trait method, registry front-ends, State wrapper, parent registries) and all helper nestings, "
                "diffing against the compiled model (K) and against the abstract machine 'stack of maps + guard set, many "
                "readers xor one writer, a multi-borrow through any entry point is granted iff no type repeats and all are "
                "visible from the addressed registry and then writes each innermost binding once, holding restores into the "
                "scope it took from' (O)."),
    level_note=("Trusted: Lean kernel; RefCell represented by its flag automaton; Ref::map/RefMut::map keep the flag; harness + "
                "driver printing. The theorems are about the model; agreement with the code is checked on the generated "
                "histories only. There is no theorem that the code-shaped machine equals the abstract machine on ALL histories "
                "(the clause theorems cover its content piecewise; for the repaired holding the statement part is proved). Not "
                "verified: RefCell, that safe Rust cannot leak a guard past the registry (mem::forget leaves a cell locked; not "
                "modelled), the memory model (no Miri run; two returned references to one object are detected by address "
                "comparison), multi-borrow entry points inside holding / with_inner_state bodies other than "
                "try_get_multiple_mut / get_multiple_mut (the trait-method and parent routes are top-level requests), "
                "MultiStateTuple::distinct() as a function of its own (only through the entry points), when a type both "
                "repeats and is missing the model fixes the code's order (repetition reported first), the typed State wrappers (populations, random_mut, log, "
                "best_individual: one-line calls of borrow/borrow_mut, not exercised here). partial: nested holding of the same "
                "type is outside holding_restores_partial and is a recorded finding. Observed, outside the statement (a body "
                "that 'fails' is read as returning Err): a body that PANICS unwinds through holding, the held state is dropped "
                "and the marker stays (probe: contains::<T>() = false afterwards); the repair theorems are about a proposal, "
                "not about /repo."),
)
