import re

CONFIG = dict(
    bin="c17",
    drv="drv_c17",
    lean_modules=["MahfModel.Props.C17", "MahfModel.Props.C17Ties", "MahfModel.Props.C17Cool", "MahfModel.Props.C17Real"],
    namespaces=["MahfModel.Props.C17"],
    shrink_lists=["steps"],
    shrink=False,
    level="proof",
    rule=("(1) accept-*: the real ExponentialAnnealingAcceptance on prepared two-population frames: objective pairs "
          "(5 base values x {equal, better, worse by 1e-9..1e9}) x temperatures 1e-12..1e12 (plus T = delta*{0.25..20} so that "
          "p is mid-range), each with scripted generator words giving the draws k-1, k, k+1 around the threshold "
          "k = ceil(p*2^53), 0, 1-2^-53 and a random one (low 11 word bits random: they must be discarded), plus T = delta/{700, 740, 745, 746} "
          "(p = 1e-304 .. 5e-324 .. 0: the draw u = 0 separates 0 < p from p = 0); "
          "(2) accept-frame: deeper stacks, empty / surplus individuals, fewer than two populations; "
          "(3) freq-*: n = 2000 (quick) / 20000 (thorough) executions per (cur, cand, T) cell on a seeded ChaCha stream "
          "(frequency vs exp(-delta/T), tolerance 5 sigma + 1e-3) and on a SplitMix stream the model replays exactly "
          "(accepted count must equal the model's), half of the cells on a state that also holds an unchanged Iterations counter; (4) cool: GeometricCooling executed n times on a Temperature, grid + "
          "random (t, alpha), constructor range check; (4b) cool-prog-*: programs built from the REAL GeometricCooling (one instance per node, lens = "
          "ValueOf<Temperature> or one of two further f64 states), Block, Loop + LessThanN::iterations and Scope, executed on prepared states "
          "with / without an Iterations counter: k executions in a row while the counter is unchanged (k = 1..5, T from 5e-324 to inf, 0, negative), "
          "the counter re-inserted between executions, loops of 0..6 passes whose body holds 1..5 cooling components on 1..3 lenses, a loop run "
          "again / continued / reset, scoped nested loops to depth 3 and unscoped nested loops, absent lens target (Err at the first / a later "
          "execution, inside loop and scope), loop without a counter, 250 (quick) / 3000 (thorough) random programs; a recorder component "
          "directly behind every cooling component logs the value it left, so the oracle judges EVERY execution (value = previous * its own "
          "alpha, nobody else touched a cell) and the model must reproduce status, final cells, final counter and the whole log bit for bit; (5) run: real_sa / permutation_sa template runs under the step "
          "observer: every acceptance (frame, not-worse => accepted) and every cooling (T' = alpha*T, nobody else "
          "touches T, once per pass), with the state's generator swapped for a SplitMix-backed scripted one before the first draw so "
          "that EVERY acceptance of the run is re-emitted as a prepared accept case with the exact word it consumed "
          "(run-accept: exact decision); (6) accept-equal-inf / accept-inf: +inf objective values; "
          "(7) solutions are opaque — accept-same-*: every cell of grid (1) again with candidate and current encoding the SAME solution (equal tags 1 / 2 / 7, "
          "7 also sits in the population below) but the cell's objective values (a re-evaluated / noisy measurement), draws k-1, k, k+1, 0, 1-2^-53; accept-frame "
          "shapes with equal tags in the frame and below; a third of the freq cells with `(same 1)` (survivor told by its objective bits); run-accept cases carry "
          "equal tags whenever the run's candidate encodes the current solution; "
          "(8) accept-tie / accept-worse-extreme / accept-better-extreme: 10 pairs of numerically equal objective values (-0/+0, +0/-0, +0/+0, -0/-0, +inf/+inf, "
          "1, -5, 1e300, 5e-324, -1e-310) and 12 worse / better pairs (margins 5e-324 .. 2e300, +inf, across the signed zeros) x T in {0, 5e-324, 1e-310, "
          "2.2e-308, 1e-300, 1e-12, 1, 1e12, 1e300, f64::MAX, +inf} x draws {0, 1/2, 1-2^-53, around the threshold} x {distinct, equal} solutions; freq cells "
          "for signed-zero ties and worse / better pairs at T in {0, 5e-324, 1e-310, 1e300, +inf}; "
          "(9) accept-chain: sequences of 1..10 passes on ONE state (each step: Temperature := its T, push the candidate population, execute the real acceptance "
          "with a fresh scripted generator holding the step's word; the survivor is the next step's current): the same solution measured five times better / "
          "worse, signed zeros alternating between two solutions, mixed ties / +inf, each at the 11 temperatures x 3 draws; 300 (quick) / 3000 (thorough) random "
          "chains (1..3 solutions, objective values noisy around a level or from a pool with ties, -0, +inf, 5e-324; T constant / cooled by 0.5, 0.9, 0, 1e-200 / "
          "extreme; words random or at the threshold), with and without populations below; "
          "(10) run-noisy: the generic `sa::sa` template (real acceptance, GeometricCooling, Loop, evaluation) on a problem whose k-th evaluation returns the "
          "k-th value of a scripted sequence (refining, degrading, noisy, signed zeros, few values with ties and +inf) with a generation step that never (real "
          "`Noop`) / sometimes / always changes the solution, t_0 in {1, 100, 1e-3, 0, +inf, 1e-300}, alpha in {0.9, 0.5, 0, 0.99}: oracle of (5), every acceptance "
          "re-emitted as a prepared case. Non-trivial = not a frame-error case and not a better-candidate case; distinct = "
          "distinct input line."),
    nontrivial=lambda inp: (inp.startswith("(accept") and ("(stack ((2" in inp or "(stack ((1" in inp or "(stack ((7" in inp)) or inp.startswith("(chain") or inp.startswith("(freq") or inp.startswith("(cool") or inp.startswith("(coolprog") or inp.startswith("(run"),
    trusted_base=[
        "Lean's Float.exp and Rust's f64::exp both call the platform libm (decisions are compared allowing one ulp of exp; "
        "on this platform they agree bit for bit on every generated case)",
        "rand 0.8.8: gen::<f64>() = (next_u64() >> 11) * 2^-53 (read off the vendored source; re-checked by the scripted-word cases)",
        "the population stack is represented head = top; individuals are (tag, objective) pairs; equal tags = equal solutions (u64 encoding)",
        "run-noisy: the scripted objective sequence and the Move generation component are harness code; Loop / evaluation / Noop are the real ones",
        "cool-prog: the recorder component the harness places behind every cooling component reads the cell faithfully; "
        "Loop / Scope / LessThanN / State registry are the real ones (their own semantics are C03 / C10 / C01 territory)"],
    assumptions=["SplitMix64-seeded generator; theorems are in exact (ordered-field) arithmetic with an abstract exp "
                 "(ExpSpec: exp 0 = 1, exp(x+y) = exp x * exp y, 1 + x <= exp x; satisfied by Real.exp)"],
    timeout_quick=600,
)
CONFIG.update(
    level_text=("Lean 4 theorems over an arbitrary ordered field with abstract exp: a candidate at least as good is always "
                "accepted without a draw; a worse one iff u < exp(-(f(cand)-f(cur))/T); explicit bounds 1-d/T <= p <= T/(T+d) giving "
                "p -> 0 (T -> 0+) and p -> 1 (T -> inf) as order statements, monotone in T; stack frame (two singleton "
                "populations -> survivor, rest untouched, 0/1 draws); Err/panic cases; n coolings give T*alpha^n; cooling as a "
                "component inside programs (model SaCool: Iterations counters of the open scopes, several f64 cells, Block / Loop / Scope): "
                "one execution multiplies its lens target exactly once on EVERY state and touches nothing else (cooling_execution_exact), "
                "absent target = Err (cooling_absent_target), every program run changes each cell exactly by the product of the logged "
                "executions (cooling_program_effect), k executions under an unchanged counter give v*alpha^k (cooling_repeated_same_iteration), "
                "the counters are irrelevant for a block of coolings (cooling_ignores_iterations), a loop over a block of several coolings "
                "applies every one in every pass (cooling_loop_power); +inf candidate never / +inf current always replaced "
                "(accept_inf_candidate, carrier Ext F); the acceptance is blind to solutions: renaming the solutions of the whole stack by any "
                "function commutes with the execution (accept_solution_blind, every carrier), a frame whose two individuals encode the same solution "
                "ends with that solution carrying the objective the rule selects (accept_same_solution); a sequence of passes on one state leaves "
                "the fold of the single decisions, each against the previous survivor (accept_chain_survivor), so measurements that never get worse end with "
                "the last one (chain_not_worse_last_wins); on the carrier Iz F (ordered field + signed zero, infinities, NaN with the IEEE rules for -, /, <, <=) "
                "numerically equal values (-0/+0, +inf/+inf) replace each other at EVERY temperature (accept_numeric_tie), at T = +-0 the probability term of a tie "
                "is NaN so only the comparison can accept it (tie_probability_nan_at_zero_temperature), a worse candidate is never accepted at T = +0 and always at "
                "T = +inf (accept_worse_zero_temperature, accept_worse_infinite_temperature: the limits are attained); the number "
                "of 64-bit generator words that accept is ceil(p*2^53)*2^11 (probability). ExpSpec is instantiated with "
                "Real.exp. The model is tied to /repo by running the real components on the grid with scripted draws "
                "around the decision threshold (K exact), seeded frequencies, cooling programs (K bit-exact, O per execution) and template runs (O)."),
    level_note=("Trusted: Lean kernel; libm exp; rand's word->f64 mapping; harness + driver. Floating-point rounding of "
                "(cur-cand)/T and exp is not modelled in the theorems (partial: rounding); the compiled model uses the same "
                "IEEE operations as the code. Equal +inf objective values (p = exp(inf - inf) = NaN) are accepted by the `<=` "
                "short-circuit (fixed in /repo ca95ba5; theorem accept_equal_inf on the IEEE-like carrier Ext F; the +inf/+inf "
                "cases are generated on every run). The oracle judges temperatures +0 <= T <= +inf (T = 0 is what alpha = 0 or underflow leaves, +inf a legal t_0): "
                "a candidate whose objective is numerically <= the current one (IEEE comparison: -0 = +0, +inf <= +inf) must survive at every such T; a worse one "
                "iff u < exp((cur - cand)/T) evaluated in IEEE arithmetic (T = +0: exp(-inf) = 0, never; T = +inf: exp(-0) = 1, always), within one ulp of exp; "
                "where that formula is NaN (+inf candidate at T = +inf) and for T < 0, T = -0, NaN temperatures the oracle is silent. The survivor is identified "
                "as a whole individual (solution AND objective bits), so with equal solutions a stale objective is a wrong survivor; an individual identical "
                "to the current one in both counts as either. The number of generator words consumed is compared "
                "only where the decision can depend on the draw: for a candidate that is not worse, or p = 0 / p >= 1 / NaN after rounding, "
                "both 0 and 1 draws are accepted as legal witnesses (the property does not speak about the draw count). In the cooling "
                "programs the f64 cells live in the root scope and `setIter` stands for any component that re-inserts Iterations; loop "
                "termination of the model is by step budget (cooling_loop_power is a statement about loop runs that end ok, satisfiable by "
                "example; cooling_program_effect holds for every outcome; cooling_repeated_same_iteration proves termination itself). Acceptance `init` "
                "(Temperature := t_0) and the template order are observed in the runs only, not modelled. The signed-zero carrier Iz F is exact "
                "(no rounding, no subnormals): the subnormal-temperature cases are covered by the compiled Float model and the oracle only."),
)
