CONFIG = dict(
    bin="c18",
    drv="drv_c18",
    lean_modules=["MahfModel.Props.C18"],
    namespaces=["MahfModel.Props.C18"],
    shrink_lists=["steps"],
    shrink=False,
    level="proof",
    rule=("(1) vel: the real ParticleVelocitiesUpdate on prepared swarms (1-10 particles, 1-5 dimensions, v_max 1e-3..10, "
          "stored weight in {0, .4, .9, 1, 1.5} different from the component's own weight field, c1/c2 in {0..4}, velocities "
          "up to 3 v_max, partly unevaluated particles) with a scripted generator (words incl. 0, 2^63, 2^64-1); the draws are "
          "read back from the consumed words (word -> (w>>11)*2^-53 re-checked) and the model recomputes every coordinate "
          "(K: relative tolerance 1e-9, either assignment of the two consumed draws to the cognitive / social term, any "
          "association of the sum; O: |v'| <= v_max, x' = x + v' to one rounding, and v' = clamp(w_stored*v) wherever both "
          "attraction terms vanish - a quarter of the cases has c1 = c2 = 0, a quarter has every particle on its personal and "
          "the global best, stored weights up to 1.5); "
          "(2) vel-malformed: size mismatches between particles / velocities / personal bests, missing global best, "
          "dimension mismatches; (3) velinit; (4) pbest-init / pbest-update and gbest on populations with objective ties, "
          "improvements, unevaluated members, unequal lengths; (5) swarm: the ParticleSwarmUpdate block on states satisfying "
          "'global best = first minimal personal best'; (6) linear: the Linear mapping Progress -> InertiaWeight; "
          "(7) run: real_pso (3 parameter points x 4 instances x seeds) under the step observer with the state's generator "
          "replaced by a SplitMix-backed scripted one before the first draw: collection sizes after every swarm child and at "
          "pass boundaries, inertia weight vs linear interpolation at iterations/n, personal bests monotone / = min(old, "
          "candidate) / = the harness's own per-particle best raw objective / not stale, global best = min personal best "
          "and a member; run-vel: EVERY velocity update of those runs re-emitted as a prepared `vel` case with the exact "
          "words consumed, so the model re-derives it; plus real_pso built directly with parameters outside the template table "
          "(inertia 1.4 -> 0.4 with c1 = c2 = 0, 1.2 -> 0.4, increasing 0.4 -> 0.9, constant 0.729, single particle). Non-trivial = not a malformed case; distinct = distinct input line."),
    nontrivial=lambda inp: not inp.startswith("(velinit") and "(gbest none)" not in inp,
    trusted_base=[
        "rand 0.8.8: gen::<f64>() = (next_u64() >> 11) * 2^-53 (re-checked against the consumed words on every vel case); "
        "gen_range for the initial velocities is witnessed (legality checked), not modelled",
        "f64::clamp(lo, hi) = if v < lo {lo} else if v > hi {hi} else {v}",
        "individuals are (position, objective, evaluated flag); RefCell borrows are not modelled (C02)"],
    assumptions=["theorems are in exact (ordered-field) arithmetic and quantify over all draws; the implementation is compared "
                 "with the compiled model up to 1e-9 relative (draw assignment and association order of the velocity sum are not part of the property); transported data exactly"],
    timeout_quick=600,
)
CONFIG.update(
    level_text=("Lean 4 theorems over an arbitrary ordered field and all draws: after a successful velocity update every "
                "coordinate of particle k is clamp(w*v + c1*r1*(pbest-x) + c2*r2*(gbest-x), -vmax, vmax) with w the STORED inertia "
                "weight, lies in [-vmax, vmax], and the position moved by exactly that velocity; the inertia update stores "
                "(end-start)*progress+start (progress = iterations/n) and nothing else; personal bests never get worse and, by "
                "induction over any history of evaluated populations, equal the best position the particle was evaluated at; "
                "'global best is a minimal personal best' holds after the initialisation and is preserved by every update block; "
                "the three collections keep one entry per particle and a mismatch is Err. Tied to /repo at component level "
                "(K exact) and on every step of real_pso runs (O + exact re-derivation of every velocity update)."),
    level_note=("Trusted: Lean kernel; harness + driver; rand's word->f64 mapping. Rounding is outside the theorems (partial: "
                "rounding; x' = x + v' is checked to one rounding, the formula to 1e-9 relative). Between ParticleVelocitiesInit "
                "and PersonalBestParticlesInit (inside the init block) the personal-best list is still empty; sizes are checked "
                "from the end of the initialisation on. Dimension mismatches panic (index out of bounds) and are only compared "
                "by status."),
)
