CONFIG = dict(
    bin="c18",
    drv="drv_c18",
    lean_modules=["MahfModel.Props.C18", "MahfModel.Props.C18Loop"],
    namespaces=["MahfModel.Props.C18", "MahfModel.Props.C18Loop"],
    shrink_lists=["steps"],
    shrink=False,
    level="proof",
    rule=("(1) vel: the real ParticleVelocitiesUpdate on prepared swarms (1-10 particles, 1-5 dimensions, v_max 1e-3..10, "
          "stored weight in {0, .4, .9, 1, 1.5} different from the component's own weight field, c1/c2 in {0..4}, velocities "
          "up to 3 v_max, partly unevaluated particles) with a scripted generator (words incl. 0, 2^63, 2^64-1); the draws are "
          "read back from the consumed words (word -> (w>>11)*2^-53 re-checked) and the model recomputes every coordinate "
          "(K: relative tolerance 1e-9; the consumed draws are a WITNESS - the new velocities of a particle must be the "
          "formula under SOME one-to-one assignment of the 2*dim draws that particle consumed to its 2*dim coefficient slots "
          "(depth-first search, most constrained coordinate first), so the order in which a particle's coefficients are "
          "drawn is free, as is the association of the sum; exactly two draws per coordinate, particles one after the other; O: |v'| <= v_max, x' = x + v' to one rounding, and v' = clamp(w_stored*v) wherever both "
          "attraction terms vanish - a quarter of the cases has c1 = c2 = 0, a quarter has every particle on its personal and "
          "the global best, stored weights up to 1.5); "
          "(2) vel-malformed: size mismatches between particles / velocities / personal bests, missing global best, "
          "dimension mismatches; (3) velinit; (4) pbest-init / pbest-update and gbest on populations with objective ties, "
          "improvements, unevaluated members, unequal lengths; (5) swarm: the ParticleSwarmUpdate block on states satisfying "
          "'global best = first minimal personal best'; (6) linear: the Linear mapping Progress -> InertiaWeight; "
          "(7) run: real_pso (3 parameter points x 4 instances x seeds) under the step observer with the state's generator "
          "replaced by a SplitMix-backed scripted one before the first draw: collection sizes after every swarm child and at "
          "pass boundaries, inertia weight vs linear interpolation at iterations/n, personal bests monotone / = min(old, "
          "candidate) / = the harness's own per-particle best raw objective / not stale, global best = min personal best "
          "and a member; run-vel: EVERY velocity update of those runs re-emitted as a prepared `vel` case with the exact "
          "words consumed, so the model re-derives it; plus real_pso built directly with parameters outside the template table "
          "(inertia 1.4 -> 0.4 with c1 = c2 = 0, 1.2 -> 0.4, increasing 0.4 -> 0.9, constant 0.729, single particle). "
          "The global-best invariant of runs is evaluated at the pass boundaries (before and after every loop pass), so the "
          "order of the two best updates inside the update block does not matter. "
          "(8) runx / runx-vel: real_pso (or, without inertia-weight update, the public pso::pso template) under COMPOSITE "
          "termination conditions - 14 fixed formulas (evaluations(k) | iterations(n) in both orders, &, !!, And::new / "
          "Or::new with three operands, an iteration bound repeated inside a nested formula, iterations(0)) and seeded "
          "random formulas of depth <= 3 over one iteration bound and random evaluation budgets - optionally as the last "
          "phase of a hybrid (RandomSpread(20..300), evaluate, update_best_individual, optionally ClearPopulation, so that "
          "common::BestIndividual holds a solution no particle was evaluated at), with 1..6 particles; observed per pass: "
          "Iterations, Evaluations, Progress<Iterations>, Progress<Evaluations> at the pass boundary and the stored weight "
          "every velocity update reads. K: the condition model (every operand of & and | evaluated, LessThanN stores "
          "value/n) fed with the observed counters answers true before every pass and false at the exit and leaves the "
          "observed Progress values; passes are numbered 0,1,2,..; the weight read in pass j is wAt j (start, then the "
          "interpolation at (j-1)/n; start throughout without inertia update); the run ends Ok. O: all step clauses of (7) "
          "plus the weight chain - each velocity update read exactly the weight the latest inertia update stored. "
          "(9) gbest-hybrid / swarm-hybrid: the global-best update and the update block on states that also hold a "
          "common::BestIndividual (absent / empty / better than every particle / arbitrary). "
          "(10) swarminit / swarminit-stale: the ParticleSwarmInit block (init + execute) on a fresh state and on a state "
          "that still holds the BestParticle of an earlier swarm (worse: replaced; at least as good: it stays - KNOWN "
          "FINDING). (11) *-id: velocity update / init, personal-best init / update and global-best update under identifier "
          "A next to decoy Global swarm state of other sizes, which must be neither read nor written (status 'leak'). "
          "Objective values of the best-memory cases include +inf. "
          "Non-trivial = not a malformed case; distinct = distinct input line."),
    nontrivial=lambda inp: not inp.startswith("(velinit") and "(gbest none)" not in inp,
    trusted_base=[
        "rand 0.8.8: gen::<f64>() = (next_u64() >> 11) * 2^-53 (re-checked against the consumed words on every vel case); "
        "gen_range for the initial velocities is witnessed (legality checked), not modelled",
        "f64::clamp(lo, hi) = if v < lo {lo} else if v > hi {hi} else {v}",
        "individuals are (position, objective, evaluated flag); RefCell borrows are not modelled (C02)",
        "the loop model takes Loop::execute (init the condition, then while evaluate { body; Iterations += 1 }), the body "
        "order of heuristics::pso::pso and the u32 -> f64 conversion of LessThanN from reading the source; the harness "
        "observes the counters and Progress states at the pass boundaries only (not between the operands of a formula)"],
    assumptions=["theorems are in exact (ordered-field) arithmetic and quantify over all draws; the implementation is compared "
                 "with the compiled model up to 1e-9 relative (which consumed draw feeds which coefficient of a particle and the association order of the velocity sum are not part of the property); transported data exactly",
                 "loop-level theorems assume a non-empty evaluated swarm of one dimension d, legal initial velocities, a "
                 "dimension-preserving boundary repair, an iteration bound in the termination formula when there is an "
                 "inertia-weight update, and NO global best in the state before ParticleSwarmInit (the stale-global-best case "
                 "is the recorded finding); objective function, draws, BestIndividual content and formula are arbitrary"],
    timeout_quick=600,
)
CONFIG.update(
    level_text=("Lean 4 theorems over an arbitrary ordered field and all draws: after a successful velocity update every "
                "coordinate of particle k is clamp(w*v + c1*r1*(pbest-x) + c2*r2*(gbest-x), -vmax, vmax) with w the STORED inertia "
                "weight, lies in [-vmax, vmax], and the position moved by exactly that velocity; the inertia update stores "
                "(end-start)*progress+start (progress = iterations/n) and nothing else; personal bests never get worse and, by "
                "induction over any history of evaluated populations, equal the best position the particle was evaluated at; "
                "'global best is a minimal personal best' holds after the initialisation and is preserved by every update block; "
                "the three collections keep one entry per particle and a mismatch is Err. Loop level (Props/C18Loop.lean, model "
                "Model/PsoLoop.lean): evaluating ANY termination formula over iteration / evaluation bounds, !, &, | stores "
                "iterations/n for the iteration bound evaluated last, wherever it stands (cond_progress); for whole runs of the "
                "pso template with any formula, objective, draws, BestIndividual content, with or without inertia update "
                "(run_keeps_swarm_consistent): no Err / panic, one entry per particle, velocities clamped, global best = a minimal "
                "personal best after every pass, every velocity update scaled the old velocity with the weight of the schedule "
                "wAt (weight_schedule: start weight, then the interpolation at the previous pass's progress), personal bests = "
                "the initial population folded over the evaluated populations, hence the best evaluated position of each "
                "particle (run_pbest_best_visited); the driver's global-best oracle is the invariant (gbest_oracle_sound). "
                "Tied to /repo at component level (K exact, also under a non-Global identifier with decoy state) and on every "
                "step of real_pso / pso runs under plain and composite termination conditions, stand-alone and as the last phase "
                "of a hybrid (O + exact re-derivation of every velocity update + condition model on the observed counters)."),
    level_note=("Trusted: Lean kernel; harness + driver; rand's word->f64 mapping. Rounding is outside the theorems (partial: "
                "rounding; x' = x + v' is checked to one rounding, the formula to 1e-9 relative). Between ParticleVelocitiesInit "
                "and PersonalBestParticlesInit (inside the init block) the personal-best list is still empty; sizes are checked "
                "from the end of the initialisation on. Dimension mismatches panic (index out of bounds) and are only compared "
                "by status. KNOWN FINDING (swarminit-stale): ParticleSwarmInit on a state that still holds an at-least-as-good "
                "BestParticle of an earlier swarm keeps it (GlobalBestParticleUpdate::init only inserts when absent), so the "
                "global best is not a personal best of the new swarm - counterexample swarmInit_stale_gbest_violates, what "
                "holds: swarmInit_establishes_invariant_partial. Observed, outside the property text: "
                "ParticleSwarmInit::<I>::new_with_id and ParticleSwarmUpdate::<I>::new_with_id ignore I and build the Global "
                "components (a pso::<P, I> assembled from the _with_id constructors fails `require`), so the two blocks are "
                "exercised under Global only. Which Progress value survives when a formula contains iteration bounds with "
                "DIFFERENT n (the last evaluated one, by the model) is not exercised; what Progress holds after the loop has "
                "ended is not checked. The loop model's pass body is not re-executed against the code as a whole (no objective "
                "/ boundary model in the driver); its parts are: velocity update exactly, condition and weight schedule per "
                "pass, best updates per step."),
)
