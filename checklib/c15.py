import re

CONFIG = dict(
    bin="c15",
    drv="drv_c15",
    lean_modules=["MahfModel.Props.C15", "MahfModel.Props.C15Files", "MahfModel.Props.C15Runs"],
    namespaces=["MahfModel.Props.C15"],
    shrink_lists=["rules", "tree", "loop", "scope", "ifx", "calls", "pre", "probs", "runs", "run"],
    level="proof",
    rule=("(1) logger: 27 log configurations (no LogConfig / empty / always / never / every-n incl. n = 0 / Not / scripted triggers incl. Err / "
          "ChangeOf triggers (need Logger::init), with_many, clear, duplicate entry names, sources missing; rule lists of even length are "
          "registered through one State::configure_log call per rule) x 20 logger placements (before / inside / after a loop, twice in a "
          "loop, inside a branch, inside a scope, nested loops, two loops, no loop at all) x iteration counts 0..5, plus seeded random "
          "programs over Block/Loop/Branch/Scope/Logger/SetX/AddX with random rule sets (2500 quick / 100000 thorough); each is a REAL "
          "Configuration built with the ConfigurationBuilder, run by optimize_with; the log is exported with to_json and to_cbor, both files "
          "are decoded IN FULL (the JSON text must be one value, the CBOR file one item with no byte behind it) and compared with the "
          "model's log and compress; every second grid case, half (thorough: a fifth) of the random programs and half of the template-log cases export to "
          "paths that ALREADY EXIST — holding the same export, 0 / 1 / 17 / 300 / 5000 / 40000 bytes of junk, or an older export (written "
          "by the real code) of a log with 0 / 1 / 3 / 12 / 60 / 400 steps, i.e. shorter, about as long and much longer than the new one; "
          "all 14 x 14 (json, cbor) combinations occur. (2) template-log: all 21 templates x variants x random every-n rule "
          "sets (duplicate names, a missing source, with_common), witness = snapshot of the sources before every Logger execution. "
          "(3) cfg-template: all 21 templates x 4 variants x 2 bounds through to_ron and serde_json, clone, component names; cfg-tpair: all "
          "pairs of (variant, bound) per template. (4) cfg-pair / cfg-typair-*: trees of REAL components, conditions, lenses and identifiers "
          "(20 component kinds incl. Linear / Polynomial mappings over 6 input x 8 output lenses and identifier-generic swarm / evaluation / "
          "mutation components, 7 condition kinds over 6 lenses, Block/Loop/Branch/Scope; u32 values up to 2^32-1, f64 values with 17 "
          "significant digits) and a copy with exactly one parameter value, exactly one node (type swap, child added / removed, Not added / "
          "removed, Scope removed, else added / removed) or exactly ONE TYPE PARAMETER changed (lens target at nesting depth up to 4, "
          "identifier) or nothing; every pair of every lens / identifier menu under every host component inside "
          "while LessThanN::iterations(100) {..}; each tree goes through Configuration::to_ron, serde_json and the name-preserving serde "
          "traversal, whose output is read back as a tree of names, parameter values and children. Configuration::to_ron always writes to a path that holds something else "
          "(junk longer than any export; for the second tree of a pair: the export of the first, which is longer, shorter or equally "
          "long), and the RON text left behind is read back as a whole by the harness's RON reader into the same tree form. (5) exp / "
          "exp-reuse: sequences of 1..3 REAL par_experiment calls (child process) into ONE folder: configurations of the logger program "
          "language with rule sets, 0..3 runs, 0..2 problems, log on / off; 15 systematic second experiments that differ from the first "
          "in exactly one respect (one parameter value up / down / to 0, a sparser log, fewer / more runs, fewer / other problems, no "
          "logs, one node more / fewer, other nesting, nothing) in both orders, folders pre-seeded with junk / older exports under the "
          "names the experiment writes to (and under names it does not), a failing run in the middle, and random sequences whose next "
          "call changes exactly one number of the previous configuration, the rules, or everything (110 quick / 2500 thorough); after "
          "every call configuration.ron is read back as a tree and every <problem>_<run>.cbor of this call is decoded in full. "
          "(6) logger-runs / logger-rerun-after-err: SEQUENCES of 1..3 Configuration::run calls on ONE caller-owned State (prepared as "
          "optimize_with prepares it, rules registered once; every run has its own configuration of the logger program language), "
          "continued whatever the earlier runs returned: 12 rule sets (no LogConfig, no failing trigger, scripted flaky triggers that "
          "return Err at their 1st..5th evaluation, shipped triggers that fail while their source is missing: ChangeOf over a missing X, "
          "EveryN::iterations before any Loop inserted the counter) x 10 run sequences (the same configuration 1 / 2 / 3 times, a "
          "corrected configuration after a failing one, a loop-free run after a run with a loop (the counter of the earlier run stays), "
          "empty runs, scopes) x 4 iteration counts, plus random sequences with a failing script in every second rule (900 quick / "
          "30000 thorough); the outcome (Ok / Err) of EVERY run and the log the state holds at the end (raw + both exports decoded in "
          "full) are compared; site logger-rerun-after-err = at least one run follows a failed run (about a third of the cases). "
          "Non-trivial = a logger case with at least one rule and a Logger in the tree, or any template/cfg/exp case; distinct = "
          "distinct input."),
    nontrivial=lambda inp: (inp.startswith(("(lg (rules (", "(lgs (rules (")) and "(log)" in inp) or inp.startswith(("(tl", "(cfg", "(fl", "(exp")),
    trusted_base=[
        "serde_json / ciborium / ron back-ends are exercised (files written by the real code are decoded by the harness), not modelled",
        "HashMap iteration order of the per-step export maps is represented by 'any permutation' (export_order_independent)",
        "harness-defined states X, G<I>, components SetX/AddX, conditions Const/Script/XGe and extractor Named use public traits only",
        "the harness's exact JSON reader (numbers through Rust's correctly rounded str::parse::<f64>) and canonical value printer",
        "the harness's RON reader (ron_to_sexp: the text written by Configuration::to_ron / par_experiment into the generic tree form "
        "of hcommon::sertree; rejects a text that is not ONE value) — a wrong reading shows as a K disagreement on the unchanged tree",
        "the operating system's file semantics: File::create truncates, a write through a fresh writer starts at offset 0 "
        "(modelled as fileCreate / fileWrite); paths of one experiment folder are modelled as structured names "
        "(configuration.ron, (problem, run)), i.e. distinct (problem, run) pairs are assumed to give distinct file names",
        "the harness's name-preserving serde traversal (hcommon::sertree) and the driver's generic reader of its output (readItem): "
        "struct / newtype / tuple-struct / unit-struct names kept, field names dropped, order kept",
        "the harness's table from a structured type name to the Rust type it instantiates (a wrong entry shows as a K disagreement on the "
        "exported name)"],
    assumptions=[
        "exp cases: every run of one par_experiment call executes the same deterministic program (no component or trigger of the "
        "program language draws random numbers), so all runs of a call have the same specified log; which run / problem a log file "
        "belongs to is therefore checked by name and count only (seed-dependent content per run is C08's subject)",
        "SplitMix64-seeded generators; type_name strings are stable for the pinned toolchain (type_name elides a generic argument equal "
        "to its default: NormalMutation<Global> prints as NormalMutation)",
        "type names in the generated menus have one generic argument per level (type_name separates several arguments by ', ', the model "
        "renders ','); paths contain none of '<' '>' ','"],
    timeout_quick=600,
)
CONFIG.update(
    level_text=("Lean 4 theorems over the model of Logger/LogConfig/Step/Log and CompressedLog: one logger execution appends exactly the "
                "specified step (first fired rule of a name wins and its value — or the explicit null of a missing source — is the entry, "
                "iteration entry in front unless logged by a rule or no loop counter exists, nothing if nothing fired "
                "(nothing_fires_adds_nothing) and one step as soon as one trigger fires (some_trigger_fires_adds_one); each trigger evaluated "
                "exactly once in order; a failing trigger aborts), the log of any program of blocks/loops/scopes is the concatenation of its "
                "logger executions' steps, decompress(compress log) = log for all logs with distinct names per step (which every produced "
                "step has), the name table is duplicate-free, any permutation of a step's exported entries denotes the same map. "
                "Configuration export: type names as std::any::type_name prints them (path + generic arguments to any depth) are "
                "uniquely readable (type_name_injective), hence the serialisation of a tree whose leaves carry their FULL type name is "
                "injective without side conditions (ser_full_injective: trees differing in a node, nesting, a parameter value or only in a "
                "type parameter of a lens target / identifier serialise differently); what the code writes determines the tree up to "
                "type parameters held as plain PhantomData (ser_code_up_to_phantom, ser_code_injective_partial, pair_model_holds_partial), "
                "and that exclusion is a recorded defect (phantom_identifier_violates); names every node; a structural clone serialises "
                "identically. Tied to /repo by running real configurations and decoding the real JSON/CBOR/RON exports (K: model log equals "
                "the real log as a sequence of name->value maps, the real compressed exports DECODED through their own name table equal the "
                "model's decoded compress; for configuration pairs the tree of names / parameter values / children READ BACK from the real "
                "serialisation equals the described tree with every type name rendered in full, and the equal/unequal verdicts of to_ron, "
                "serde_json and the traversal equal the model's; O: decoded exports equal the specified sequence of steps as maps; every "
                "configuration serialises, exports are equal exactly when the configurations are the same, a clone exports identically, "
                "the export names every component with its parameter values and nesting). "
                "Files (Props/C15Files): over a file-system model with File::create = truncate and offset-0 writes, an export leaves "
                "EXACTLY the written bytes at its path for every earlier content and touches no other path (export_replaces_file); for "
                "every lawful self-delimiting codec (len_codec_lawful: the length-prefixed encoding of the compressed log is one) the "
                "CBOR / JSON file read AS A WHOLE decodes to exactly the log (cbor_file_decodes_exactly, json_file_decodes_exactly_partial), "
                "after any sequence of exports every path reads as the last log exported to it (last_export_wins), reading as a whole "
                "notices any stale tail while a one-item prefix decoder does not (stale_tail_is_noticed), and without truncation a "
                "shorter export over a longer file is undecodable (untruncated_export_keeps_tail — what the theorems exclude). "
                "par_experiment on a folder in ANY state: on Ok configuration.ron is this call's export and every <problem>_<run>.cbor "
                "(run < runs) decodes as a whole to that run's log (experiment_records_are_this_calls, experiment_ok_all_runs_ok), other "
                "log files and — with log = false — all log files stay as they were (experiment_other_files_untouched), a second "
                "experiment into the same folder replaces the configuration and a different configuration gives a different file "
                "(reused_folder_config_is_replaced with cfg_bytes_injective_partial / prog_export_injective). Tied to /repo by the pre-existing-"
                "path cases of every export site and by real par_experiment sequences (K: tree read back from configuration.ron and "
                "decoded log files equal the model's folder after every call; O: the call's result, configuration.ron denotes THIS "
                "call's configuration (names, parameter values, nesting), every log file of this call decodes in full to the specified log). "
                "Runs on one state (Props/C15Runs, Model/LogC15Runs: an interpreter that returns the state a FAILED execution leaves "
                "behind — State::holding puts the LogConfig back whatever the closure returned, Scope restores the parent registry, "
                "Configuration::run = init (Loop: Iterations(0); Logger: every trigger re-initialised) + execute on the given state): "
                "after ANY sequence of runs on any state — completed, failed with Err at any point — the log has grown by exactly the "
                "specified steps of the logger executions that completed meanwhile, in order (runs_log_is_concat, "
                "runs_log_from_fresh_state), no execution changes what the state is configured to log (log_config_survives_any_run, "
                "log_config_survives_any_history), a failed logger execution appends and records nothing (failed_logger_execution_"
                "changes_nothing), a logger execution on any state holding a LogConfig appends exactly the specified step "
                "(logger_execution_on_any_state), the single-run interpreter is this one with the failed state forgotten "
                "(single_run_refines), and a holding that drops the value on Err is excluded (dropping_config_on_error_violates). "
                "Tied to /repo by the logger-runs* cases (K: outcomes of all runs and final log equal the model's; O: every run "
                "reports the outcome its triggers prescribe and the decoded log is the specified steps of all completed logger "
                "executions of all runs; classes run-outcome, steps-missing, wrong-value)."),
    level_note=("proof, partial: the theorems are about the model. Configuration export: the leaf level (type names, parameter values, "
                "PhantomData fields) and the tree shape are modelled and tied per generated tree by reading the real export back; the "
                "per-component Serialize derives are NOT modelled in Lean — the expected shape of each component kind is part of the "
                "harness's description of the tree and is confirmed against the real export on every case (K). That every configuration "
                "serialises (Ok) is checked per case and for all templates, not proved. The serde back-ends (serde_json, ciborium, ron), "
                "erased_serde's trait objects and HashMap ordering are exercised, not modelled. Known findings: (1) JSON cannot carry "
                "non-finite floats: serde_json writes null (json_nonfinite_violates, json_export_partial); (2) the six mutation components "
                "of src/components/mutation/common.rs hold their identifier as plain PhantomData<I>, so NormalMutation::<A> and ::<B> export "
                "identically (site cfg-typair-phantom [collision], phantom_identifier_violates, ser_code_injective_partial). A Logger "
                "outside any loop logs its step without an iteration entry (fix 5b69ade). The order of entries INSIDE a step is treated as "
                "representation in K as well as O (the exports are hash maps; the property fixes no order). ChangeOf triggers are modelled "
                "per trigger, which is exact for at most one such trigger per rule set in programs without a Scope; the driver refuses "
                "other inputs. Files: the file system, the RON / JSON / CBOR byte formats and rayon's scheduling are not modelled beyond "
                "create = truncate, offset-0 writes and 'jobs touch pairwise different files'; the log-file codec is abstract (any lawful "
                "self-delimiting codec; serde_json / ciborium are exercised by decoding every real file in full). Files of an earlier "
                "experiment that THIS call does not write (runs >= runs, other problems, logs when log = false) stay in the folder "
                "(experiment_other_files_untouched); the property does not speak about them, they are reported ('other') and not compared. "
                "When a run fails, which other runs had already written their logs is not determined; only the Err is compared (the harness still "
                "reports the configuration.ron it finds). Runs on one state: a logger execution aborted by a failing trigger is required "
                "to append nothing (as the code does; the clause 'a trigger fires => one step' is read for executions that complete); "
                "after a PANIC inside a run nothing is specified (the held LogConfig is lost by unwinding), sequences end there; "
                "State::holding itself is modelled only through its effect on the LogConfig (its registry mechanics are C01's subject); "
                "ChangeOf triggers: re-initialised by every run whose configuration reaches a Logger, same one-trigger / no-Scope domain."),
)
