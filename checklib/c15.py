import re

CONFIG = dict(
    bin="c15",
    drv="drv_c15",
    lean_modules=["MahfModel.Props.C15"],
    namespaces=["MahfModel.Props.C15"],
    shrink_lists=["rules", "tree", "loop", "scope", "ifx"],
    level="proof",
    rule=("(1) logger: 24 log configurations (no LogConfig / empty / always / never / every-n incl. n = 0 / Not / scripted triggers incl. Err, with_many, clear, "
          "duplicate entry names, sources missing) x 20 logger placements (before / inside / after a loop, twice in a loop, inside a branch, inside a "
          "scope, nested loops, two loops, no loop at all) x iteration counts 0..5, plus seeded random programs over "
          "Block/Loop/Branch/Scope/Logger/SetX/AddX with random rule sets (2500 quick / 100000 thorough); each is a REAL Configuration built "
          "with the ConfigurationBuilder, configured through State::configure_log, run by optimize_with; the log is exported with "
          "to_json and to_cbor, both files are decoded and compared with the model's log and compress. (2) template-log: all 21 "
          "templates x variants x random every-n rule sets (8 rules, duplicate names, a missing source), witness = snapshot of the "
          "sources before every Logger execution. (3) cfg-template: all 21 templates x 3 variants x 2 bounds through to_ron and "
          "serde_json, clone, component names; cfg-tpair: all pairs of (variant, bound) per template; cfg-pair: random trees of real "
          "components and conditions, copy with exactly one parameter value or one node changed (or none). Non-trivial = a logger case "
          "with at least one rule and a Logger in the tree, or any template/cfg case; distinct = distinct input."),
    nontrivial=lambda inp: (inp.startswith("(lg (rules (") and "(log)" in inp) or inp.startswith(("(tl", "(cfg", "(fl")),
    trusted_base=[
        "serde_json / ciborium / ron back-ends are exercised (files written by the real code are decoded by the harness), not modelled",
        "HashMap iteration order of the per-step export maps is represented by 'any permutation' (export_order_independent)",
        "harness-defined state X, components SetX/AddX, conditions Const/Script and extractor Named use public traits only",
        "the harness's exact JSON reader (numbers through Rust's correctly rounded str::parse::<f64>) and canonical value printer"],
    assumptions=[
        "SplitMix64-seeded generators; type_name strings are stable for the pinned toolchain",
        "identifiers held as plain PhantomData<I> are not parameter values (NormalMutation<A> vs <B> serialise identically by design of the property)"],
    timeout_quick=600,
)
CONFIG.update(
    level_text=("Lean 4 theorems over the model of Logger/LogConfig/Step/Log and CompressedLog: one logger execution appends exactly the "
                "specified step (first fired rule of a name wins, null for a missing source, iteration entry in front unless logged by a "
                "rule or no loop counter exists, nothing if nothing fired; each trigger evaluated exactly once in order; a failing trigger aborts), the log of any "
                "program of blocks/loops/scopes is the concatenation of its logger executions' steps, decompress(compress log) = log for "
                "all logs with distinct names per step (which every produced step has), the name table is duplicate-free, any "
                "permutation of a step's exported entries denotes the same map, the tree serialisation is injective for injective leaf "
                "encodings, names every node, and a structural clone serialises identically. Tied to /repo by running real "
                "configurations and decoding the real JSON/CBOR/RON exports (K: model log equals the real log, and the real compressed exports DECODED through their own name table equal the "
                "model's decoded compress — key numbering and name-table order are representation, not content; name table duplicate-free "
                "and keys in range are checked; "
                "O: decoded exports equal the specified sequence of steps as maps)."),
    level_note=("proof, partial: the theorems are about the model. Configuration-export clauses (every configuration serialises, names "
                "everything, differs when structure/parameters differ, clone equal): TESTED on all templates and generated tree pairs "
                "through to_ron / serde_json / the harness's name-preserving serde traversal (hcommon::sertree); the Lean theorems "
                "ser_injective, ser_names_every_node, clone_serialises_equal are about an ABSTRACT tree serialisation only (its equality "
                "verdict is compared with the three real serialisers on the generated pairs, nothing more). The serde back-ends (serde_json, ciborium, ron), erased_serde's trait "
                "objects and HashMap ordering are exercised on the generated cases, not modelled: that every configuration serialises "
                "(Ok) and that real exports differ for differing configurations is checked per case, not proved. JSON cannot carry "
                "non-finite floats: serde_json writes null (modelled as jsonValue; known finding json_nonfinite_violates, theorem "
                "json_export_partial for logs of JSON-representable values). A Logger outside any loop logs its step "
                "without an iteration entry (fix 5b69ade; logger_step covers states with and without a counter)."),
)
