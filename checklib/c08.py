CONFIG = dict(
    bin="c08",
    drv="drv_c08",
    lean_modules=["MahfModel.Props.C08"],
    namespaces=["MahfModel.Props.C08"],
    shrink_lists=[],
    shrink=False,
    level="proof",
    rule=("MODEL-VS-CODE cases (K, `agree` carries information): children — child seeds = the parent's successive words as predicted by "
          "the model from the observed parent stream, equal seeds give equal first 64 words, a child's stream equals the stream of a "
          "generator constructed directly from that word, parent position afterwards; exp — the generator seed observed inside every "
          "job (problem p, run r) of the real par_experiment (read back from the exported logs) equals the model's jobSeed = r, for "
          "1-3 problems with different domains x run counts 1-6 x pools 1/2/4/8. EXPLORATION cases (O only; `agree` is vacuously true, "
          "the predicate is: all digests of the case are equal and belong to completed runs): run-<template> — all 21 templates x 4 "
          "variants x random instance/iterations/seed (5 repetitions quick, 20 thorough): sequential run, again, cloned configuration, "
          "Parallel evaluator under rayon pools of 1,2,3,4,8,16 threads with an objective that sleeps a pseudo-random 0-200 us per call "
          "(alternating original / cloned configuration), the 4-thread pool again, the unwrapped problem type, every 4th case a fresh "
          "process; gen — generated GA-like configurations; reuse — ONE configuration object run on problem A and then on problem B "
          "(different dimension/domain), a clone made after that use, a parallel run, each against a pristine configuration on B; "
          "user-rng — a user-supplied counting generator must be the generator in the final state, must have been drawn from, and must "
          "reproduce the Random::new(seed) run (sequential and parallel); exp — decoded CBOR log of every (problem, run) file vs. the "
          "single sequential run seeded with r; pairs — 10^4 pairs of different seeds have different first 64 words. Digest = every "
          "population of the final stack (solutions + objective bits), best individual, evaluations, iterations, next generator word, "
          "serialised log. Non-trivial = every case; distinct = distinct input."),
    nontrivial=lambda inp: True,
    trusted_base=[
        "rayon's scheduler, the memory model, cloned trait objects and process boundaries are explored (pool sizes x perturbed timing x clone x reuse x fresh process), not modelled",
        "ChaCha12 (rand_chacha): 'different seeds give different streams' is an ASSUMPTION (injective constructor, hypothesis of children_pairwise_distinct) explored on 10^4 pairs",
        "problem.objective(&self, ..) is a pure function of the solution and the evaluators ignore the State they are handed (read off src/problems/evaluate.rs; not enforced by the types)",
        "FNV-1a 64-bit digests of canonical state strings (a collision could hide a difference)",
        "the wrapper problem J<P> delegates every trait to the wrapped problem and only adds the delay (checked: unwrapped digest equals wrapped digest)"],
    assumptions=["SplitMix64-seeded generators", "thread::sleep granularity suffices to reorder completion",
                 "constructor injectivity (hinj) for the different-seeds clause"],
    timeout_quick=900,
)
CONFIG.update(
    level_text=("Proof of schedule-independence of evaluation and of seed derivation ON THE MODEL: parallel evaluation (one write per index in "
                "an arbitrary completion order) equals sequential evaluation for every schedule that is a permutation of the indices, and "
                "only the order of objective calls differs (evalPar_eq_evalSeq, eval_calls_perm); runs of a step language whose steps draw "
                "from the generator between evaluations, push/merge populations, update best and log end in the same populations x "
                "generator position x evaluations x best x log for all legal schedules (run_schedule_independent); optimize_with runs on "
                "the supplied generator whatever the default is (user_generator_decides_run); child generators are the parent's successive "
                "words through the constructor (children_deterministic; pairwise distinct RELATIVE to an injective constructor); the "
                "experiment's file (p, r) is the single run of p seeded with r for every run count, problem count and job order "
                "(experiment_seed_independent); any order of a step's exported entries denotes the same map. The property itself (real "
                "scheduler, rayon, cloned trait objects, reuse of a configuration object, process boundaries) is DECIDED BY EXPLORATION: "
                "digests of complete final states. No theorem for the cloning clause (the model has no component state to copy)."),
    level_note=("partial: only the `children` and `exp` (seed) cases compare a model prediction with the code; for all digest cases `agree` "
                "is vacuous and the verdict is the exploration predicate 'all digests equal'. The step language is a small model, not the "
                "component interpreter of /repo; it is not executed against the code. rayon's real interleavings, the memory model and "
                "ChaCha's stream quality are outside the model."),
)
