CONFIG = dict(
    bin="c08",
    drv="drv_c08",
    lean_modules=["MahfModel.Props.C08", "MahfModel.Props.C08Measure"],
    namespaces=["MahfModel.Props.C08", "MahfModel.Props.C08Measure"],
    shrink_lists=[],
    shrink=False,
    level="proof",
    rule=("MODEL-VS-CODE cases (K, `agree` carries information): stream — `Random::new(s)` / `Random::with_rng::<B>(s)` for B in "
          "{ChaCha8, ChaCha12, ChaCha20, StdRng, a counting ChaCha12 wrapper, the transparent counter backend Ctr} walked down a path of "
          "descendants (depth 0-4, child number 0-3 per level, alternately `iter_children` and `IntoIterator`; the walk is made twice, once "
          "reaching child i through take(i+1).last() and once through a mix of nth(i), skip(i).next() and repeated next() - both walks must "
          "give the same seeds and outputs: the i-th child is the same generator however the iterator is driven) and then driven by a draw "
          "script over all four RngCore methods (next_u64, next_u32, fill_bytes n, try_fill_bytes n, n = 0..20), compared with the SAME "
          "script on the bare backend seeded through rand's own `seed_from_u64` (for Ctr: computed by the Lean model itself) with the seed "
          "the descendant reports through config() (WITNESS: how a child's seed is derived from the parent's draw is not demanded), every "
          "generator on the way must report the backend B; seeds = 20 boundary seeds (0, 1, 2, u64::MAX, 2^32, 2^32 +- 1, 2^63, 2^63 +- 1, well-known "
          "constants) + random seeds of random bit length; seedmap — the seed that really reaches the backend (first word of "
          "`Random::with_rng::<Ctr>(s)`) equals s, for all 2^k, 2^k +- 1, the boundary seeds and random seeds; children — every child's stream equals the stream "
          "of the bare ChaCha12 backend seeded with the seed the child reports (witness), sibling seeds pairwise different and different "
          "from the parent's seed; exp — the generator seed observed DURING every job (problem p, run r) of the real "
          "par_experiment (a log trigger reads the state's generator each time the Logger runs; read back from the exported logs) equals the "
          "model's run-seeded generator, for 1-3 problems with different domains x run counts 1-6 x pools 1/2/4/8; exp-user — par_experiment "
          "with a `setup` that supplies its own generator (default backend / ChaCha8 / counting wrapper, seed >= 1000): backend and seed "
          "observed during every job equal the model's jobGenerator (= the supplied one); evaluate-direct / evaluate-component — LARGE "
          "prepared populations: `(evaluate entry n threads prep seed lo len)` builds n individuals (n from a table of 40 sizes 255..5000 "
          "around powers of two, primes and round numbers, always 257 and 1000, random sizes 200..6000 (thorough: ..16000) and a tiny one "
          "0..70, per pool size) with solution [i, (seed+7i) mod 101], prepared as unevaluated / stale value / every third stale / already "
          "correct / alternating, and hands the slice [lo, lo+len) (every 4th direct call a proper sub-slice) to `Sequential::evaluate` and "
          "to `Parallel::evaluate` inside a rayon pool of threads in {1,2,3,4,7,8,16} — directly through the `Evaluate` trait on a fresh "
          "State, or through the `PopulationEvaluator` component run by `Configuration::run` on a hand-built state whose stack is [slice, "
          "three unevaluated individuals] (extras: Evaluations counter, stack height, evaluated individuals below the top); the objective "
          "function (sum of squares of small integers, exact) records the order in which individuals enter it (WITNESS schedule) and busy-"
          "waits a pseudo-random moment; K: sequential result = model evalSeq, parallel result = model evalPar ALONG THE WITNESS, both "
          "witnesses legal (sorted = the index range, i.e. every individual is handed to the objective function exactly once), extras = "
          "popEvaluate; measure-<Measure> — `(measure M n d seed)`: the four diversity measures of src/components/diversity.rs (DimensionWise, "
          "PairwiseDistance, True, DistanceToAveragePoint) on n = 2..600 prepared solutions of d = 1..12 coordinates (sevenths: full mantissas, so that "
          "another association of a sum rounds differently), through the public `DiversityMeasure::measure` AND as a component run by "
          "`Configuration::run` on a hand-built state (value read from `Diversity<M>`), each called from the main thread and inside rayon pools "
          "of 1,2,3,4,7,8,16 threads; K: the plain call's value = the model's left folds on Float (relative 1e-9). "
          "PROPERTY PREDICATE (O) of these cases: measure-* — the value (bits) is the same from the main thread and inside every pool, for the "
          "direct call and for the component (class thread-dependent); evaluate-* — EVERY objective value and the extras after the parallel call "
          "equal those after the sequential call (code against code; classes unevaluated / wrong-value / count / panic); stream — the "
          "two independently constructed walks agree (determinism at any depth); seedmap — no two DIFFERENT seeds s != e with identical "
          "streams (class seed-collision, the pair is in the replay); children — deriving twice gives the same children and parent "
          "positions; exp / exp-user — observed generator = model AND file = single run. "
          "EXPLORATION cases (O only; `agree` is vacuously true, the predicate is: all digests of the case are equal and belong to "
          "completed runs): run-<template> — all 21 templates x 4 variants x random instance/iterations/seed, every 5th case a boundary "
          "seed (5 repetitions quick, 20 thorough): sequential run, again, cloned configuration, the public `Configuration::run` on a "
          "hand-built state holding the same generator, Parallel evaluator under rayon pools of 1,2,3,4,7,8,16 threads with an objective "
          "that sleeps a pseudo-random 0-200 us per call (alternating original / cloned configuration), the 4-thread pool again, the "
          "unwrapped problem type, every 4th case a fresh process; big-<template> — real_ga, binary_ga, real_es, real_de, real_pso, real_bh, "
          "real_ls, permutation_ls, real_iwo, ant_system with the population / offspring / neighbourhood / ant count set to 255..1600 (sizes "
          "around powers of two, primes, random; thorough: every 10th case 2049..4200), 1-2 iterations: the same set of runs (sequential, again, clone, hand-built, Parallel under "
          "pools of 1,2,3,4,7,8,16 threads with jitter, 4 threads again); gen — generated GA-like configurations with 2-8 and with 257-1300 "
          "individuals; run-* / big-* / gen additionally run the SEQUENTIAL evaluator inside pools of 2, 3, 8 threads (a component that uses the "
          "ambient pool on its own is independent of the evaluator); mrun — generated configurations in which measured values are published and "
          "steer the search: RandomSpread(8..96) + loop(3..30 passes){ a non-empty subset of the four diversity measures; mapping::Linear or "
          "mapping::Polynomial from NormalizedDiversityLens<M> of one of them onto MutationStrength<NormalMutation> (every 5th case: no feedback); "
          "NormalMutation; Saturation; evaluate; update best; StepsWithoutImprovementUpdate; Logger } with the log holding every measure's "
          "normalised value, StepsWithoutImprovement and the mutation strength in every pass: reference = plain call from the main thread with "
          "the sequential evaluator, again, then the sequential AND the parallel evaluator inside every pool of 1,2,3,4,7,8,16 threads "
          "(alternating original / cloned configuration); digest additionally covers the final Diversity<M> states (normalised and maximal, bits), "
          "StepsWithoutImprovement and MutationStrength; reuse — ONE configuration "
          "object run on problem A and then on problem B (different dimension/domain), a clone made after that use, a parallel run, each "
          "against a pristine configuration on B; user-rng — a user-supplied counting generator must be the generator in the final state, "
          "must have been drawn from, and must reproduce the Random::new(seed) run (sequential and parallel); adv-rng — a user generator "
          "(default backend or ChaCha8) from which k = 0..5 words were already drawn: hand-built state + `run` = optimize_with = cloned "
          "configuration = parallel, and the final state holds that backend and seed; exp / exp-user — decoded CBOR log of every "
          "(problem, run) file vs. the single sequential run with the job's generator; pairs — 10^4 pairs of different seeds have "
          "different first 64 words. Digest = every population of the final stack (solutions + objective bits), best individual, "
          "evaluations, iterations, next generator word, serialised log. Non-trivial = every case; distinct = distinct input."),
    nontrivial=lambda inp: True,
    trusted_base=[
        "rayon's scheduler, the memory model, cloned trait objects and process boundaries are explored (pool sizes x perturbed timing x clone x reuse x fresh process), not modelled",
        "how the number of threads enters the model: ONLY through the split tree, the worker assignment and the interleaving of `par_iter_mut().for_each`, i.e. through a completion order of the slice's indices (Split, evalParW); that rayon's bridge really divides a slice into contiguous blocks without remainder is rayon's contract, observed per evaluate-* case through the witness schedule (legalSched) but not proved about rayon",
        "the witness schedule of the evaluate-* cases is the order in which individuals ENTER the objective function (mutex-protected log inside the harness problem EvalProbe), not the order of the writes to the slots; individuals are identified by the tag in the first solution component",
        "rand_core 0.6.4 / rand_chacha 0.3.1 / rand 0.8.8 `SeedableRng::seed_from_u64` of ChaCha8/12/20 and StdRng is the REFERENCE the stream cases compare `Random` with (the harness links the same crate versions as /repo through Cargo.lock); only the counter backend's stream is computed by the model",
        "ChaCha12 (rand_chacha): 'different seeds give different streams' is an ASSUMPTION about the backend's seeding (hypothesis hinj of different_seeds_different_streams / children_pairwise_distinct; a theorem only for the counter backend) explored on 10^4 pairs",
        "problem.objective(&self, ..) is a pure function of the solution and the evaluators ignore the State they are handed (read off src/problems/evaluate.rs; not enforced by the types)",
        "which components publish a computed value was read off /repo/src/components (diversity.rs: four measures; utils/improvement.rs; no step-size measure exists); a NEW measure component would have to be added to the mrun grammar by hand — the seq-in-pool runs of run-* / big-* / gen cover any component of a shipped template without that",
        "measure-* K: the Lean `Float` operations (+, -, *, /, sqrt, abs) are IEEE-754 binary64 like Rust's; powi(2) is modelled as x*x; compared at relative 1e-9 only",
        "FNV-1a 64-bit digests of canonical state strings (a collision could hide a difference)",
        "the wrapper problem J<P> delegates every trait to the wrapped problem and only adds the delay (checked: unwrapped digest equals wrapped digest)",
        "the generator identity inside par_experiment jobs is observed through a log trigger at the first Logger execution of the run (the templates used have a Logger in their main loop)"],
    assumptions=["SplitMix64-seeded generators", "thread::sleep granularity suffices to reorder completion",
                 "backend seeding injective on 64-bit seeds (hinj) for the different-seeds clause with the ChaCha backends"],
    timeout_quick=900,
)
CONFIG.update(
    level_text=("Proof of schedule-independence of evaluation and of seed derivation ON THE MODEL: parallel evaluation (one write per index in "
                "an arbitrary completion order) equals sequential evaluation for every schedule that is a permutation of the indices, and "
                "only the order of objective calls differs (evalPar_eq_evalSeq, eval_calls_perm); EXACTLY the completion orders that visit every "
                "slot not already holding its objective value reproduce the sequential result — no assumption on the order, the population size "
                "or the pool (evalPar_eq_evalSeq_iff: an evaluator that skips one unevaluated individual differs from Sequential); for ANY two "
                "split trees of the slice (their shape is where the thread count enters; a split tree divides the slice without remainder by "
                "construction), any worker assignment and any interleaving the parallel result is the sequential one, hence the same under both "
                "pools, for every population size (thread_count_independent); blockwise evaluation with par_chunks_mut(size) equals sequential "
                "evaluation for every size > 0 and every population size (blockwise_eq_evalSeq) whereas par_chunks_exact_mut(size) does so IFF "
                "the remainder [len/size*size, len) is already evaluated (blockwise_exact_eq_iff); the PopulationEvaluator component leaves the "
                "same stack and Evaluations counter under any legal schedule and does not touch populations below the top "
                "(population_evaluator_schedule_independent); runs of a step language whose steps draw "
                "from the generator between evaluations, push/merge populations, update best and log end in the same populations x "
                "generator position x evaluations x best x log for all legal schedules (run_schedule_independent), in particular the same under "
                "two pools with different schedules (run_thread_count_independent); optimize_with runs on "
                "the supplied generator whatever the default is (user_generator_decides_run) and so does every par_experiment job whose "
                "`setup` supplies one, otherwise the job draws from Random::new(run) (experiment_user_generator_kept); `Random` is a "
                "transparent wrapper: any script of next_u64/next_u32/fill_bytes/try_fill_bytes on with_rng::<B>(seed) answers like the "
                "backend seeded with exactly `seed`, the seed config() reports (random_is_backend); hence different 64-bit seeds give "
                "different streams GIVEN an injectively seeded backend (different_seeds_different_streams; no assumption for the counter "
                "backend: ctr_different_seeds); the descendant along any path of child numbers, at any depth, for every seed derivation d, is the "
                "pristine generator of the same backend with a seed computed on the backend alone, which is the last seed reported on the "
                "way down (descendant_deterministic); child generators are the parent's "
                "successive words through the constructor, for EVERY seed derivation d (children_deterministic; pairwise distinct RELATIVE to "
                "an injective constructor and an injective d); "
                "the experiment's file (p, r) is the single run of p seeded with r for every run count, problem count and job order "
                "(experiment_seed_independent); any order of a step's exported entries denotes the same map. The generator theorems are "
                "tied to the code by the stream / seedmap / children / exp / exp-user cases (model prediction or rand's own seeding vs. the "
                "real `Random`); the evaluation theorems are tied to the code by the evaluate-* cases (evalSeq / evalPar along the observed "
                "schedule / popEvaluate vs. the real Sequential, Parallel and PopulationEvaluator on populations of up to thousands of "
                "individuals under pools of 1-16 threads; legalSched_sound links the driver's legality check to the theorems' hypothesis). The run-level property itself (real scheduler, rayon, cloned trait objects, reuse of a configuration "
                "object, process boundaries) is DECIDED BY EXPLORATION: digests of complete final states. No theorem for the cloning clause "
                "(the model has no component state to copy)."),
    level_note=("partial: the `stream`, `seedmap`, `children`, `exp`, `exp-user` and `evaluate-*` cases compare a model prediction (or rand's own seeding of "
                "the backend, trusted) with the code; the evaluate-* predicate compares the real parallel with the real sequential evaluator value by value, "
                "so a size- or thread-count-dependent omission is a VIOLATION with the population size and pool size as input; the thread count is not a "
                "parameter of the evaluation model except through the schedule, so the independence of what rayon does with it is explored, not proved; "
                "the measure-* predicate compares the bits of the measured value between the main thread and pools of 1-16 threads, the mrun digests compare complete final states "
                "and logs of configurations in which the measured value steers the mutation strength; rayon's adaptive splitter is not modelled beyond 'some split tree', so that a "
                "given thread-dependent reduction really shows on the generated inputs is empirical (seeded C08-sub5-p2 and three siblings do); "
                "for all digest cases (run-*, big-*, gen, mrun, reuse, user-rng, adv-rng) `agree` is vacuous and the verdict is the exploration predicate "
                "'all digests equal'. The step language is a small model, not the component interpreter of /repo; it is not executed "
                "against the code. rayon's real interleavings, the memory model and ChaCha's stream quality are outside the model. A remap "
                "of the user's seed that is a bijection, or one confined to `Random::new`, or children built with another backend / with colliding seeds, is "
                "reported as a correspondence failure (K) with the concrete seed, not as a property violation; a remap that makes two seeds "
                "collide through `with_rng` is a property violation with the pair."),
)
