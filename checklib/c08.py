CONFIG = dict(
    bin="c08",
    drv="drv_c08",
    lean_modules=["MahfModel.Props.C08"],
    namespaces=["MahfModel.Props.C08"],
    shrink_lists=[],
    shrink=False,
    level="proof",
    rule=("(1) run-<template>: all 21 templates x 3 variants x random instance/iterations/seed (5 repetitions quick, 20 thorough): one "
          "case = sequential run, the same again, a run of the cloned configuration, the Parallel evaluator under rayon pools of "
          "1,2,3,4,8,16 threads with an objective that sleeps a pseudo-random 0-200 us per call (alternating original / cloned "
          "configuration), the 4-thread pool again with other delays, the unwrapped problem type through the shared template table, "
          "and (every 4th case) a fresh process; digest = every population of the final stack (solutions + objective bits), best "
          "individual, evaluations, iterations, serialised log. (2) gen: generated GA-like configurations (selection x recombination x "
          "mutation x replacement). (3) user-rng: a user-supplied counting generator inserted in optimize_with must be the generator "
          "in the final state, must have been drawn from, and must reproduce the Random::new(seed) run. (4) exp: the real "
          "par_experiment in a child process (run counts 1-6, pools 1/2/4/8, Parallel evaluator with delays) vs. single sequential "
          "runs with seed = run number, comparing decoded CBOR logs. (5) children: child seeds = the parent's successive words, "
          "equal seeds give equal first 64 words, parent position afterwards; pairs: 10^4 pairs of different seeds (bit flips, "
          "successors, random) have different first 64 words. Every case is non-trivial; distinct = distinct input."),
    nontrivial=lambda inp: True,
    trusted_base=[
        "rayon's scheduler and the memory model are explored (pool sizes x perturbed timing), not modelled",
        "ChaCha12 (rand_chacha) stream quality: 'different seeds give different streams' is an assumption (injective constructor) explored on 10^4 pairs",
        "FNV-1a 64-bit digests of canonical state strings (a collision could hide a difference)",
        "the wrapper problem J<P> delegates every trait to the wrapped problem and only adds the delay (checked: unwrapped digest equals wrapped digest)"],
    assumptions=["SplitMix64-seeded generators", "thread::sleep granularity suffices to reorder completion"],
    timeout_quick=900,
)
CONFIG.update(
    level_text=("Lean 4 theorems: parallel evaluation modelled as one write per index in an arbitrary completion order equals sequential "
                "evaluation for every schedule that is a permutation of the indices (no draw is taken: the evaluators have no generator "
                "argument), lifted to runs of a step language with drawing steps (run_schedule_independent, same_seed_same_run); "
                "optimize_with keeps a supplied generator and inserts the default iff none is present; child generators are the parent's "
                "successive words through the constructor, equal parents give equal children; any order of a step's exported entries "
                "denotes the same map. Runtime exploration on the real code compares digests of complete runs across evaluators, pool "
                "sizes, perturbed timing, cloning, processes and the batch experiment runner."),
    level_note=("proof, partial: the order-independence theorem is about the model; rayon's real interleavings, the memory model and "
                "ChaCha's stream quality are outside it and only explored. There is nothing for the model to predict about a digest "
                "except that all digests of one case are equal, so `agree` is that trivial prediction (agree = holds); for child "
                "generators the model predicts the child seeds from the observed parent words."),
)
