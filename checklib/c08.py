CONFIG = dict(
    bin="c08",
    drv="drv_c08",
    lean_modules=["MahfModel.Props.C08"],
    namespaces=["MahfModel.Props.C08"],
    shrink_lists=[],
    shrink=False,
    level="proof",
    rule=("MODEL-VS-CODE cases (K, `agree` carries information): stream — `Random::new(s)` / `Random::with_rng::<B>(s)` for B in "
          "{ChaCha8, ChaCha12, ChaCha20, StdRng, a counting ChaCha12 wrapper, the transparent counter backend Ctr} walked down a path of "
          "descendants (depth 0-4, child number 0-3 per level, alternately `iter_children` and `IntoIterator`) and then driven by a draw "
          "script over all four RngCore methods (next_u64, next_u32, fill_bytes n, try_fill_bytes n, n = 0..20), compared with the SAME "
          "script on the bare backend seeded through rand's own `seed_from_u64` (for Ctr: computed by the Lean model itself) with the seed "
          "the descendant reports through config() (WITNESS: how a child's seed is derived from the parent's draw is not demanded), every "
          "generator on the way must report the backend B; seeds = 20 boundary seeds (0, 1, 2, u64::MAX, 2^32, 2^32 +- 1, 2^63, 2^63 +- 1, well-known "
          "constants) + random seeds of random bit length; seedmap — the seed that really reaches the backend (first word of "
          "`Random::with_rng::<Ctr>(s)`) equals s, for all 2^k, 2^k +- 1, the boundary seeds and random seeds; children — every child's stream equals the stream "
          "of the bare ChaCha12 backend seeded with the seed the child reports (witness), sibling seeds pairwise different and different "
          "from the parent's seed; exp — the generator seed observed DURING every job (problem p, run r) of the real "
          "par_experiment (a log trigger reads the state's generator each time the Logger runs; read back from the exported logs) equals the "
          "model's run-seeded generator, for 1-3 problems with different domains x run counts 1-6 x pools 1/2/4/8; exp-user — par_experiment "
          "with a `setup` that supplies its own generator (default backend / ChaCha8 / counting wrapper, seed >= 1000): backend and seed "
          "observed during every job equal the model's jobGenerator (= the supplied one). PROPERTY PREDICATE (O) of these cases: stream — the "
          "two independently constructed walks agree (determinism at any depth); seedmap — no two DIFFERENT seeds s != e with identical "
          "streams (class seed-collision, the pair is in the replay); children — deriving twice gives the same children and parent "
          "positions; exp / exp-user — observed generator = model AND file = single run. "
          "EXPLORATION cases (O only; `agree` is vacuously true, the predicate is: all digests of the case are equal and belong to "
          "completed runs): run-<template> — all 21 templates x 4 variants x random instance/iterations/seed, every 5th case a boundary "
          "seed (5 repetitions quick, 20 thorough): sequential run, again, cloned configuration, the public `Configuration::run` on a "
          "hand-built state holding the same generator, Parallel evaluator under rayon pools of 1,2,3,4,8,16 threads with an objective "
          "that sleeps a pseudo-random 0-200 us per call (alternating original / cloned configuration), the 4-thread pool again, the "
          "unwrapped problem type, every 4th case a fresh process; gen — generated GA-like configurations; reuse — ONE configuration "
          "object run on problem A and then on problem B (different dimension/domain), a clone made after that use, a parallel run, each "
          "against a pristine configuration on B; user-rng — a user-supplied counting generator must be the generator in the final state, "
          "must have been drawn from, and must reproduce the Random::new(seed) run (sequential and parallel); adv-rng — a user generator "
          "(default backend or ChaCha8) from which k = 0..5 words were already drawn: hand-built state + `run` = optimize_with = cloned "
          "configuration = parallel, and the final state holds that backend and seed; exp / exp-user — decoded CBOR log of every "
          "(problem, run) file vs. the single sequential run with the job's generator; pairs — 10^4 pairs of different seeds have "
          "different first 64 words. Digest = every population of the final stack (solutions + objective bits), best individual, "
          "evaluations, iterations, next generator word, serialised log. Non-trivial = every case; distinct = distinct input."),
    nontrivial=lambda inp: True,
    trusted_base=[
        "rayon's scheduler, the memory model, cloned trait objects and process boundaries are explored (pool sizes x perturbed timing x clone x reuse x fresh process), not modelled",
        "rand_core 0.6.4 / rand_chacha 0.3.1 / rand 0.8.8 `SeedableRng::seed_from_u64` of ChaCha8/12/20 and StdRng is the REFERENCE the stream cases compare `Random` with (the harness links the same crate versions as /repo through Cargo.lock); only the counter backend's stream is computed by the model",
        "ChaCha12 (rand_chacha): 'different seeds give different streams' is an ASSUMPTION about the backend's seeding (hypothesis hinj of different_seeds_different_streams / children_pairwise_distinct; a theorem only for the counter backend) explored on 10^4 pairs",
        "problem.objective(&self, ..) is a pure function of the solution and the evaluators ignore the State they are handed (read off src/problems/evaluate.rs; not enforced by the types)",
        "FNV-1a 64-bit digests of canonical state strings (a collision could hide a difference)",
        "the wrapper problem J<P> delegates every trait to the wrapped problem and only adds the delay (checked: unwrapped digest equals wrapped digest)",
        "the generator identity inside par_experiment jobs is observed through a log trigger at the first Logger execution of the run (the templates used have a Logger in their main loop)"],
    assumptions=["SplitMix64-seeded generators", "thread::sleep granularity suffices to reorder completion",
                 "backend seeding injective on 64-bit seeds (hinj) for the different-seeds clause with the ChaCha backends"],
    timeout_quick=900,
)
CONFIG.update(
    level_text=("Proof of schedule-independence of evaluation and of seed derivation ON THE MODEL: parallel evaluation (one write per index in "
                "an arbitrary completion order) equals sequential evaluation for every schedule that is a permutation of the indices, and "
                "only the order of objective calls differs (evalPar_eq_evalSeq, eval_calls_perm); runs of a step language whose steps draw "
                "from the generator between evaluations, push/merge populations, update best and log end in the same populations x "
                "generator position x evaluations x best x log for all legal schedules (run_schedule_independent); optimize_with runs on "
                "the supplied generator whatever the default is (user_generator_decides_run) and so does every par_experiment job whose "
                "`setup` supplies one, otherwise the job draws from Random::new(run) (experiment_user_generator_kept); `Random` is a "
                "transparent wrapper: any script of next_u64/next_u32/fill_bytes/try_fill_bytes on with_rng::<B>(seed) answers like the "
                "backend seeded with exactly `seed`, the seed config() reports (random_is_backend); hence different 64-bit seeds give "
                "different streams GIVEN an injectively seeded backend (different_seeds_different_streams; no assumption for the counter "
                "backend: ctr_different_seeds); the descendant along any path of child numbers, at any depth, for every seed derivation d, is the "
                "pristine generator of the same backend with a seed computed on the backend alone, which is the last seed reported on the "
                "way down (descendant_deterministic); child generators are the parent's "
                "successive words through the constructor, for EVERY seed derivation d (children_deterministic; pairwise distinct RELATIVE to "
                "an injective constructor and an injective d); "
                "the experiment's file (p, r) is the single run of p seeded with r for every run count, problem count and job order "
                "(experiment_seed_independent); any order of a step's exported entries denotes the same map. The generator theorems are "
                "tied to the code by the stream / seedmap / children / exp / exp-user cases (model prediction or rand's own seeding vs. the "
                "real `Random`). The run-level property itself (real scheduler, rayon, cloned trait objects, reuse of a configuration "
                "object, process boundaries) is DECIDED BY EXPLORATION: digests of complete final states. No theorem for the cloning clause "
                "(the model has no component state to copy)."),
    level_note=("partial: the `stream`, `seedmap`, `children`, `exp` and `exp-user` cases compare a model prediction (or rand's own seeding of "
                "the backend, trusted) with the code; for all digest cases `agree` is vacuous and the verdict is the exploration predicate "
                "'all digests equal'. The step language is a small model, not the component interpreter of /repo; it is not executed "
                "against the code. rayon's real interleavings, the memory model and ChaCha's stream quality are outside the model. A remap "
                "of the user's seed that is a bijection, or one confined to `Random::new`, or children built with another backend / with colliding seeds, is "
                "reported as a correspondence failure (K) with the concrete seed, not as a property violation; a remap that makes two seeds "
                "collide through `with_rng` is a property violation with the pair."),
)
