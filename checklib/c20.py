CONFIG = dict(
    bin="c20",
    drv="drv_c20",
    lean_modules=["MahfModel.Props.C20"],
    namespaces=["MahfModel.Props.C20"],
    shrink_lists=["steps"],
    shrink=False,
    level="proof",
    rule=("(1) onwall / decomp / inter / synth: the real update components on prepared states (population of 1-6 "
          "individuals with objective values from 0, halves, negatives, 1e6- and 1e-6-scale, kinetic energies incl. 0 and "
          "1e4, buffer 0 / 1e-3 / up to 110, 0-2 further populations below) with the product objective steered to the "
          "accept, reject, buffer-assisted (decomposition) and random regimes, scripted generator words incl. the "
          "extremes 0 / 2^64-1, loss rates 0..0.999, equal-twin reactants, on-wall products identical to the reactant, "
          "remembered bests better than the current individual; the draws the component received are read "
          "back by replaying the same script (witness) and checked for legality; (2) *-malformed: wrong population sizes, "
          "missing reactant, short stack, short molecule list, same reactant twice, loss rate >= 1; (3) dcrit / scrit: the "
          "two criteria on prepared stacks incl. the [copy, selection, population] shape the CRO template produces; "
          "(4) init: ChemicalReactionInit; (5) run: real_cro template runs (3 parameter points x 4 instances x seeds) "
          "under the step observer: every reaction update (energy before/after within 1e-9 relative, no negative KE/"
          "buffer, molecule count = population size, two populations consumed) and every loop-pass boundary; the state's "
          "generator is swapped for a SplitMix-backed scripted one before the first draw, and EVERY reaction update of the "
          "runs is re-emitted as a prepared case (individuals interned to tags, exact words consumed) that the model "
          "re-derives exactly (run-onwall / run-decomp / run-inter / run-synth). "
          "Non-trivial = a well-formed reaction, criterion or run; distinct = distinct input line."),
    nontrivial=lambda inp: "malformed" not in inp and not inp.startswith("(init"),
    trusted_base=[
        "rand 0.8.8 sampling (gen_range, Uniform) is not modelled: the draws are witnesses read back from a replay of the "
        "same scripted generator; the theorems quantify over all draws in [0,1] (alpha in [lr,1))",
        "the population stack is represented head = top; individuals are (tag, objective) pairs with Individual::eq = "
        "same solution and same objective",
        "RefCell borrows inside the components are not modelled (C02)"],
    assumptions=["theorems are in exact (ordered-field) arithmetic; the implementation is compared with the compiled "
                 "model exactly for transported data (individuals, counters, bests, stack) and up to 1e-9 relative to the total energy for "
                 "kinetic energies and buffer (association order / E*(1-d) vs E-E*d are not part of the property), and against the property with 1e-9 relative tolerance"],
    timeout_quick=600,
)
CONFIG.update(
    level_text=("Lean 4 theorems over an arbitrary ordered field, for every state and every draw: each of the four "
                "reaction updates that returns Ok leaves Sigma objective + Sigma kinetic energy + buffer unchanged (accepted, "
                "rejected and buffer-assisted branches), keeps all kinetic energies and the buffer non-negative (draws in "
                "[0,1], alpha in [lr,1]), keeps population and molecule list index-aligned (the zipped list changes only by "
                "set-at-reactant-index / append-one / erase-second-reactant), consumes exactly the two top populations; "
                "with fewer than three populations it is Err and nothing changes; ChemicalReactionInit creates one molecule "
                "per individual in order; the criteria read the molecule at the first index whose individual equals the "
                "selected one. The model is tied to /repo on prepared states of all branches (K exact) and on every "
                "reaction update of real_cro runs (O)."),
    level_note=("Trusted: Lean kernel; harness + driver; rand's samplers (witnessed, not modelled). Rounding is outside the "
                "theorems (partial: rounding; the property says 'up to rounding', checked with 1e-9 relative tolerance). "
                "Reactants are located by equality: with equal twins the first match is updated (modelled as is). "
                "Observation outside the property statement: in the cro template the criteria are evaluated on the stack "
                "[copy, selection, population], so their peek(1) is the selection and they always read molecule 0 (/1)."),
)
