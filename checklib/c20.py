CONFIG = dict(
    bin="c20",
    drv="drv_c20",
    lean_modules=["MahfModel.Props.C20"],
    namespaces=["MahfModel.Props.C20"],
    shrink_lists=["steps"],
    shrink=False,
    level="proof",
    rule=("(1) onwall / decomp / inter / synth: the real update components on prepared states (population of 1-6 "
          "individuals with objective values from 0, halves, negatives, 1e6- and 1e-6-scale, kinetic energies incl. 0 and "
          "1e4, buffer 0 / 1e-3 / up to 110, 0-2 further populations below) with the product objective steered to the "
          "accept, reject, buffer-assisted (decomposition), random and - for on-wall and decomposition, where the compared "
          "energies are single additions - exact-threshold (product energy == reactant energy) regimes, scripted generator "
          "words incl. the extremes 0 / 2^64-1, loss rates 0..0.999, EQUAL individuals in the population for all four "
          "updates (reactant present twice, three times, first reactant with a twin that is not the second reactant), "
          "on-wall products identical to the reactant, remembered bests better than the current individual. "
          "K is witness-based: the implementation agrees with the model when SOME legal reactant index (any index of an "
          "individual equal to the reactant; two distinct ones for two reactants; the code's first-match choice is tried "
          "first) and SOME legal draws explain its output - first the draws read back by replaying the same script with the "
          "calls the current code makes, then draws read off the output itself (split ratio = new KE / distributed energy, "
          "buffer share = 1 - buffer'/buffer), so neither the choice among equal twins nor order/number of generator "
          "calls is pinned; (2) *-malformed: wrong population sizes, missing reactant, short stack, short molecule list, "
          "same reactant twice, loss rate >= 1; (3) dcrit / scrit: the two criteria on prepared stacks incl. the [copy, "
          "selection, population] shape the CRO template produces; (4) init: ChemicalReactionInit; (5) run: real_cro "
          "template runs (all 4 parameter points incl. the degenerate one - 2 molecules, KE 0, buffer 0, loss rate 0, "
          "thresholds 0 - x 4 instances x seeds) under the step observer: every reaction update (energy before/after "
          "within 1e-9 relative, no negative KE/buffer, molecule count = population size, two populations consumed), every "
          "loop-pass boundary, and the HISTORY: what update k leaves behind (count and total energy) is what update k+1 "
          "starts from, from the molecule initialisation on (class leak); the state's generator is swapped for a "
          "SplitMix-backed scripted one before the first draw, and EVERY reaction update of the runs is re-emitted as a "
          "prepared case (individuals interned to tags, exact words consumed) that the model re-derives "
          "(run-onwall / run-decomp / run-inter / run-synth). "
          "Non-trivial = a well-formed reaction, criterion or run; distinct = distinct input line."),
    nontrivial=lambda inp: "malformed" not in inp and not inp.startswith("(init"),
    trusted_base=[
        "rand 0.8.8 sampling (gen_range, Uniform) is not modelled: the draws are witnesses (replayed from the scripted "
        "generator or read off the output) checked for legality; the theorems quantify over all draws in [0,1] (alpha in [lr,1])",
        "the population stack is represented head = top; individuals are (tag, objective) pairs with Individual::eq = "
        "same solution and same objective",
        "RefCell borrows inside the components are not modelled (C02)",
        "MonoArith (monotone rounding, exact 0 and 1, total order) is what the rounded non-negativity theorems assume of "
        "the carrier; that IEEE-754 doubles satisfy it away from NaN is argued, not proved (Float is opaque in Lean)"],
    assumptions=["conservation / alignment / frame theorems are in exact (ordered-field) arithmetic; the implementation is "
                 "compared with the compiled model exactly for transported data (individuals, counters, bests, stack) and up "
                 "to 1e-9 relative to the total energy for kinetic energies and buffer (association order / E*(1-d) vs E-E*d "
                 "are not part of the property), and against the property with 1e-9 relative tolerance",
                 "which of several equal individuals reacts, and in which order / how often the generator is asked, is a "
                 "legal witness (theorems hold for every legal witness); whether a reactant exists at all (Err / panic) is "
                 "decided as the code does"],
    timeout_quick=600,
)
CONFIG.update(
    level_text=("Lean 4 theorems, for every state, every draw and EVERY legal choice of reactant among equal individuals "
                "(*_any; the code's first-match choice is proved legal on all states): each of the four reaction updates "
                "that returns Ok leaves Sigma objective + Sigma kinetic energy + buffer unchanged (accepted, rejected and "
                "buffer-assisted branches; ordered field), keeps all kinetic energies and the buffer non-negative (draws "
                "in [0,1], alpha in [lr,1]) - also on any carrier with merely monotone rounded arithmetic "
                "(reaction_nonneg_rounded, history_nonneg_rounded: not only 'up to rounding') -, keeps population and "
                "molecule list index-aligned (the zipped list changes only by set-at-reactant-index / append-one / "
                "erase-second-reactant, the index being one of an individual equal to the reactant), consumes exactly the "
                "two top populations; with fewer than three populations it is Err and nothing changes. HISTORIES: for every "
                "sequence of updates as the CRO loop produces them (any reactant/product populations pushed, any legal "
                "witnesses) the total energy is the same at the end as at the start (history_conserves), the stack below "
                "the population and its height are untouched (history_frame), and the run invariant - aligned, no negative "
                "KE/buffer, min_hit <= num_hit, every molecule's remembered best at least as good as its individual - is "
                "established by ChemicalReactionInit and preserved (init_establishes_invariant, history_keeps_invariant); "
                "under it the decomposition criterion's u32 subtraction cannot underflow (decomposition_criterion_total). "
                "The criteria read the molecule at the first index whose individual equals the selected one. The model is "
                "tied to /repo on prepared states of all branches (K, witness-based) and on every reaction update and the "
                "update-to-update chain of real_cro runs (O)."),
    level_note=("Trusted: Lean kernel; harness + driver; rand's samplers (witnessed, not modelled). Rounding is outside the "
                "conservation theorems (partial: rounding; the property says 'up to rounding', checked with 1e-9 relative "
                "tolerance); non-negativity is proved for monotone rounded arithmetic, with IEEE conformance to MonoArith "
                "assumed. Reactants are located by equality: with equal twins any of them may be updated (legal witness). "
                "A run that ends Err/panic is not a C20 violation (C16's job). Non-finite objectives, negative initial "
                "KE/buffer and loss rates outside [0,1) are outside the quantified region (the code does not validate them: "
                "lr < 0 can produce negative kinetic energy, +inf objectives produce NaN). "
                "Observations outside the property statement: in the cro template the criteria are evaluated on the stack "
                "[copy, selection, population], so their peek(1) is the selection and they always read molecule 0 (/1); "
                "SynthesisCriterion looks both selected individuals up with first-match position, so for two equal twins it "
                "reads the first twin's molecule twice although the update components treat them as distinct molecules."),
)
