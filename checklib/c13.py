import re

CONFIG = dict(
    bin="c13",
    drv="drv_c13",
    lean_modules=["MahfModel.Props.C13"],
    namespaces=["MahfModel.Props.C13"],
    shrink_lists=["pop"],
    level="proof",
    rule=("(1) functional helpers, exhaustive small scope: identity list of length n<=6 (thorough 7) x every injective index "
          "tuple of length 2..n for circular_swap and circular_swap2 (same call, both outputs); every (start, end, index) in "
          "0..=n+1 for translocate_slice / translocate_slice2 (n<=6/7: satisfying and just violating the contracts); every pair "
          "of parents over {0,1} of length <=5 (quick: all for n<=3, a fifth above) x every cut set of 0..=n / every mask, plus "
          "tagged parents with every ordered cut tuple, wrong mask lengths, parents of different length; cycle crossover on all "
          "pairs of permutations of 0..n, n<=5, plus non-permutations and seeded permutations of length 6..10; arithmetic "
          "crossover on seeded parents with alphas from a grid incl. 0 and 1. (2) components executed through the real "
          "`Component::execute` on a State: seeded populations of dimension 1..8, rates {0,0.5,1}, probabilities {0,0.3,1}, with "
          "the witness (indices/masks/draws) recovered from unique element tags. Components generic over an identifier are also run as `<A>` instances, alone and next to "
          "the Global instance with a different rate/strength (each must follow its own parameters). Guard corners (negative, "
          "infinite, NaN strength and rate) are generated; inputs outside the documented domain go to the `!malformed` sites and "
          "never count as violations (the model must still agree on them). A case is non-trivial if its input has at least 3 elements in some "
          "list; distinct = distinct canonical input."),
    nontrivial=lambda inp: re.search(r"\((?:[^()\s]+ ){2,}[^()\s]+\)", inp) is not None,
    trusted_base=[
        "Vec/slice primitives (swap, rotate_left/right, drain, splice, truncate, extend, swap_with_slice, position) are represented by their list semantics",
        "itertools circular_tuple_windows / multizip / chunks represented by their list semantics",
        "rand's samplers are not modelled: every random choice is an explicit witness recovered from the output"],
    assumptions=["SplitMix64-seeded generator; mahf's Random seeded ChaCha12 per case",
                 "floats produced by arithmetic compared with relative tolerance 1e-9"],
)
CONFIG.update(
    level_text=("Lean 4 theorems over exact list models of the helpers: both circular swaps return permutations, never panic on "
                "valid input, agree, and realise the closed form i_k -> i_{k+1 mod n}; both translocation helpers agree on every "
                "input (equal results on valid input, both panic otherwise) and return permutations; multi-point and uniform "
                "crossover are position-wise with both genes conserved and lengths kept; cycle crossover on two permutations never "
                "panics, is position-wise and returns permutations (loop invariant over the cycle table); arithmetic crossover is "
                "convex and conserves coordinate sums (ordered field); components as functions of witnesses: rate-gated mutations "
                "keep the dimension and are the identity at rate 0, the five permutation mutations return permutations for every "
                "legal witness, the parameter guards (as functions of the parameter value incl. NaN/inf, shared with the driver) accept "
                "exactly the stated sets, NPointCrossover/UniformCrossover as components are position-wise (NPoint for 1 <= n < dim), the recombination frame's offspring counts, DEMutation's format, DE crossovers position-wise, the "
                "crossover gate u < pc (probability 0 never crosses, probability 1 always does, for every draw; exercised with an all-zero generator)."
                " Tied to /repo by running the real helpers exhaustively in a small "
                "scope and the real components on seeded populations, diffing against the compiled model (K) and evaluating the "
                "property predicate on the implementation's output (O)."),
    level_note=("partial: the clause 'no operator panics on a valid population' is narrowed for NPointCrossover to 1 <= n < dim: "
                "the constructor accepts every n, and n = 0 / n >= dim panics whenever a pair is crossed (known finding "
                "NPointCrossover@n-out-of-range [panic], Lean: npoint_n_out_of_range_violates). Trusted: Lean kernel; slice/iterator primitives represented by list semantics; harness + driver printing. "
                "partial: sampling algorithms of `rand` are outside the model (witness refinement); floating-point rounding in "
                "arithmetic crossover / DE mutation is modelled in exact arithmetic in the theorems and compared with tolerance."),
    timeout_quick=600,
)
