import re

CONFIG = dict(
    bin="c13",
    drv="drv_c13",
    lean_modules=["MahfModel.Props.C13", "MahfModel.Props.C13State"],
    namespaces=["MahfModel.Props.C13"],
    shrink_lists=["pop", "run", "scope", "bscope", "then", "else"],
    level="proof",
    rule=("(1) functional helpers, exhaustive small scope: identity list of length n<=6 (thorough 7) x every injective index "
          "tuple of length 2..n for circular_swap and circular_swap2 (same call, both outputs); every (start, end, index) in "
          "0..=n+1 for translocate_slice / translocate_slice2 (n<=6/7: satisfying and just violating the contracts); every pair "
          "of parents over {0,1} of length <=5 (quick: all for n<=3, a fifth above) x every cut set of 0..=n / every mask, plus "
          "tagged parents with every ordered cut tuple, wrong mask lengths, parents of different length; cycle crossover on all "
          "pairs of permutations of 0..n, n<=5, plus non-permutations and seeded permutations of length 6..10; arithmetic "
          "crossover on seeded parents with alphas from a grid incl. 0 and 1. (2) components executed through the real "
          "`Component::execute` on a State: seeded populations of dimension 1..8, rates {0,0.5,1}, probabilities {0,0.3,1}, with "
          "the witness (indices/masks/draws) recovered from unique element tags. Components generic over an identifier are also run as `<A>` instances, alone and next to "
          "the Global instance with a different rate/strength (each must follow its own parameters). Guard corners (negative, "
          "infinite, NaN strength and rate) are generated; inputs outside the documented domain go to the `!malformed` sites and "
          "never count as violations (the model must still agree on them). (3) extensions: every helper additionally on seeded inputs of "
          "length 8..64 (tuples of every length up to n, slices at the very start/end, empty and whole slices, assertion just violated, "
          "cycle structures with few long / many short cycles); components with dimension 12..40 and populations up to 12, and with "
          "dimension 0 (empty solutions; sites `!malformed`); `(adapt MODE (set S R) case)`: MutationStrength/MutationRate overwritten in "
          "the state (set_value or a fresh insert) between init and execute, incl. 1->0, 0->1, invalid->valid, valid->invalid; `(via CTOR "
          "case)`: the component built through every other public constructor (new_dev, new_bound, new_full, new_uniform, "
          "new_uniform_full, new_with_id, from_params, new_insert_single, new_insert_both), the argument the constructor does not take "
          "carrying a different value; `(mutdefault ..)`: the default driver `mutation()` with a user-side Mutation on stacks of height "
          "1..3, all succeeding or one failing (first / middle / last individual). (4) whole configurations on ONE State, "
          "`(state KIND SEED pop (run ITEM*)+)` with ITEM = `(m ID P1 RM)` (an instance of KIND in {normal, uniform, spread, bitflip, bits, scramble} under "
          "identifier Global / A / B) | `(scope ITEM*)` | `(loop K ITEM*)` | `(if C ITEM*)` | `(ifelse C (then ITEM*) (else ITEM*))` with C = t / f (the real RandomChance condition with "
          "probability 1 / 0) | `bscope` / `bwhile` / `bif` / `bifelse` (the same constructs through the builder's scope_ / while_ / if_ / if_else_ closures): every run is built with the real "
          "`Configuration::builder()` (Scope::new, Loop::new + LessThanN::iterations, Branch::new, Branch::new_with_else, resp. the builder methods) and executed by `Configuration::run` on the SAME State; a snapshot component behind every instance records the population after each "
          "execution. Shapes: the State used again by a later configuration with other values (rate 1->0, 0->1, invalid->valid, up to 4 runs); an instance inside a "
          "Scope (depth 1..3) while the enclosing block holds an instance of the same type and identifier with other values, the enclosing instance executing again "
          "after the scope; scopes inside loops (entered and initialised in every pass); instances with different identifiers side by side, nested and across runs; "
          "branches (sites `..+branch`): the instance in the if arm / the else arm of if_ / if_else_ with the condition true / false, the other arm empty or holding another identifier, on a fresh state, "
          "inside a Scope under an enclosing instance of the same type and identifier with other values (rate 1 outside, 0 in the arm and vice versa), after an earlier run that left other values, inside and around loops, "
          "branches in branches; seeded random configurations (1..3 runs, depth <= 3, scopes / loops / branches built either way, one set of values per level and identifier). Each execution is judged against the parameters of ITS OWN "
          "instance (O) and against what the model's registry stack holds (K). Instances of one type and identifier with different values at ONE level (loops and BOTH arms of a branch belong to the level of the "
          "enclosing block; the later init wins) go to `!malformed`. A case is non-trivial if its input has at least 3 elements in some "
          "list; distinct = distinct canonical input."),
    nontrivial=lambda inp: re.search(r"\((?:[^()\s]+ ){2,}[^()\s]+\)", inp) is not None,
    trusted_base=[
        "Vec/slice primitives (swap, rotate_left/right, drain, splice, truncate, extend, swap_with_slice, position) are represented by their list semantics",
        "itertools circular_tuple_windows / multizip / chunks represented by their list semantics",
        "rand's samplers are not modelled: every random choice is an explicit witness recovered from the output",
        "State registry (insert / set_value / get_value of MutationRate<T>, MutationStrength<T>) represented by a two-field record per component instance in the single-component cases, "
        "and by a stack of association lists keyed by (component type, identifier, rate|strength) in the configuration cases (insert = top-most registry, read = first registry that holds the key, "
        "Scope = push / init body / execute body / pop); Block, Loop (n passes), Branch (init: if body then else body; execute: the arm the condition selects), Scope and Configuration::run represented by their init / execute order; "
        "conditions and Iterations not modelled: a Loop is its pass count, a Branch condition the constant it evaluates to (harness: RandomChance with probability 1 / 0)"],
    assumptions=["SplitMix64-seeded generator; mahf's Random seeded ChaCha12 per case",
                 "floats produced by arithmetic compared with relative tolerance 1e-9"],
)
CONFIG.update(
    level_text=("Lean 4 theorems over exact list models of the helpers: both circular swaps return permutations, never panic on "
                "valid input, agree, and realise the closed form i_k -> i_{k+1 mod n}; both translocation helpers agree on every "
                "input (equal results on valid input, both panic otherwise) and return permutations; multi-point and uniform "
                "crossover are position-wise with both genes conserved and lengths kept; cycle crossover on two permutations never "
                "panics, is position-wise and returns permutations (loop invariant over the cycle table); arithmetic crossover is "
                "convex and conserves coordinate sums (ordered field); components as functions of witnesses: rate-gated mutations "
                "keep the dimension and are the identity at rate 0, the five permutation mutations return permutations for every "
                "legal witness, the parameter guards (as functions of the parameter value incl. NaN/inf, shared with the driver) accept "
                "exactly the stated sets, NPointCrossover/UniformCrossover as components are position-wise (NPoint for 1 <= n < dim), the recombination frame's offspring counts, DEMutation's format, DE crossovers position-wise, the "
                "crossover gate u < pc (probability 0 never crosses, probability 1 always does, for every draw; exercised with an all-zero generator); "
                "`recombination()` as ONE model function (gate, helper, from_pair, frame, panic propagation): a run is the frame over its recombine results, the "
                "offspring count equals 2*#uncrossed + (2 if insert_both else 1)*#crossed + n mod 2 for all parents/draws/witnesses (probability 1: n/2 resp. "
                "2*(n/2) children + remainder; probability 0: size kept; new_insert_single / new_insert_both as constructors), and for Uniform, NPoint (1 <= n < dim), "
                "Cycle and Arithmetic crossover on a WHOLE population: never panics and every new solution is a parent or a well-formed child (position-wise of the "
                "dimension / again a permutation of the base / convex); rate-gated loops keep the number of individuals and every dimension; the parameters are read "
                "from the STATE: init stores the constructor's values, any overwrite replaces them, a rate adapted to 0 makes every legal execution the identity whatever "
                "the constructor's rate, an adapted rate outside [0,1] errs although the constructor's was fine; the 'full' constructors store rate 1 (every coordinate "
                "replaced); `mutation()` puts the mutated population back index by index when every mutate succeeds; "
                "parameter states across the life of a State (Model/VariationState, Props/C13State): `init` of an instance makes its constructor values the ones its execute reads on EVERY "
                "registry stack (init_establishes_own_parameters), leaves instances of another type or identifier and all parent registries alone (init_leaves_other_instances), an initialised instance executes as on a "
                "fresh state whatever the state held (execution_independent_of_prior_state), an instance with rate 0 is the identity on any state (rate_zero_identity_on_any_state), a successful execution keeps "
                "count and dimensions on any state (dimension_kept_on_any_state); for whole configurations — blocks, loops, scopes and branches (if_ / if_else_, either arm, condition true or false) to any depth, any identifiers, several Configuration::run on one state, "
                "any starting state — every execution of every instance reads its own values provided instances of one type and identifier at ONE level were given the same values "
                "(every_execution_reads_own_parameters, rate_zero_instance_reads_zero), a run without a failing guard executes exactly the instances in program order with loops unrolled (run_executes_unrolled_instances), the init of a block with a branch establishes the own parameters of every instance of BOTH arms on any state (branch_init_establishes_both_arms) and a run executes exactly the arm the condition selects, "
                "each execution with its own values (branch_runs_selected_arm_with_own_parameters), and a block with all its scopes leaves the registry stack as it found it (scope_leaves_enclosing_state)."
                " Tied to /repo by running the real helpers exhaustively in a small "
                "scope and the real components on seeded populations, diffing against the compiled model (K) and evaluating the "
                "property predicate on the implementation's output (O)."),
    level_note=("partial: the clause 'no operator panics on a valid population' is narrowed for NPointCrossover to 1 <= n < dim: "
                "the constructor accepts every n, and n = 0 / n >= dim panics whenever a pair is crossed (known finding "
                "NPointCrossover@n-out-of-range [panic], Lean: npoint_n_out_of_range_violates). Trusted: Lean kernel; slice/iterator primitives represented by list semantics; harness + driver printing. "
                "partial: sampling algorithms of `rand` are outside the model (witness refinement); floating-point rounding in "
                "arithmetic crossover / DE mutation is modelled in exact arithmetic in the theorems and compared with tolerance. "
                "Oracle notes: an output individual may keep its objective value only if its solution is bit-identical to an input individual "
                "(un-evaluating everything is accepted as well); at rate 1 with a proper distribution (sigma, bound > 0, non-empty domain) every coordinate must "
                "have changed (an exactly-zero change has probability < 1e-14 per coordinate). "
                "Observed, outside the wording of C13 (modelled, theorem mutation_default_err_drops_population, site mutation-default): `mutation()` returns on the "
                "first Err of a user's `mutate` before pushing the popped population back, so the population is lost and the stack is one lower. "
                "Degenerate inputs modelled and routed to `!malformed`: InsertionMutation panics on an empty solution (gen_range(0..0)), both DE crossovers panic for a "
                "zero-dimensional problem as soon as there is a pair. "
                "Configuration cases: the model covers the parameter registries and the guard outcome of every execution, not the loop / branch conditions (a Loop is its pass count, a Branch condition a constant true / false realised by RandomChance(1 / 0); conditions that change between passes are not generated; nested loops are generated only "
                "with a Scope between them) nor failing `init`s (none of the six components can fail there); two instances of one type and identifier with different values in one block share their states by design "
                "(the later init wins) - modelled, routed to `!malformed`, not judged."),
    timeout_quick=600,
)
