import re

CONFIG = dict(
    bin="c01",
    drv="drv_c01",
    lean_modules=["MahfModel.Props.C01", "MahfModel.Props.C01H"],
    namespaces=["MahfModel.Props.C01"],
    shrink_lists=["ops", "inner"],
    level="proof",
    rule=("histories of StateRegistry/State statements: 32 registry operation kinds, 10 extended kinds (the guard-returning "
          "accessors borrow, try_borrow, borrow_mut, try_borrow_mut, borrow_value, try_borrow_value, borrow_value_mut, "
          "try_borrow_value_mut used as lookups - guard taken, value read / replaced through it, guard dropped - and a write "
          "through the RefMut returned by entry().or_insert / or_default) plus State::with_inner_state(body; ok|err) "
          "and State::holding::<T>(|t, state| { t += d; body; ok|err }) as statements "
          "with nested bodies (insert, remove, take, contains, "
          "contains_at_top, find, find_mut, get_value, try_get_value, set_value, get_mut, every entry combinator, "
          "occupied/vacant entry methods, into_child, into_parent, parent()/parent_mut() access, (try_)get_multiple_mut, "
          "requirements, dump, and set_value / try_get_value issued while a shared / exclusive guard on the same type is "
          "alive): (1) exhaustive - four prefixes building depth 1..3 with shadowing, followed by every "
          "sequence of L statements over 2 types x 2 values (quick: L=2 over the full 100-statement alphabet, which contains "
          "every operation kind, parent access at depth 1 and 2 and with_inner_state bodies of nesting depth <= 3 with ok and "
          "err results, and L=3 over a reduced 37-statement alphabet; thorough: L=2 full, L=3 over the 76-statement base alphabet "
          "and over a 45-statement alphabet (reduced + four extended operations per type), L=4 reduced); (2) seeded random histories of length 40..120 over 4 types, occasionally all 8 "
          "(1000 quick / 50000 thorough) biased to shadow -> remove-underneath -> entry-on-shadowed / accessor-write -> pop, "
          "with with_inner_state nesting up to 4 and multi-borrow tuples of arity 2..8; (3) State::holding - every exhaustive "
          "alphabet contains nested holdings of two different types (outer call holding the innermost scope's state, the "
          "enclosing scope's, both in one scope; bodies that insert / fail), the full alphabet five more (single, failing, "
          "bodies that remove / insert / open with_inner_state scopes / nest a holding inside a scope inside a holding), and "
          "seeded histories (site hold, 1500 quick / 40000 thorough, own random stream): 1..4 types spread with shadowing "
          "over scopes of depth 1..4, then holdings nested up to depth 5 over DIFFERENT types (a type held by an enclosing "
          "holding is never held again: that nesting is C02's recorded finding holding-samekey), issued from the innermost "
          "scope or inside with_inner_state, with bodies of random operations, scopes, ok and err results, then pops. "
          "Every history ends with a dump of every scope. A history is non-trivial if it contains a scope push, an "
          "insert and at least one lookup/removal/entry access; distinct = distinct canonical op list."),
    nontrivial=lambda inp: ("(push)" in inp and "(ins " in inp
                            and re.search(r"\((tryget|get|rem|take|find|set|getmut|ent-|occ-|vac-|parget|multi|gset|gget|inner|hold|bor|trybor|bval|trybval)", inp) is not None),
    trusted_base=[
        "HashMap<TypeId, _> represented by an association list keyed by a type index; TypeId distinctness of the "
        "harness types K0..K7 and better_any downcasts (the unwraps after a key hit) are not modelled",
        "Ref::map / RefMut::map(deref) of the *_value accessors is modelled as the identity on the guard (the harness "
        "types deref to their u64 field)",
        "state values are u64 newtypes modelled as Nat (the generators never overflow)"],
    assumptions=["SplitMix64-seeded generator", "no guard is alive between two operations of a C01 history "
                 "(the harness drops every Ref/RefMut inside the operation; live guards are C02)",
                 "closure bodies of with_inner_state / holding contain no raw into_child / into_parent and no holding of a "
                 "type that an enclosing holding already holds (C02 finding holding-samekey)"],
)
CONFIG.update(
    level_text=("Lean 4 theorems: the code-shaped registry model (chain of association lists with RefCell flags, find + "
                "index arithmetic, entry resolution, multi-borrow) refines the abstract stack of partial maps for each of "
                "the 32 operation kinds (step_refines), for the 10 extended kinds - the eight guard-returning accessors used as "
                "lookups and writes through the RefMut of or_insert / or_default (xstep_refines) - and for with_inner_state "
                "statements with ok/err bodies (stmt_refines, xstmt_refines), hence for "
                "every finite history (history_refines, history_refines_from, history_refines_stmts, history_refines_xstmts = "
                "hold-free part of what the driver replays); guarded_access_refused; State::holding as a statement "
                "(Model/RegistryH: marker entry in the chain, find of the marker afterwards; specification = the value leaves its "
                "scope and is back in THAT scope, counted from the root): holding_puts_back_into_source_scope (any body of "
                "extended operations, scopes and nested holdings of other types, Ok or Err: the type is back in the scope it "
                "was taken from with the body's value, no marker left, chain height kept, every other cell as the body left it), "
                "nested_holdings_restore_both (two nested holdings of different types, states in any two scopes: both back in "
                "their own scopes), holding_leaves_other_types (frame: a statement never moves a type it does not name), "
                "holding_absent, holding_statements_keep_invariant; "
                "stated outright: lookup_innermost + lookup_innermost_rest (find = first holder; every reading / removing / "
                "writing / entry operation kind acts on that cell), guard_accessors_innermost (the eight accessors read / replace "
                "exactly that cell, no other scope or type changes), insert_top_reports_top, remove_innermost_reexposes (only that "
                "scope changes; the type then resolves as the outer scopes say), absent_is_error_not_invented (18 non-inserting "
                "operations leave the registry untouched; the 4 inserting entry combinators write the top scope), "
                "guard_accessors_absent (NotFound / panic, registry untouched), multi_absent_no_partial_write, "
                "pop_yields_inserted (for every block between push and pop: the "
                "pop returns exactly the child's map and the parent chain, unnamed types are untouched, types shadowed throughout "
                "keep their parent values), pop_yields_last_insert (a type whose last mention in the block is insert(v) is in the "
                "popped map with value v), pop_forgets_removed (an entry of the new scope removed by the block is not in the "
                "popped map and the parents' bindings of that type are untouched), nodup_preserved. The model is tied to /repo by running "
                "the real State/StateRegistry on exhaustive short and seeded long histories and diffing every return value and "
                "a final dump against the compiled model (K) and against the abstract stack of maps (O)."),
    level_note=("Trusted: Lean kernel; HashMap/TypeId represented by association lists over type indices; harness + driver "
                "printing. The theorem is about the model; agreement with the code is checked on the generated histories only. "
                "For histories containing State::holding the agreement of the code-shaped model with the stack of maps is "
                "proved cell-wise (theorems above), not as one refinement theorem over the whole history; on the generated "
                "histories it is checked by the driver (model = code = stack of maps). partial: a holding nested in a holding "
                "of the SAME type is excluded (hypothesis HProg.avoids; C02 records it as finding holding-samekey). "
                "Not modelled: TypeId hashing/collisions, better_any downcasts, lifetimes; guards that outlive an operation "
                "(C02); entry objects used for more than one call; operations through parent_mut() other than insert; "
                "with_inner_state bodies that un-balance the scopes themselves are in the model but not generated; "
                "u64 overflow (wrapping_add in the harness closures) - generated values stay small."),
)
