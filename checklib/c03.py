import re

CONFIG = dict(
    bin="c03",
    drv="drv_c03",
    lean_modules=["MahfModel.Props.C03"],
    namespaces=["MahfModel.Props.C03"],
    shrink_lists=["blk", "script", "pre"],
    level="proof",
    rule=("configuration trees over {leaf, block, while, if, if/else, scope, hooked scope} with scripted leaves, conditions "
          "and Scope::new_with hooks: "
          "(1) exhaustive - every tree shape with <= 4 nodes (quick) / <= 5 nodes (thorough; 6-node shapes sampled), "
          "leaf actions and the caller's prepared state drawn per tree, x every combination of the 8 behaviourally "
          "distinct truth sequences of length <= 3 for each condition (sampled above a cap) x the fault-free run and "
          "every single fault point (leaf or condition x phase x occurrence) of its trace; "
          "(1a) every shape with <= 4 (5) nodes that contains a scope, its scopes built with "
          "Scope::new_with and scripted state_init (inserts / sets / removes on the child, also of Iterations) and "
          "states_merge (exports child state under the same or another key, Iterations included) hooks, x scripts x every "
          "single fault point including the two hooks; (2) seeded random trees of "
          "20-70 nodes with nested loop-in-scope-in-branch shapes (half of them with hooked scopes), And/Or/Not conditions "
          "with 0..3 operands, random scripts, fault-free and single faults; (3) a sample of all of these again built through "
          "the other public construction paths (do_many_, do_if_some_, Block::new, From<Vec>, the & | ! operators, "
          "Configuration::from / into_inner) with a dyn-clone of the tree being run (site */alt), and run through "
          "Configuration::optimize_with (site */opt; the final state is compared on Ok only, because Err drops it). "
          "Leaf actions include init-phase writes to and requirements on Iterations; caller states have 1-3 scopes, "
          "with Iterations at the top, in a lower scope only, or absent. A case is non-trivial if the tree has a "
          "control-flow node (while/if/scope) and at least two leaves or a fault; distinct = distinct canonical input."),
    nontrivial=lambda inp: re.search(r"\((while|if|ifelse|scope|scopew) ", inp) is not None
                           and (inp.count("(leaf ") >= 2 or "(fail " in inp),
    trusted_base=[
        "leaves, conditions and the two hook functions of Scope::new_with are the harness's scripted TraceLeaf / ScriptCond / "
        "state_init::<SLOT> / states_merge::<SLOT> (the control-flow components, ConfigurationBuilder, Configuration::run / "
        "optimize_with, And/Or/Not and their operators, State::with_inner_state and StateRegistry are the real code)",
        "HashMap / TypeId keyed registry represented as an association list per scope",
        "eyre error values abstracted to (which leaf or hook, which phase) / missing loop counter; the harness finds the "
        "scripted error anywhere in the error's cause chain, so added context (wrap_err) is not a deviation"],
    assumptions=["SplitMix64-seeded generator", "every generated loop condition is false once its script is exhausted "
                 "(checked on both sides; otherwise the case is reported as illformed and not run)"],
)
CONFIG.update(
    level_text=("Lean 4 theorems (all trees, scripts, pass bounds, caller states) over a method-by-method model of Configuration::run, "
                "Block, Loop, Branch, Scope, And/Or/Not and State::with_inner_state with scripted leaves: the run equals the "
                "corresponding structured program init;require;execute over atomic|seq|while|if|{scoped} (run_is_structured_program); "
                "lifecycle (pre-order inits once, then requires which cannot change state, then execution; failed init/require => "
                "no exec event); block_order in all three phases; first_error_stops (trace is a prefix of the fault-free run's, the "
                "error returned is the last event) and fault_is_returned (the first reached scripted fault of ANY event kind is "
                "exactly the result and cuts the trace there; no fault reached => identical to the fault-free run); loop_passes (iff-characterisation: condition re-initialised once, n passes, n+1 "
                "tests), loop_pass_count (n read off the script), loop_counter (+1 per completed pass; loops in scopes count on their "
                "own counter: scope_keeps_counters, via a verified static analysis); branch_sem; scope_fresh_each_entry; "
                "scope_discipline (depth kept on every outcome incl. errors); caller_state_kept; caller_scopes_kept (scope by scope, "
                "shadowed lower entries included); scope_locals_gone; shadow_restored; "
                "outer_writes_persist (per key, any body: a state the body never inserts is exported as the body last left it), "
                "untouched_state_unchanged, last_write_wins, shadow_holds_once_established, scope_without_locals_is_transparent; "
                "run_loop_counts_from_zero (a run of a loop ends with Iterations = number of completed passes whatever counter the "
                "caller held). Scope::new_with is modelled (Comp.scopeW): hooked_scope_lifecycle (state_init first on the fresh child; "
                "its failure => body not initialised, scope closed, caller untouched; body failure => merge not called; merge called "
                "once after the registry is restored, with the child's own final map; its failure returned), merge_exports (what the "
                "caller finds under every key after the merge), hooked_scope_locals_gone and hooked_shadow_restored (unless exported); "
                "every all-trees theorem above (structured program, lifecycle, first_error_stops, fault_is_returned, scope_discipline, "
                "loop_*) covers trees with hooked scopes, the side-condition theorems cover them when nested merge hooks export nothing. "
                "The model is tied to /repo by building real "
                "component trees with the real builder/constructors, reading the built tree back through the code's own Serialize, "
                "running Configuration::run (or optimize_with) and diffing trace, result, scope depth and registry dump against the compiled model (K) "
                "and against the structured-program semantics (O)."),
    level_note=("Trusted: Lean kernel; harness + driver printing; association-list model of the registry. Leaves and scope hooks are scripted "
                "(TraceLeaf/ScriptCond/hook functions of the harness): the theorems are about the control-flow components, not about what shipped "
                "leaves do; a merge hook is a list of 'copy child state a to caller state b' (arbitrary merge functions are not modelled); "
                "eyre errors are abstracted to (leaf or hook, phase) / missing counter. Panics (as opposed to Err) inside a scope are outside "
                "the property and the model: with_inner_state has no unwind guard, a caught panic leaves the caller's State empty (observation, by reading). "
                "Iterations is a Nat in the model (u32 overflow not modelled). And/Or/Not are modelled as written "
                "(every child evaluated, no short-circuit), so a change of their evaluation strategy shows up here as an order "
                "deviation. Loops are bounded by a pass bound in the model; every theorem holds for every bound. "
                "run_is_structured_program is a change of presentation (the program is compiled from the same tree), not an independent "
                "oracle, so O coincides with K by that theorem. shadow_restored needs 'no set/remove of k in the body' or a shadow "
                "established by init: a set_value executed before the shadowing insert reaches the caller by design. Agreement with the code is checked on the generated "
                "cases only."),
)
