import re

CONFIG = dict(
    bin="c03",
    drv="drv_c03",
    lean_modules=["MahfModel.Props.C03", "MahfModel.Props.C03Real"],
    namespaces=["MahfModel.Props.C03", "MahfModel.Props.C03Real"],
    shrink_lists=["blk", "script", "pre", "logcfg"],
    level="proof",
    rule=("configuration trees over {leaf, block, while, if, if/else, scope, hooked scope} with scripted leaves, conditions "
          "and Scope::new_with hooks: "
          "(1) exhaustive - every tree shape with <= 4 nodes (quick) / <= 5 nodes (thorough; 6-node shapes sampled), "
          "leaf actions and the caller's prepared state drawn per tree, x every combination of the 8 behaviourally "
          "distinct truth sequences of length <= 3 for each condition (sampled above a cap) x the fault-free run and "
          "every single fault point (leaf or condition x phase x occurrence) of its trace; "
          "(1a) every shape with <= 4 (5) nodes that contains a scope, its scopes built with "
          "Scope::new_with and scripted state_init (inserts / sets / removes on the child, also of Iterations) and "
          "states_merge (exports child state under the same or another key, Iterations included) hooks, x scripts x every "
          "single fault point including the two hooks; (2) seeded random trees of "
          "20-70 nodes with nested loop-in-scope-in-branch shapes (half of them with hooked scopes), And/Or/Not conditions "
          "with 0..3 operands, random scripts, fault-free and single faults; (3) a sample of all of these again built through "
          "the other public construction paths (do_many_, do_if_some_, Block::new, From<Vec>, the & | ! operators, "
          "Configuration::from / into_inner) with a dyn-clone of the tree being run (site */alt), and run through "
          "Configuration::optimize_with (site */opt; the final state is compared on Ok only, because Err drops it). "
          "Leaf actions include init-phase writes to and requirements on Iterations; caller states have 1-3 scopes, "
          "with Iterations at the top, in a lower scope only, or absent. "
          "(4) `(rtree ...)` cases - trees whose loop / branch conditions are the SHIPPED conditions and whose leaves hold caller "
          "state: (real-bound) every condition of a list covering LessThanN::iterations(n) and LessThanN::evaluations(n) for "
          "n = 0..3, EveryN::iterations(n) for n = 0..3, RandomChance 0 / 1, empty / unary / binary And / Or, Not, and mixes with "
          "scripted conditions, x 7 loop positions (top level, inside a scope, inside a counting loop sharing the counter, inside "
          "a scope inside a loop, inside a branch, as the root node, with an empty body) resp. 4 branch positions x 4 caller "
          "states (Iterations / Evaluations present at the top, in a lower scope, absent), fault-free and with single faults; "
          "(hold) a HoldLeaf (execute works on K1..K3 inside State::holding, changes the held value, performs further actions, "
          "then fails if scripted) or the real Logger (holds the caller's LogConfig while it initialises / evaluates triggers "
          "that are scripted and may fail, or shipped and may miss their source) inside 0..3 nested scopes with local state, "
          "plain / in a counting loop / in a branch / in a loop in a scope, the held state owned by the caller at its top or a "
          "lower level or shadowed, x every single fault point of the trace (so: the closure failing at every depth, the "
          "trigger failing in init and in evaluate); (real-exh) every tree shape with <= 4 (5) nodes rendered with shipped "
          "conditions, HoldLeafs and Loggers; (real-rand) seeded random trees of 8-50 nodes of the same kind. After the run "
          "EVERY state type at EVERY level of the caller's state is printed (Iterations, K1..K3, Evaluations, presence of the two "
          "Progress states, LogConfig, number of Log steps, Random) and compared. "
          "A case is non-trivial if the tree has a "
          "control-flow node (while/if/scope) and at least two leaves or a fault; distinct = distinct canonical input."),
    nontrivial=lambda inp: re.search(r"\((while|if|ifelse|scope|scopew) ", inp) is not None
                           and (inp.count("(leaf ") + inp.count("(hold ") + inp.count("(logger)") >= 2 or "(fail " in inp),
    trusted_base=[
        "leaves, conditions and the two hook functions of Scope::new_with are the harness's scripted TraceLeaf / ScriptCond / "
        "state_init::<SLOT> / states_merge::<SLOT> (the control-flow components, ConfigurationBuilder, Configuration::run / "
        "optimize_with, And/Or/Not and their operators, State::with_inner_state and StateRegistry are the real code)",
        "in (rtree ...) cases the conditions LessThanN / EveryN / RandomChance / And / Or / Not, State::holding and Logger / "
        "LogConfig are the real code as well; the harness's HoldLeaf is a leaf whose execute runs inside state.holding::<K>",
        "HashMap / TypeId keyed registry represented as an association list per scope; the Marker<T> that State::holding leaves "
        "in the owning registry is represented by the remembered level of that registry (the marker type is private to the "
        "function, so a marker left behind cannot be observed by the harness either)",
        "of the two Progress<L> states only the level they live at is compared, not their value (C10's subject; 0/0 for a bound "
        "of 0 is NaN in the code)",
        "eyre error values abstracted to (which leaf or hook, which phase) / missing loop counter; the harness finds the "
        "scripted error anywhere in the error's cause chain, so added context (wrap_err) is not a deviation"],
    assumptions=["SplitMix64-seeded generator", "every generated loop condition is false once its script is exhausted "
                 "(checked on both sides; otherwise the case is reported as illformed and not run)",
                 "(rtree ...) cases: every loop condition passes a syntactic stop check (a conjunction containing / a disjunction "
                 "of LessThanN::iterations, EveryN 0, RandomChance 0, scripted conditions) and no leaf writes Iterations, so "
                 "every loop stops; a Random and (with a LogConfig) a Log are in the caller's state, so RandomChance and the "
                 "Logger's push do not panic; a pass budget (20000 calls of the crate's --cfg mahf_verif observer hook, which is "
                 "called around every block child and every loop pass; no generated case needs 1000) turns a loop that never stops "
                 "into a `panic` outcome"],
)
CONFIG.update(
    level_text=("Lean 4 theorems (all trees, scripts, pass bounds, caller states) over a method-by-method model of Configuration::run, "
                "Block, Loop, Branch, Scope, And/Or/Not and State::with_inner_state with scripted leaves: the run equals the "
                "corresponding structured program init;require;execute over atomic|seq|while|if|{scoped} (run_is_structured_program); "
                "lifecycle (pre-order inits once, then requires which cannot change state, then execution; failed init/require => "
                "no exec event); block_order in all three phases; first_error_stops (trace is a prefix of the fault-free run's, the "
                "error returned is the last event) and fault_is_returned (the first reached scripted fault of ANY event kind is "
                "exactly the result and cuts the trace there; no fault reached => identical to the fault-free run); loop_passes (iff-characterisation: condition re-initialised once, n passes, n+1 "
                "tests), loop_pass_count (n read off the script), loop_counter (+1 per completed pass; loops in scopes count on their "
                "own counter: scope_keeps_counters, via a verified static analysis); branch_sem; scope_fresh_each_entry; "
                "scope_discipline (depth kept on every outcome incl. errors); caller_state_kept; caller_scopes_kept (scope by scope, "
                "shadowed lower entries included); scope_locals_gone; shadow_restored; "
                "outer_writes_persist (per key, any body: a state the body never inserts is exported as the body last left it), "
                "untouched_state_unchanged, last_write_wins, shadow_holds_once_established, scope_without_locals_is_transparent; "
                "run_loop_counts_from_zero (a run of a loop ends with Iterations = number of completed passes whatever counter the "
                "caller held). Scope::new_with is modelled (Comp.scopeW): hooked_scope_lifecycle (state_init first on the fresh child; "
                "its failure => body not initialised, scope closed, caller untouched; body failure => merge not called; merge called "
                "once after the registry is restored, with the child's own final map; its failure returned), merge_exports (what the "
                "caller finds under every key after the merge), hooked_scope_locals_gone and hooked_shadow_restored (unless exported); "
                "every all-trees theorem above (structured program, lifecycle, first_error_stops, fault_is_returned, scope_discipline, "
                "loop_*) covers trees with hooked scopes, the side-condition theorems cover them when nested merge hooks export nothing. "
                "Props/C03Real (Model/ConfigReal: the same components over the shipped conditions LessThanN / EveryN / RandomChance 0|1 / "
                "And / Or / Not, State::holding, HoldLeaf and Logger): real_run_is_structured_program; lessThanN_evaluate (every bound, "
                "0 included: value < n, forgiving progress write, the missing lens source is the only error); "
                "shipped_condition_never_fails (any composite of shipped conditions with its sources in the state evaluates to the value "
                "it denotes, no event, nothing but Progress written); while_false_at_once_is_skipped (any condition: zero passes, Ok, "
                "the rest of the block runs); zero_bound_loop_is_skipped; counting_loop_passes (n - i passes, n - i + 1 tests, counter "
                "max i n); hold_leaf_restores_owner (closure result returned, depth kept, the held state back in the scope it was taken "
                "from with the closure's value, on Ok and Err) and hold_leaf_missing; real_scope_discipline; caller_scopes_kept_real "
                "(scope by scope nothing is removed that no leaf removes - held states and the LogConfig included - on every outcome). "
                "The model is tied to /repo by building real "
                "component trees with the real builder/constructors, reading the built tree back through the code's own Serialize, "
                "running Configuration::run (or optimize_with) and diffing trace, result, scope depth and registry dump against the compiled model (K) "
                "and against the structured-program semantics (O)."),
    level_note=("Trusted: Lean kernel; harness + driver printing; association-list model of the registry. Leaves and scope hooks are scripted "
                "(TraceLeaf/ScriptCond/hook functions of the harness): the theorems are about the control-flow components, not about what shipped "
                "leaves do; a merge hook is a list of 'copy child state a to caller state b' (arbitrary merge functions are not modelled); "
                "eyre errors are abstracted to (leaf or hook, phase) / missing counter. Panics (as opposed to Err) inside a scope are outside "
                "the property and the model: with_inner_state has no unwind guard, a caught panic leaves the caller's State empty (observation, by reading). "
                "Iterations is a Nat in the model (u32 overflow not modelled). And/Or/Not are modelled as written "
                "(every child evaluated, no short-circuit), so a change of their evaluation strategy shows up here as an order "
                "deviation. Loops are bounded by a pass bound in the model; every theorem holds for every bound. "
                "run_is_structured_program is a change of presentation (the program is compiled from the same tree), not an independent "
                "oracle, so O coincides with K by that theorem. shadow_restored needs 'no set/remove of k in the body' or a shadow "
                "established by init: a set_value executed before the shadowing insert reaches the caller by design. Agreement with the code is checked on the generated "
                "cases only. Model/ConfigReal is a second model of the same control-flow components (not an extension of Model/Config): "
                "lifecycle / first_error_stops / fault_is_returned are proved for Model/Config only; for (rtree ...) cases they are checked "
                "case by case through the structured program (O). State::holding's marker is modelled as the remembered owner level "
                "(so hold_leaf_restores_owner states what the model does; that the code does the same is the tie). RandomChance only with "
                "p in {0, 1} (other p are C10's); PopulationEvaluator's holding closure cannot return Err (Evaluate::evaluate has no "
                "Result) and is not part of these cases; the Logger's entries (what is logged) are C15's, only the number of steps is "
                "compared here. A panic inside a holding closure is outside the property."),
)
