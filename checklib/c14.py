import re

CONFIG = dict(
    bin="c14",
    drv="drv_c14",
    lean_modules=["MahfModel.Props.C14"],
    namespaces=["MahfModel.Props.C14"],
    shrink_lists=["pop", "stack"],
    level="proof",
    rule=("boundary repair: domains [-1,1), [0,10), [-5,-2), [1e-3,1e6); every operator (Saturation, Toroidal, Mirror, "
          "CompleteOneTailedNormalCorrection) through the real Component::execute on a State holding a population stack of a "
          "LimitedVectorProblem in which every other individual carries an objective value (a solution is repaired whether or not it has been "
          "evaluated), applied twice; (1) one coordinate per case for every point of the bound "
          "neighbourhood {a, b, next_up/next_down of each} and of the grid {a - k*d, b + k*d : k in 0.25,0.5,1,1.5,2,7,1e3,1e6} "
          "(the resampling operator with 6 quick / 48 thorough seeds each); (2) seeded populations of 1..3 individuals of "
          "dimension 1..4 whose coordinates are all of one kind (bound / grid / random up to 1e3 widths away / inside); (2b) the same "
          "on problems whose range DIFFERS per dimension ([0,1)x[10,20)x[-5,-4), ..., incl. domains whose first and last range coincide while inner ones differ, and repeated ranges), every coordinate judged against its own range; (3) huge "
          "finite coordinates (+-1e17, +-1e300, +-f64::MAX, 1e22, 2^53+1, ...) and the neighbourhood of Mirror's fold (the thresholds a-d, b+d and "
          "their floating-point neighbours; whole periods 2kd from either bound, k up to 1e6, and their neighbours; remainders near 0, d, 2d), "
          "alone and inside populations over per-dimension different ranges - ordinary cases: every operator must return, in bounds; (3b) dimensions "
          "5..33 and populations of up to 40 individuals with the kinds MIXED per coordinate; (3c) population STACKS of height 1..4 (and the empty stack) "
          "whose lower populations hold out-of-bounds coordinates as well, populations of 0..3 individuals: every population is printed after each "
          "application, only the current one may change; (3d) f64::rem_euclid itself on a special-value grid and random pairs against the model's exact "
          "integer computation. Every case runs in a worker process under a 2 s watchdog; a case "
          "that does not answer is re-run once in a fresh worker before it counts as `timeout`. Initialisers (Empty, RandomSpread over f64 and over usize, "
          "RandomPermutation, RandomBitstring incl. new_uniform) for sizes 0..6, dimensions 0..6, the four domains and per-dimension different ranges, probabilities {0,0.25,0.5,1}, "
          "stack heights 0..2 and 2 quick / 6 thorough seeds, plus sizes 255, 256, 257, 1000, 65537 and dimensions 64, 257, 1000. A case is non-trivial if it is a boundary case with a coordinate "
          "outside or on a bound, a rem_euclid case, or an initialiser case with n >= 1 and dim >= 1; distinct = distinct canonical input."),
    nontrivial=lambda inp: (inp.startswith("(bnd") and "inside" not in inp and "empty-stack" not in inp) or inp.startswith("(rem") or
                           (inp.startswith("(init") and re.match(r"\(init \w+ [1-9]\d* [1-9]", inp) is not None),
    trusted_base=[
        "f64 arithmetic of the model = Lean's native Float (IEEE binary64 +,-,*,/,floor); f64::rem_euclid (fmod) is computed exactly on the decoded "
        "doubles with integer arithmetic (Model/Boundary.lean f64RemEuclid; every folded Mirror case compares it with the real one); "
        "theorems are in exact arithmetic over an ordered field",
        "rand's gen_range / shuffle / Bernoulli / Normal samplers are not modelled: their results are explicit witnesses "
        "(RandomSpread: gen_range's contract a <= x < b is checked on every generated coordinate); the resampling operator's "
        "absolute standard-normal deviates are a witness: first those of a twin generator with the same seed (the model scales them by (b-a)/3 per "
        "coordinate and must reproduce the output), otherwise deviates read off the output (legal iff non-negative and reproducing it in one pass)",
        "watchdog: 2 s wall clock per case in a separate worker process"],
    assumptions=["SplitMix64-seeded generator; mahf's Random seeded ChaCha12 per case",
                 "in-bounds oracle: closed bounds with 4 ulp slack on the bound arithmetic; inside-unchanged is bit-exact; idempotence is bit-exact "
                 "for every coordinate that is exactly inside after the first application (one within the slack must stay within the slack); "
                 "populations below the current one must come back bit-identical",
                 "model-vs-code comparison of repaired coordinates: relative 1e-9, or absolute 1e-9 of the magnitude of the coordinate's bounds"],
    timeout_quick=900,
)
CONFIG.update(
    level_text=("Lean 4 theorems in exact arithmetic over an arbitrary linearly ordered field (FloorRing for Toroidal / the iteration "
                "bound), domain a < b, closed interval: Saturation, Toroidal (the code's formula), Mirror (the code's fold by rem_euclid, then the reflection loop) and the resampling "
                "operator return values in [a,b], fix every coordinate already inside and are idempotent; Mirror terminates for EVERY "
                "coordinate after at most one pass of its loop (mirror_terminates, mirror_returns), computes the triangle wave of period 2(b-a) "
                "(mirror_closed_form), which is exactly what step-by-step reflection returns (mirror_agrees_with_stepwise; that needs "
                "ceil(|x-a|/(b-a)) passes, mirror_stepwise_terminates), and within one width of the domain the fold is not taken at all "
                "(mirror_near_is_stepwise); at the level of whole solutions each operator yields a `Repaired` solution (same dimension, coordinate k within "
                "dom[k], equal to the input where that was inside: *_solution_repaired) and returns an all-inside solution unchanged without touching "
                "the random source (operators_fix_inside_solutions); the driver boundary_constraint is in the model (boundaryConstraint: last population "
                "of the stack, every solution in order, shared random source, panic on the empty stack) with boundary_constraint_frame and, per operator, "
                "saturation_/toroidal_/mirror_/onetailed_population: it returns (Mirror: for every population, fuel 1), the stack below is returned as it was, "
                "every solution of the current population is Repaired, and a second application changes nothing; "
                "the resampling loop exits on any deviate <= b-a; every operator keeps the dimension; initialisers push exactly one "
                "population of n unevaluated individuals of the problem's dimension, in-domain given gen_range's contract, "
                "permutations for every legal shuffle witness. Tied to /repo by running the real components on the grid under a "
                "watchdog and diffing against the compiled Float instance of the same model (K), and evaluating in-bounds / "
                "inside-unchanged / idempotent / terminated on the implementation's output (O)."),
    level_note=("Rounding is outside the exact-arithmetic theorems (on floats rem_euclid may return 2d itself and a reflection may land one ulp "
                "outside, so the real loop may take two passes instead of one; in-bounds is checked with 4 ulp slack); termination on floats is "
                "established case by case under the watchdog, including huge coordinates (the former finding Mirror@huge was repaired in /repo "
                "664f681; its reversal is seeded/C14-mirror-fix-reverted). Trusted: Lean kernel, native Float = f64, harness + driver printing; samplers of "
                "`rand` are witnesses, not modelled."),
)
