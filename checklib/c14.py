import re

CONFIG = dict(
    bin="c14",
    drv="drv_c14",
    lean_modules=["MahfModel.Props.C14"],
    namespaces=["MahfModel.Props.C14"],
    shrink_lists=["pop"],
    level="proof",
    rule=("boundary repair: domains [-1,1), [0,10), [-5,-2), [1e-3,1e6); every operator (Saturation, Toroidal, Mirror, "
          "CompleteOneTailedNormalCorrection) through the real Component::execute on a State holding one population of a "
          "Sphere-like LimitedVectorProblem, applied twice; (1) one coordinate per case for every point of the bound "
          "neighbourhood {a, b, next_up/next_down of each} and of the grid {a - k*d, b + k*d : k in 0.25,0.5,1,1.5,2,7,1e3,1e6} "
          "(the resampling operator with 6 quick / 48 thorough seeds each); (2) seeded populations of 1..3 individuals of "
          "dimension 1..4 whose coordinates are all of one kind (bound / grid / random up to 1e3 widths away / inside); (2b) the same "
          "on problems whose range DIFFERS per dimension ([0,1)x[10,20)x[-5,-4), ...), every coordinate judged against its own range; (3) huge "
          "finite coordinates (+-1e17, +-1e300, +-f64::MAX, 1e22, 2^53+1, ...) and the neighbourhood of Mirror's fold (the thresholds a-d, b+d and "
          "their floating-point neighbours; whole periods 2kd from either bound, k up to 1e6, and their neighbours; remainders near 0, d, 2d), "
          "alone and inside populations over per-dimension different ranges — ordinary cases: every operator must return, in bounds. Every case runs in a worker process under a 2 s watchdog; a case "
          "that does not answer is re-run once in a fresh worker before it counts as `timeout`. Initialisers (Empty, RandomSpread, "
          "RandomPermutation, RandomBitstring) for sizes 0..6, dimensions 0..6, the four domains and per-dimension different ranges, probabilities {0,0.25,0.5,1}, "
          "stack heights 0..2 and 2 quick / 6 thorough seeds. A case is non-trivial if it is a boundary case with a coordinate "
          "outside or on a bound, or an initialiser case with n >= 1 and dim >= 1; distinct = distinct canonical input."),
    nontrivial=lambda inp: (inp.startswith("(bnd") and "inside" not in inp) or
                           (inp.startswith("(init") and re.match(r"\(init \w+ [1-9]\d* [1-9]", inp) is not None),
    trusted_base=[
        "f64 arithmetic of the model = Lean's native Float (IEEE binary64 +,-,*,/,floor); f64::rem_euclid (fmod) is computed exactly on the decoded "
        "doubles with integer arithmetic (Model/Boundary.lean f64RemEuclid; every folded Mirror case compares it with the real one); "
        "theorems are in exact arithmetic over an ordered field",
        "rand's gen_range / shuffle / Bernoulli / Normal samplers are not modelled: their results are explicit witnesses "
        "(RandomSpread: gen_range's contract a <= x < b is checked on every generated coordinate); the resampling operator's "
        "absolute standard-normal deviates come from a twin generator with the same seed (the model scales them by (b-a)/3 per coordinate)",
        "watchdog: 2 s wall clock per case in a separate worker process"],
    assumptions=["SplitMix64-seeded generator; mahf's Random seeded ChaCha12 per case",
                 "in-bounds oracle: closed bounds with 4 ulp slack on the bound arithmetic; inside-unchanged and idempotence are bit-exact"],
    timeout_quick=900,
)
CONFIG.update(
    level_text=("Lean 4 theorems in exact arithmetic over an arbitrary linearly ordered field (FloorRing for Toroidal / the iteration "
                "bound), domain a < b, closed interval: Saturation, Toroidal (the code's formula), Mirror (the code's fold by rem_euclid, then the reflection loop) and the resampling "
                "operator return values in [a,b], fix every coordinate already inside and are idempotent; Mirror terminates for EVERY "
                "coordinate after at most one pass of its loop (mirror_terminates, mirror_returns), computes the triangle wave of period 2(b-a) "
                "(mirror_closed_form), which is exactly what step-by-step reflection returns (mirror_agrees_with_stepwise; that needs "
                "ceil(|x-a|/(b-a)) passes, mirror_stepwise_terminates), and within one width of the domain the fold is not taken at all "
                "(mirror_near_is_stepwise); "
                "the resampling loop exits on any deviate <= b-a; every operator keeps the dimension; initialisers push exactly one "
                "population of n unevaluated individuals of the problem's dimension, in-domain given gen_range's contract, "
                "permutations for every legal shuffle witness. Tied to /repo by running the real components on the grid under a "
                "watchdog and diffing against the compiled Float instance of the same model (K), and evaluating in-bounds / "
                "inside-unchanged / idempotent / terminated on the implementation's output (O)."),
    level_note=("Rounding is outside the exact-arithmetic theorems (on floats rem_euclid may return 2d itself and a reflection may land one ulp "
                "outside, so the real loop may take two passes instead of one; in-bounds is checked with 4 ulp slack); termination on floats is "
                "established case by case under the watchdog, including huge coordinates (the former finding Mirror@huge was repaired in /repo "
                "664f681; its reversal is seeded/C14-mirror-fix-reverted). Trusted: Lean kernel, native Float = f64, harness + driver printing; samplers of "
                "`rand` are witnesses, not modelled."),
)
