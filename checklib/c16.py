import os, subprocess


def pregen(ctx):
    """Regenerates lean/MahfModel/Generated/Templates.lean (kinds only), Generated/TemplatesSized.lean (kinds +
    size parameters) and Generated/TemplatesLoops.lean (loops, scopes, loop conditions) from the trees the real
    constructors build."""
    lean, target = ctx["lean"], ctx["target"]
    ok, out = ctx["build_bin"]("c16")          # other properties (C06, C07) share this regenerated layer
    if not ok:
        raise RuntimeError("harness binary c16 does not build: " + out[-400:])
    with ctx["Lock"](os.path.join(lean, ".lock")):
        rc, out = ctx["sh"](["lake", "build", "drv_c16"], cwd=lean, timeout=3600)
        if rc != 0:
            raise RuntimeError("drv_c16 does not build: " + out[-400:])
        trees = subprocess.run([os.path.join(target, "debug", "c16"), "--trees"], capture_output=True, text=True, timeout=600)
        if trees.returncode != 0:
            raise RuntimeError("c16 --trees failed: " + trees.stderr[-400:])
        gen = subprocess.run([os.path.join(lean, ".lake", "build", "bin", "drv_c16"), "--gen"], input=trees.stdout,
                             capture_output=True, text=True, timeout=600)
        if gen.returncode != 0 or gen.stdout.count("\ndef ") != 84:
            raise RuntimeError("tree translation failed: " + (gen.stderr or gen.stdout)[-400:])
        path = os.path.join(lean, "MahfModel", "Generated", "Templates.lean")
        old = open(path).read() if os.path.exists(path) else ""
        if old != gen.stdout:
            open(path, "w").write(gen.stdout)
        gen = subprocess.run([os.path.join(lean, ".lake", "build", "bin", "drv_c16"), "--gen-sized"], input=trees.stdout,
                             capture_output=True, text=True, timeout=600)
        if gen.returncode != 0 or gen.stdout.count("\ndef ") != 84:
            raise RuntimeError("sized tree translation failed: " + (gen.stderr or gen.stdout)[-400:])
        path = os.path.join(lean, "MahfModel", "Generated", "TemplatesSized.lean")
        old = open(path).read() if os.path.exists(path) else ""
        if old != gen.stdout:
            open(path, "w").write(gen.stdout)
        gen = subprocess.run([os.path.join(lean, ".lake", "build", "bin", "drv_c16"), "--gen-loops"], input=trees.stdout,
                             capture_output=True, text=True, timeout=600)
        if gen.returncode != 0 or gen.stdout.count("\ndef ") != 84:
            raise RuntimeError("loop tree translation failed: " + (gen.stderr or gen.stdout)[-400:])
        path = os.path.join(lean, "MahfModel", "Generated", "TemplatesLoops.lean")
        old = open(path).read() if os.path.exists(path) else ""
        if old != gen.stdout:
            open(path, "w").write(gen.stdout)


CONFIG = dict(
    bin="c16",
    drv="drv_c16",
    lean_modules=["MahfModel.Props.C16", "MahfModel.Props.C16Size", "MahfModel.Props.C16Iter", "MahfModel.Props.C16Param",
                  "MahfModel.Props.C16Guard"],
    namespaces=["MahfModel.Props.C16"],
    pregen=pregen,
    shrink=False,
    level="proof",
    rule=("(1) grid runs: all 21 shipped templates built by the real constructors x 4 valid parameter points x problem "
          "instances (Sphere d=1,2,3,5 incl. an infeasible optimum; OneMax 3..12; TSP 5..8 cities incl. distances spread "
          "over 1e-3..1e6) x iteration bounds {0,1,7} (quick) / {0,1,2,7,25,60} (thorough) x seeds, observed through the step "
          "observer (height, sizes of the top three populations and the visible Iterations value before/after every Block child; "
          "every loop pass with its nesting depth; completed passes per depth counted without cap). "
          "(2) explicit-parameter runs `(prun NAME (ps ...) INSTANCE SEED (term KIND K N))`: the parameter point is part of the input; "
          "22 fixed corner points (the recorded findings' witnesses; one individual, tournament = population, zero offspring, "
          "population = 2y for DE, num_swap = 2 on two cities and = dimension, inner ILS bound 0 and > outer, equal seeds / "
          "deviations, zero ants, two cities) + per template 60 (quick) / 160 (thorough) points drawn inside the documented "
          "domain with a bias to its borders, on 7 instances per kind (adds dimension 1, OneMax 1 and 2 bits, TSP with 2 and 3 "
          "cities and with two cities at the same place), terminated by LessThanN::iterations(k), LessThanN::evaluations(n) "
          "(only where every pass evaluates), iterations(k) & evaluations(n), iterations(k) | evaluations(n) (k >= 1); runs in "
          "a worker under a 60 s watchdog. (3) constructor stream `(ctor NAME (ps ...))`: per template 50 / 200 points inside, "
          "on and beyond the borders of the documented domain (negative, 0, 1, 2, >2, huge, inf, NaN reals; 0..1000 naturals), "
          "constructor outcome only. (4) size probes: every size-relevant component built by its real constructor over a "
          "parameter grid and executed once on 58 prepared stacks (sizes 0..15 incl. odd, empty and unequal operands, empty stack). "
          "Non-trivial: a grid/explicit run that can make at least one pass, every probe, every constructor case; distinct = "
          "distinct input."),
    nontrivial=lambda inp: (inp.startswith("(sizeprobe") or inp.startswith("(ctor")
                            or (inp.startswith("(prun") and "(term iters 0 " not in inp and "(term both 0 " not in inp)
                            or (inp.startswith("(run") and " 0 " not in inp.split("(seq", 1)[0][-14:]
                                and not inp.split("(seq", 1)[0].rstrip().rsplit(" ", 2)[-2] == "0")),
    trusted_base=[
        "leafEffect (declared height change per component) is read from each component's execute; it is validated on every executed step of every run (K) but not proved from the Rust source",
        "opOf (declared effect of each component on population sizes, Model/TemplatesSize.lean) is read from each component's execute; for every executed step the observed size after is checked to lie in the interval sizeStep predicts from the observed sizes of the top three populations before (K), but it is not proved from the Rust source",
        "guardOf (size precondition per component) is read from each component's execute/select/replace; on every size probe where it holds the real component must succeed, i.e. a refusal implies a violated guardOf (K); not proved from the Rust source",
        "the loop-counter model (Loop::init/execute, Scope re-initialisation, LessThanN, And/Or) is read from control_flow.rs / conditions; validated by pass counts per nesting depth, by the final Iterations value and by the check that no executed leaf changes the visible Iterations (K)",
        "tplT (Model/TemplatesParam.lean: each template constructor as a function of its parameters) is hand-written; on every explicit-parameter run its size skeleton, its loop conditions and the verdicts of the analyses are compared with the tree the real constructor built (K)",
        "the name-preserving serde serializer + tree translators (harness/src/sertree.rs, ofSexp / SComp.ofSexp / LComp.ofSexp)",
        "step observer hook H1 (cfg mahf_verif) reports heights faithfully"],
    assumptions=["conditions other than the iteration bound, seeds, branch outcomes, iteration counts and failure points are an arbitrary oracle in the theorems",
                 "valid parameters = the documented domains (docValidT) plus the size-related requirements guardValidT (1 <= tournament size <= population, mu >= 1, population >= max(1, 2y)); real-valued rates in [0,1], deviations > 0, kinetic_energy_lr in [0,1) (gen_range(lr..1.0) panics at lr = 1; the range is undocumented)",
                 "the population-size bound is proved for all parameter values for 19 templates and decided per instantiated point (kernel) / per explored point (driver) for invasive weed and chemical reaction optimisation",
                 "absence of Err/panic is proved only for the modelled size preconditions (not for chemical reaction optimisation); everything else (numeric failure modes, instance-dependent requirements such as num_swap <= dimension) is explored on the runs"],
    level_text=("Lean 4. (a) Stack balance: a stack-effect analysis over the component-tree language proved sound for every execution "
                "of an abstract interpreter (all condition outcomes, iteration counts, failure points); `balanced` holds for every "
                "template at EVERY parameter value (tplT) and is re-checked by the kernel on the 84 trees regenerated from the code's "
                "own Serialize output in this run. (b) Iterations: a model of Loop / Scope / the Iterations counter / LessThanN / "
                "And / Or; the static check `itersExact` (at most one loop per scope level) is proved to imply, for EVERY execution, "
                "that each loop made exactly n passes for iterations(n), at most n for iterations(n) & c, at least n for "
                "iterations(n) | c, and `loop_exactly_n` gives counter = n after exactly n logged passes; counterexample theorems "
                "for unscoped nests and sequential loops; holds for all templates at all parameter values and on the 84 "
                "regenerated trees (kernel). (c) Population sizes: interval analysis with checked loop invariants proved sound; "
                "the prescribed bound holds for ALL parameter values for 19 templates (closed forms), kernel-evaluated on the 84 "
                "regenerated trees (incl. invasive weed and chemical reaction: [1, inf)). (d) No error at a size precondition: "
                "`guards_satisfied` - if the guard analysis answers, no execution ever reaches a component whose size "
                "precondition (tournament <= population, enough individuals, exactly one individual, equal operands, DE format, "
                "two populations ...) is violated; holds for all parameter values meeting guardValidT for 19 templates, "
                "kernel-evaluated on 80 regenerated trees (20 templates). (e) documented parameter points are accepted by the "
                "constructors (`documented_parameters_accepted`). Correspondence: on every run every executed component's observed "
                "height change equals its declared effect and its size lies in the predicted interval; pass counts per nesting "
                "depth equal the interpreter's prediction; the tree built from an explicit parameter point has the size skeleton and "
                "loop conditions of tplT at that point and the analyses answer on it what the all-parameter theorems say; the "
                "constructor's outcome equals the modelled checks; every probe's ok/err equals the modelled precondition. Run-level "
                "oracle: result Ok, exact pass counts (outer and scoped inner loop) resp. termination exactly where an evaluation "
                "budget / composite condition says, per-pass balance, final height 1, size within the bound computed on the "
                "Lean side from the parameters."),
    level_note=("partial: 'no Err/panic for every seed and instance' is proved only for the modelled size preconditions and not for "
                "chemical reaction optimisation; numeric failure modes are explored. Recorded defects (KNOWN-FINDING, with Lean "
                "counterexamples): real_pso / real_iwo return Err in the first pass under any termination condition without an "
                "iteration bound (their schedules read Progress<ValueOf<Iterations>>, which only LessThanN::iterations inserts); "
                "ant_system / max_min_ant_system panic on a TSP instance with two cities at the same place (infinite sampling weight). "
                "Observed, outside the statement: real_fa swallows an invalid delta (Box::from of an Err is an empty Block: the "
                "template is built WITHOUT its alpha update, no error - the shared grid point v2 has delta = 1.0); "
                "LessThanN::iterations(0) inside an OR makes Progress = x/0 (real_iwo then fails with 'invalid mutation strength'); "
                "kinetic_energy_lr = 1.0 panics in real_cro. Trusted: Lean kernel, declared leaf effects / size transformers / "
                "preconditions / loop-counter model / tplT (all K-validated), serializer/translators, hook H1."),
    technique="Lean 4 proofs of sound static analyses (stack effect, loop counters, size intervals, size preconditions) + closed forms for all parameter values + kernel evaluation on trees regenerated from the source on every run + differential run audit with parameters in the input",
)
