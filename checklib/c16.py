import os, subprocess


def pregen(ctx):
    """Regenerates lean/MahfModel/Generated/Templates.lean (kinds only), Generated/TemplatesSized.lean (kinds +
    size parameters) and Generated/TemplatesLoops.lean (loops, scopes, loop conditions) from the trees the real
    constructors build."""
    lean, target = ctx["lean"], ctx["target"]
    ok, out = ctx["build_bin"]("c16")          # other properties (C06, C07) share this regenerated layer
    if not ok:
        raise RuntimeError("harness binary c16 does not build: " + out[-400:])
    with ctx["Lock"](os.path.join(lean, ".lock")):
        rc, out = ctx["sh"](["lake", "build", "drv_c16"], cwd=lean, timeout=3600)
        if rc != 0:
            raise RuntimeError("drv_c16 does not build: " + out[-400:])
        trees = subprocess.run([os.path.join(target, "debug", "c16"), "--trees"], capture_output=True, text=True, timeout=600)
        if trees.returncode != 0:
            raise RuntimeError("c16 --trees failed: " + trees.stderr[-400:])
        gen = subprocess.run([os.path.join(lean, ".lake", "build", "bin", "drv_c16"), "--gen"], input=trees.stdout,
                             capture_output=True, text=True, timeout=600)
        if gen.returncode != 0 or gen.stdout.count("\ndef ") != 84:
            raise RuntimeError("tree translation failed: " + (gen.stderr or gen.stdout)[-400:])
        path = os.path.join(lean, "MahfModel", "Generated", "Templates.lean")
        old = open(path).read() if os.path.exists(path) else ""
        if old != gen.stdout:
            open(path, "w").write(gen.stdout)
        gen = subprocess.run([os.path.join(lean, ".lake", "build", "bin", "drv_c16"), "--gen-sized"], input=trees.stdout,
                             capture_output=True, text=True, timeout=600)
        if gen.returncode != 0 or gen.stdout.count("\ndef ") != 84:
            raise RuntimeError("sized tree translation failed: " + (gen.stderr or gen.stdout)[-400:])
        path = os.path.join(lean, "MahfModel", "Generated", "TemplatesSized.lean")
        old = open(path).read() if os.path.exists(path) else ""
        if old != gen.stdout:
            open(path, "w").write(gen.stdout)
        gen = subprocess.run([os.path.join(lean, ".lake", "build", "bin", "drv_c16"), "--gen-loops"], input=trees.stdout,
                             capture_output=True, text=True, timeout=600)
        if gen.returncode != 0 or gen.stdout.count("\ndef ") != 84:
            raise RuntimeError("loop tree translation failed: " + (gen.stderr or gen.stdout)[-400:])
        path = os.path.join(lean, "MahfModel", "Generated", "TemplatesLoops.lean")
        old = open(path).read() if os.path.exists(path) else ""
        if old != gen.stdout:
            open(path, "w").write(gen.stdout)


CONFIG = dict(
    bin="c16",
    drv="drv_c16",
    lean_modules=["MahfModel.Props.C16", "MahfModel.Props.C16Size", "MahfModel.Props.C16Iter", "MahfModel.Props.C16Param",
                  "MahfModel.Props.C16Guard", "MahfModel.Props.C16Budget"],
    namespaces=["MahfModel.Props.C16"],
    pregen=pregen,
    shrink=False,
    level="proof",
    rule=("(1) grid runs: all 21 shipped templates built by the real constructors x 4 valid parameter points x problem "
          "instances (Sphere d=1,2,3,5 incl. an infeasible optimum; OneMax 3..12; TSP 5..8 cities incl. distances spread "
          "over 1e-3..1e6) x iteration bounds {0,1,7} (quick) / {0,1,2,7,25,60} (thorough) x seeds, observed through the step "
          "observer (height, sizes of the top three populations and the visible Iterations value before/after every Block child; "
          "every loop pass with its nesting depth; completed passes per depth counted without cap). "
          "(2) explicit-parameter runs `(prun NAME (ps ...) INSTANCE SEED (term KIND K N))`: the parameter point is part of the input; "
          "22 fixed corner points (the recorded findings' witnesses; one individual, tournament = population, zero offspring, "
          "population = 2y for DE, num_swap = 2 on two cities and = dimension, inner ILS bound 0 and > outer, equal seeds / "
          "deviations, zero ants, two cities) + per template 60 (quick) / 160 (thorough) points drawn inside the documented "
          "domain with a bias to its borders, on 7 instances per kind (adds dimension 1, OneMax 1 and 2 bits, TSP with 2 and 3 "
          "cities and with two cities at the same place), terminated by LessThanN::iterations(k), LessThanN::evaluations(n) "
          "(only where every pass evaluates), iterations(k) & evaluations(n), iterations(k) | evaluations(n) (k >= 1); for the two "
          "ILS templates the condition of the scoped local search is part of the input as well, `(inner KIND K N)`, and is "
          "drawn from the same four kinds (3 of 5 points; budgets 1..31 evaluations, bounds 0..5; an evaluation budget alone "
          "or in an OR only with >= 1 neighbour per pass; default: iterations(last parameter)); a quarter of all points "
          "carry `(runs R)`, R in {2, 3}: Configuration::run is then called R times on ONE state prepared as optimize_with "
          "prepares it (the caller puts an empty population stack in place before every later run; everything else, counters "
          "included, is what the previous run left); 12 further fixed points (inner evaluation budgets 6 / 2 and 10 / 4 - "
          "3 passes in every local search -, inner AND / OR, outer and inner budget together, reruns of evaluation- and "
          "iteration-bounded templates incl. ILS). Observed per run: every completed execution of a Loop component "
          "(loop passes around it, passes it made; first 400 + total), passes per nesting depth, final Iterations / "
          "Evaluations; runs in a worker under a 60 s watchdog. (3) constructor stream `(ctor NAME (ps ...))`: per template 50 / 200 points inside, "
          "on and beyond the borders of the documented domain (negative, 0, 1, 2, >2, huge, inf, NaN reals; 0..1000 naturals), "
          "constructor outcome only. (4) size probes: every size-relevant component built by its real constructor over a "
          "parameter grid and executed once on 58 prepared stacks (sizes 0..15 incl. odd, empty and unequal operands, empty stack). "
          "Non-trivial: a grid/explicit run that can make at least one pass, every probe, every constructor case; distinct = "
          "distinct input."),
    nontrivial=lambda inp: (inp.startswith("(sizeprobe") or inp.startswith("(ctor")
                            or (inp.startswith("(prun") and "(term iters 0 " not in inp and "(term both 0 " not in inp)
                            or (inp.startswith("(run") and " 0 " not in inp.split("(seq", 1)[0][-14:]
                                and not inp.split("(seq", 1)[0].rstrip().rsplit(" ", 2)[-2] == "0")),
    trusted_base=[
        "leafEffect (declared height change per component) is read from each component's execute; it is validated on every executed step of every run (K) but not proved from the Rust source",
        "opOf (declared effect of each component on population sizes, Model/TemplatesSize.lean) is read from each component's execute; for every executed step the observed size after is checked to lie in the interval sizeStep predicts from the observed sizes of the top three populations before (K), but it is not proved from the Rust source",
        "guardOf (size precondition per component) is read from each component's execute/select/replace; on every size probe where it holds the real component must succeed, i.e. a refusal implies a violated guardOf (K); not proved from the Rust source",
        "the loop-counter model (Loop::init/execute, Scope re-initialisation, LessThanN, And/Or) is read from control_flow.rs / conditions; validated by pass counts per nesting depth, by the final Iterations value and by the check that no executed leaf changes the visible Iterations (K)",
        "the two-counter model (Model/TemplatesBudget.lean: Iterations and Evaluations per registry, insert on init, innermost registry on every access, Scope = child registry initialised on every execution, Configuration::run = init + execute on the given state, LessThanN over both lenses, And/Or, the evaluator adds the size of the current population) is read from control_flow.rs / evaluation.rs / conditions / state/registry; validated on every explicit-parameter run: the sequence of loop executions with their pass counts, the passes per depth and the final Iterations (O) and final Evaluations (K) of every run equal the prediction",
        "the evaluation amount at every evaluator is taken from the size analysis (toB: the interval sizeStep gives for the current population; only an exact size yields a prediction - not for invasive weed, firefly, chemical reaction, for which the observational check remains); tied to the code by the size K-checks and by the final Evaluations value",
        "tplT (Model/TemplatesParam.lean: each template constructor as a function of its parameters) is hand-written; on every explicit-parameter run its size skeleton, its loop conditions and the verdicts of the analyses are compared with the tree the real constructor built (K)",
        "the name-preserving serde serializer + tree translators (harness/src/sertree.rs, ofSexp / SComp.ofSexp / LComp.ofSexp)",
        "step observer hook H1 (cfg mahf_verif) reports heights faithfully"],
    assumptions=["seeds, branch outcomes, failure points and conditions other than LessThanN::iterations / LessThanN::evaluations and their & / | combinations are an arbitrary oracle in the theorems (the pass-count theorems of Props/C16Budget need conditions built from the two bounds and no branch that evaluates)",
                 "a run on a state that has been used before: the caller has replaced the population stack by an empty one; the evaluation counter a scoped heuristic's budget refers to is its own (the one its evaluator creates in the scope), the one of the outer loop is the caller's, which does not see the scoped evaluations (how the code behaves; whether the outer counter should include them is C06's finding - demanded here only as agreement with the current behaviour)",
                 "valid parameters = the documented domains (docValidT) plus the size-related requirements guardValidT (1 <= tournament size <= population, mu >= 1, population >= max(1, 2y)); real-valued rates in [0,1], deviations > 0, kinetic_energy_lr in [0,1) (gen_range(lr..1.0) panics at lr = 1; the range is undocumented)",
                 "the population-size bound is proved for all parameter values for 19 templates and decided per instantiated point (kernel) / per explored point (driver) for invasive weed and chemical reaction optimisation",
                 "absence of Err/panic is proved only for the modelled size preconditions (not for chemical reaction optimisation); everything else (numeric failure modes, instance-dependent requirements such as num_swap <= dimension) is explored on the runs"],
    level_text=("Lean 4. (a) Stack balance: a stack-effect analysis over the component-tree language proved sound for every execution "
                "of an abstract interpreter (all condition outcomes, iteration counts, failure points); `balanced` holds for every "
                "template at EVERY parameter value (tplT) and is re-checked by the kernel on the 84 trees regenerated from the code's "
                "own Serialize output in this run. (b) Iterations: a model of Loop / Scope / the Iterations counter / LessThanN / "
                "And / Or; the static check `itersExact` (at most one loop per scope level) is proved to imply, for EVERY execution, "
                "that each loop made exactly n passes for iterations(n), at most n for iterations(n) & c, at least n for "
                "iterations(n) | c, and `loop_exactly_n` gives counter = n after exactly n logged passes; counterexample theorems "
                "for unscoped nests and sequential loops; holds for all templates at all parameter values and on the 84 "
                "regenerated trees (kernel). (b2) Evaluation budgets, nesting, reruns (Props/C16Budget): a model of BOTH counters in "
                "the chain of registries; `predict` computes the pass count of every loop execution statically and "
                "`pass_counts_sound` proves that EVERY terminating run (all oracles, any fuel, inside any enclosing registries) "
                "made exactly the predicted loop executions in order with exactly the predicted passes; closed forms "
                "(`budget_iterations` n - i, `budget_evaluations` ceil((k - v)/e), `budget_and` min, `budget_or` max, "
                "`first_stop_characterised`); `scoped_search_independent_of_caller` (a scoped heuristic makes the same passes "
                "on every entry and leaves the caller's counters alone; counterexample `shared_counter_violates` for a scope "
                "that counts on its caller's Evaluations); `rerun_counts_as_first_run`; for ALL parameter values: "
                "`ils_counts_all_parameters` / `ils_evaluation_budget` (real_ils, permutation_ils: p0 outer passes, each with a "
                "local search of exactly m passes - ceil(budget / n_neighbors) under an evaluation budget) and "
                "`template_budget_all_parameters` / `template_evaluation_budget` (16 single-loop templates: exactly "
                "firstStop c e 0 v0 passes with (e, v0) = budgetOf). (c) Population sizes: interval analysis with checked loop invariants proved sound; "
                "the prescribed bound holds for ALL parameter values for 19 templates (closed forms), kernel-evaluated on the 84 "
                "regenerated trees (incl. invasive weed and chemical reaction: [1, inf)). (d) No error at a size precondition: "
                "`guards_satisfied` - if the guard analysis answers, no execution ever reaches a component whose size "
                "precondition (tournament <= population, enough individuals, exactly one individual, equal operands, DE format, "
                "two populations ...) is violated; holds for all parameter values meeting guardValidT for 19 templates, "
                "kernel-evaluated on 80 regenerated trees (20 templates). (e) documented parameter points are accepted by the "
                "constructors (`documented_parameters_accepted`). Correspondence: on every run every executed component's observed "
                "height change equals its declared effect and its size lies in the predicted interval; pass counts per nesting "
                "depth equal the interpreter's prediction; the tree built from an explicit parameter point has the size skeleton and "
                "loop conditions of tplT at that point and the analyses answer on it what the all-parameter theorems say; the "
                "constructor's outcome equals the modelled checks; every probe's ok/err equals the modelled precondition. Run-level "
                "oracle: result Ok; the loop executions of the run, each with its pass count, are exactly those the PARAMETERS "
                "prescribe (computed on the Lean side by `predict` from tplT at the parameter point, the termination condition "
                "and, for ILS, the local-search condition of the input: outer loop and every single scoped local search, under "
                "iteration bounds, evaluation budgets, AND, OR) - for the first run and for every later run on the same state "
                "(class iters / iters-rerun); in addition termination exactly where the observed counters say; per-pass balance, "
                "final height 1 after every run, size within the bound computed on the Lean side from the parameters."),
    level_note=("partial: 'no Err/panic for every seed and instance' is proved only for the modelled size preconditions and not for "
                "chemical reaction optimisation; numeric failure modes are explored. Recorded defects (KNOWN-FINDING, with Lean "
                "counterexamples): real_pso / real_iwo return Err in the first pass under any termination condition without an "
                "iteration bound (their schedules read Progress<ValueOf<Iterations>>, which only LessThanN::iterations inserts); "
                "ant_system / max_min_ant_system panic on a TSP instance with two cities at the same place (infinite sampling weight). "
                "Observed, outside the statement: real_fa swallows an invalid delta (Box::from of an Err is an empty Block: the "
                "template is built WITHOUT its alpha update, no error - the shared grid point v2 has delta = 1.0); "
                "LessThanN::iterations(0) inside an OR makes Progress = x/0 (real_iwo then fails with 'invalid mutation strength'); "
                "kinetic_energy_lr = 1.0 panics in real_cro. Trusted: Lean kernel, declared leaf effects / size transformers / "
                "preconditions / loop-counter model / two-counter model with its evaluation amounts / tplT (all K-validated), "
                "serializer/translators, hook H1. The pass-count prediction answers only where the evaluation amounts are exact "
                "(18 of 21 templates); for invasive weed, firefly and chemical reaction optimisation the pass counts under "
                "evaluation budgets and on reruns are judged on the observed counters only."),
    technique="Lean 4 proofs of sound static analyses (stack effect, loop counters, size intervals, size preconditions) + closed forms for all parameter values + kernel evaluation on trees regenerated from the source on every run + differential run audit with parameters in the input",
)
