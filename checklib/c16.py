import os, subprocess


def pregen(ctx):
    """Regenerates lean/MahfModel/Generated/Templates.lean (kinds only) and Generated/TemplatesSized.lean (kinds +
    size parameters) from the trees the real constructors build."""
    lean, target = ctx["lean"], ctx["target"]
    ok, out = ctx["build_bin"]("c16")          # other properties (C06, C07) share this regenerated layer
    if not ok:
        raise RuntimeError("harness binary c16 does not build: " + out[-400:])
    with ctx["Lock"](os.path.join(lean, ".lock")):
        rc, out = ctx["sh"](["lake", "build", "drv_c16"], cwd=lean, timeout=3600)
        if rc != 0:
            raise RuntimeError("drv_c16 does not build: " + out[-400:])
        trees = subprocess.run([os.path.join(target, "debug", "c16"), "--trees"], capture_output=True, text=True, timeout=600)
        if trees.returncode != 0:
            raise RuntimeError("c16 --trees failed: " + trees.stderr[-400:])
        gen = subprocess.run([os.path.join(lean, ".lake", "build", "bin", "drv_c16"), "--gen"], input=trees.stdout,
                             capture_output=True, text=True, timeout=600)
        if gen.returncode != 0 or gen.stdout.count("\ndef ") != 84:
            raise RuntimeError("tree translation failed: " + (gen.stderr or gen.stdout)[-400:])
        path = os.path.join(lean, "MahfModel", "Generated", "Templates.lean")
        old = open(path).read() if os.path.exists(path) else ""
        if old != gen.stdout:
            open(path, "w").write(gen.stdout)
        gen = subprocess.run([os.path.join(lean, ".lake", "build", "bin", "drv_c16"), "--gen-sized"], input=trees.stdout,
                             capture_output=True, text=True, timeout=600)
        if gen.returncode != 0 or gen.stdout.count("\ndef ") != 84:
            raise RuntimeError("sized tree translation failed: " + (gen.stderr or gen.stdout)[-400:])
        path = os.path.join(lean, "MahfModel", "Generated", "TemplatesSized.lean")
        old = open(path).read() if os.path.exists(path) else ""
        if old != gen.stdout:
            open(path, "w").write(gen.stdout)


CONFIG = dict(
    bin="c16",
    drv="drv_c16",
    lean_modules=["MahfModel.Props.C16", "MahfModel.Props.C16Size"],
    namespaces=["MahfModel.Props.C16"],
    pregen=pregen,
    shrink=False,
    level="proof",
    rule=("runs of all 21 shipped templates built by the real constructors x 3 valid parameter points x problem "
          "instances (Sphere d=1,2,3,5 incl. an infeasible optimum; OneMax 3..12; TSP 5..8 cities incl. distances spread "
          "over 1e-3..1e6) x iteration bounds {0,1,7} (quick) / {0,1,2,7,25} (thorough) x seeds; each run is observed "
          "through the step observer (height and size before/after every Block child and every loop pass). A run is "
          "non-trivial if it makes at least one loop pass; distinct = distinct (template, variant, instance, iterations, seed). "
          "Size probes (K only): every size-relevant component (all selections incl. DE/IWO, replacements, crossovers with "
          "insert_both true/false x pc {0,.5,1}, DE mutation/crossovers, SA acceptance, duplicate/clear/interleave) built by its real "
          "constructor over a parameter grid and executed once on 58 prepared stacks (sizes 0..15 incl. odd, empty and unequal "
          "operands, empty stack): the sizes afterwards must lie in the interval the model's transformer predicts."),
    nontrivial=lambda inp: inp.startswith("(sizeprobe") or (" 0 " not in inp.split("(seq", 1)[0][-14:] and not inp.split("(seq", 1)[0].rstrip().rsplit(" ", 2)[-2] == "0"),
    trusted_base=[
        "leafEffect (declared height change per component) is read from each component's execute; it is validated on every executed step of every run (K) but not proved from the Rust source",
        "opOf (declared effect of each component on population sizes, Model/TemplatesSize.lean) is read from each component's execute; for every executed step the observed size after is checked to lie in the interval sizeStep predicts from the observed sizes of the top three populations before (K), but it is not proved from the Rust source",
        "the name-preserving serde serializer + tree translator (harness/src/sertree.rs, Model/Templates.lean ofSexp)",
        "step observer hook H1 (cfg mahf_verif) reports heights faithfully"],
    assumptions=["conditions, seeds, iteration counts and failure points are an arbitrary oracle in the theorem",
                 "the population-size bound is decided statically by a verified interval analysis for 19 of 21 templates (the analysis cannot bound the two ILS templates, which leak a population per pass) and additionally checked on the explored runs for all",
                 "absence of Err/panic is checked on the explored runs only (partial)"],
    level_text=("Lean 4: a stack-effect analysis over the component-tree language (Block/Loop/Branch/Scope/leaf) proved sound for "
                "every execution of an abstract interpreter (all condition outcomes, iteration counts, failure points); on every run "
                "the trees of all 21 templates x 4 parameter points are re-extracted from the code's own Serialize output and the "
                "kernel re-checks `balanced tree = true` by `decide` (84 regenerated obligations; the two ILS templates are proved "
                "unbalanced, a recorded defect). Population sizes: an interval analysis over the trees WITH their size parameters "
                "(stack of size intervals, checked inductive invariant per loop, hull at branches) proved sound for every execution of a "
                "concrete size interpreter; the kernel re-checks `sizeWithin tree lo hi` for the prescribed bound on the 84 regenerated trees "
                "(true for 19 templates; chemical reaction optimisation: >= 1, unbounded above; false = not established for the two ILS templates). "
                "Correspondence: every executed component's observed height change equals its declared "
                "effect and its observed size lies in the interval its size transformer predicts; run-level oracle: result Ok, exact iteration "
                "count, per-pass balance, final height 1, size within prescription."),
    level_note=("partial: 'no Err/panic for every seed and instance' is explored on the generated runs, not proved (numeric failure modes, "
                "duplicate individuals in CRO); the population-size bound is proved over the model for the parameter points instantiated in "
                "this run (not for all parameters), and only explored for the two ILS templates. Trusted: Lean kernel, declared leaf effects "
                "and size transformers (K-validated), serializer/translator, hook H1."),
    technique="Lean 4 proof of a sound static analysis + kernel evaluation on trees regenerated from the source on every run + differential run audit",
)
