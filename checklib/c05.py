import re

CONFIG = dict(
    bin="c05",
    drv="drv_c05",
    lean_modules=["MahfModel.Props.C05"],
    namespaces=["MahfModel.Props.C05"],
    shrink_lists=["ops"],
    level="proof",
    timeout_quick=600,
    rule=("(a) seeded random histories (3..25 ops quick, 3..40 thorough) over the complete public API of Individual and the "
          "collection helpers of population.rs on REAL individuals of Sphere / OneMax / TSP instances (pool of 6 distinct "
          "solutions; objective table recomputed with raw_f); 3 of 4 histories use the raw writers only with f(sol), 1 of 4 also "
          "with foreign values (taint-tracked); the histories include clone_from on single individuals, Vec::clone_from and "
          "clone_from_slice with all four evaluated/unevaluated target/source combinations; (c) component level: every "
          "solution-modifying component that can run on a prepared state (Saturation, Toroidal, Mirror, "
          "CompleteOneTailedNormalCorrection, Normal/Uniform/PartialRandomSpread/BitFlip/PartialRandomBitstring/Swap/Scramble/"
          "Inversion/Insertion/Translocation mutations, ParticleVelocitiesUpdate with prepared velocities (tiny < EPSILON, zero, "
          "ordinary, mixed; positions near 0 / ordinary / outside), BlackHoleParticlesUpdate, EventHorizon, DEMutation, DE "
          "crossovers, Arithmetic/Uniform/NPoint/Cycle crossover) executed on populations of EVALUATED individuals, dims 1..4, "
          "every inside/outside mask of the coordinates, the masked individual first/middle/last: afterwards every still-evaluated "
          "individual must carry raw_f(solution) bit-exactly (O) and the evaluated flags must match the component's kind (K); "
          "(b) run level: all 21 templates x 3 parameter points x 4 instances x seeds x "
          "{seq,par}: after EVERY step every individual reachable from the state (all populations, best-so-far, elitist "
          "archive, PSO personal/global bests, CRO molecule bests) is re-evaluated with raw_f and compared bit-exactly; each "
          "leaf component's effect on the evaluated flags is compared with its model kind. Non-trivial: a history with a "
          "solution_mut / as_solutions_mut and an evaluation, or a template run; distinct = distinct canonical input."),
    nontrivial=lambda inp: inp.startswith("(run") or inp.startswith("(comp") or (("solmut" in inp) and ("(eval" in inp or "(new " in inp)),
    trusted_base=[
        "solutions are abstract ids in the model; the harness maps real encodings to pool ids by equality",
        "raw_f (harness-side recomputation of the objective) is the reference for 'belongs to its solution'",
        "step observer hook (cfg mahf_verif); only state types that are public are audited (Populations, BestIndividual, "
        "ElitistArchive, pso::BestParticles/BestParticle, cro::ChemicalReaction)"],
    assumptions=["SplitMix64-seeded generators", "custom user components are outside the quantifier; a component's kind table entry is hand-written (its agreement with the code is K)"],
    level_text=("Lean 4 theorems: Valid f i := cached objective (if any) = f sol; solution_mut_unevaluates, clone_from_is_assignment, "
                "as_solutions_mut_unevaluates_all, individual_api_preserves_valid, raw_writers_valid_iff, "
                "only_solution_mut_changes_sol, api_preserves_valid / api_outputs_valid / inplace_ops_keep_solutions for every API "
                "operation, api_run_preserves_valid for every history (induction), step_preserves_valid for every modelled "
                "component step (initialisers, copies, as_solutions_mut users, recombination, self-evaluating move, evaluator, best "
                "update, archive update/re-insertion, replacement) and run_preserves_valid for every sequence. Tied to /repo by "
                "running the real API on real individuals (K) and by the per-step audit of all template runs (O)."),
    level_note=("Trusted: Lean kernel; harness + driver printing; raw_f as reference. The theorem is about the model; the per-step audit "
                "covers the shipped templates on the shared instances only. Components are modelled by their effect on solutions and "
                "evaluated flags (kind table), not by their numeric behaviour."),
)
