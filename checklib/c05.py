import re

CONFIG = dict(
    bin="c05",
    drv="drv_c05",
    lean_modules=["MahfModel.Props.C05", "MahfModel.Props.C05Mem", "MahfModel.Props.C05Rerun"],
    namespaces=["MahfModel.Props.C05"],
    shrink_lists=["ops"],
    level="proof",
    timeout_quick=600,
    rule=("(a) seeded random histories (3..25 ops quick, 3..40 thorough) over the complete public API of Individual and the "
          "collection helpers of population.rs on REAL individuals of Sphere / OneMax / TSP instances (pool of 6 distinct "
          "solutions; objective table recomputed with raw_f); 3 of 4 histories use the raw writers only with f(sol), 1 of 4 also "
          "with foreign values (taint-tracked); the histories include clone_from on single individuals, Vec::clone_from and "
          "clone_from_slice with all four evaluated/unevaluated target/source combinations; best_individual is compared "
          "tie-agnostically (any member with a minimal value is a legal answer). "
          "(c) component level: the real component is initialised and executed on a prepared state; the harness sends a snapshot "
          "of EVERYTHING the state holds before and after (all populations, best-so-far, elitist archive, PSO personal/global "
          "bests, CRO molecule bests; solutions interned per case, objective table recomputed with raw_f) and the Lean driver "
          "decides O = every cached value equals f(solution) on the after-state and K = the component's model: exact models "
          "(memStep) for PopulationEvaluator, BestIndividualUpdate, ElitistArchiveUpdate / IntoPopulation, DuplicatePopulation, "
          "PersonalBestParticlesInit / Update, GlobalBestParticleUpdate, ChemicalReactionInit and the four CRO reactions "
          "(nondeterministic over the Boolean energy witness; memories compared by objective value, so which of several equally "
          "good individuals is kept does not matter), the kind relation leafCheck for all others (boundary repairs, all mutations, "
          "ParticleVelocitiesUpdate with prepared velocities tiny < EPSILON / zero / ordinary / mixed, BlackHoleParticlesUpdate, "
          "EventHorizon, DE mutation y = 1 and y = 2 with equal difference pairs, DE crossovers, Arithmetic / Uniform / NPoint / "
          "Cycle crossover with insert_both and insert_single, pc 0 / 0.5 / 1, seven selections, six replacements, "
          "FireflyPositionsUpdate): a member of a mutated population must be unevaluated or the very same individual as before "
          "(a correct fast path that leaves an untouched individual evaluated is legal), nothing but an evaluating component may "
          "create a (solution, objective) pair. Inputs: dims 1..4, every inside/outside mask of the coordinates with the masked "
          "individual first/middle/last, population sizes 0 / 1 / 2 / 3 / 5 / 6 (sizes 1 and 2 repeated 8 / 4 times), populations "
          "with unevaluated members, with mirror images (equal objective, different solution), with duplicates, one to three "
          "populations on the stack, memories seeded from a different population, CRO reactions with missing / surplus / foreign "
          "reactants and products. "
          "(b) run level: all 21 templates x 4 parameter points x 4 instances x seeds x {seq,par} for 6 (10) iterations plus "
          "one run of 40 (four of 120) iterations per template and parameter point: after EVERY step every individual reachable "
          "from the state is re-evaluated with raw_f and compared bit-exactly (O); for up to 40 distinct leaf transitions per run "
          "the before/after snapshots go to the driver (K as above, O again in Lean). "
          "(d) a State that is used again (public Configuration::run): every template x 4 parameter points x instance(s) is run on "
          "its instance and then, ON THE SAME State, on one or two further instances of the same problem type (same search space "
          "with another objective function: sphere shift +2 / -0.75, TSP with other distances / renamed cities; another dimension, "
          "domain or number of cities as well; back to the first instance; the same instance again); between two runs the harness "
          "does only the caller's part (new empty population stack, new Random, the observer of the run), everything else in the "
          "state is left to the components' init; every run is audited after EVERY step (from the first step on, i.e. right after "
          "the init phase) against the objective function of ITS instance, leaf transitions go to the driver as in (b); the class "
          "of a violation names the memory (stale-best, stale-archive, stale-pso-personal, stale-pso-global, stale-cro-molecule, "
          "stale-stack). Component level: for the evaluator, BestIndividualUpdate, ElitistArchiveUpdate / IntoPopulation, the PSO "
          "personal / global best components, ChemicalReactionInit and the four CRO reactions a first phase (init, execute) on one "
          "instance fills the memory, then the population stack is replaced, init runs again and the component is executed for "
          "ANOTHER instance (real: other shift, second population smaller / larger / sharing a solution; permutations: other "
          "distances): O = everything the state holds right after the re-initialisation AND after the execution carries the value "
          "of the NEW objective function; K = the init model (memRun over the components' init ops) on the real snapshot. "
          "Non-trivial: a history with a solution_mut / "
          "as_solutions_mut and an evaluation, a component case, or a template run; distinct = distinct canonical input."),
    nontrivial=lambda inp: inp.startswith("(run") or inp.startswith("(rerun") or inp.startswith("(comp") or (("solmut" in inp) and ("(eval" in inp or "(new " in inp)),
    trusted_base=[
        "solutions are abstract ids in the model; the harness interns real encodings by == (the equality Individual::eq, contains and "
        "position use) - per pool for API histories, per case for snapshots",
        "raw_f (harness-side recomputation of the objective) is the reference for 'belongs to its solution'; the comparison itself "
        "(allValidB) is done by the Lean driver on the snapshot, and by the harness on every step of every run",
        "step observer hook (cfg mahf_verif); only state types that are public are snapshotted (Populations, BestIndividual, "
        "ElitistArchive, pso::BestParticles/BestParticle with the Global identifier, cro::ChemicalReaction)"],
    assumptions=["SplitMix64-seeded generators",
                 "custom user components are outside the quantifier; which model (exact memStep op or kind) belongs to a component name "
                 "is a hand-written table in Model/PopMachineC05.lean (its agreement with the code is K); an unknown name gets kind "
                 "'any' = only 'no new (solution, objective) pair'",
                 "the energy arithmetic of the CRO reactions is a Boolean witness here (modelled in C20)",
                 "a State that is used again: the CALLER supplies the population stack ('the caller is responsible for initializing "
                 "state properly'); populations left on the stack by an earlier run are the caller's, not the configuration's; a memory "
                 "that no component of the configuration owns is outside the statement (OwnedOrValid)",
                 "OneMax has no parameter that changes its objective function: for binary_ga the second instance only differs in "
                 "its dimension and a retained value cannot be told from a fresh one (the memory components are the same ones as "
                 "in the other GA / ES templates)"],
    level_text=("Lean 4 theorems: Valid f i := cached objective (if any) = f sol. Individual level: solution_mut_unevaluates, "
                "clone_from_is_assignment, as_solutions_mut_unevaluates_all, individual_api_preserves_valid, raw_writers_valid_iff, "
                "only_solution_mut_changes_sol, api_preserves_valid / api_outputs_valid / inplace_ops_keep_solutions for every API "
                "operation, api_run_preserves_valid for every history (induction). Component level: step_preserves_valid / "
                "run_preserves_valid (initialisers, copies, as_solutions_mut users, recombination, self-evaluating move, evaluator, "
                "best update, archive update / re-insertion, replacement), partial_mutation_spec (solution_mut on any subset: touched "
                "members unevaluated, the others identical), recombination_exec_unevaluated (the shared executor incl. unchanged "
                "parents and the odd remainder), de_mutation_unevaluated, selection_replacement_exact, memories_fed_by_copies, "
                "memstep_preserves_valid / memrun_preserves_valid over the machine WITH swarm and molecule memories (PSO personal / "
                "global best components, ChemicalReactionInit, the four CRO reactions for every outcome of their energy balance, "
                "also for runs that stop with an Err). Tie: all_valid_b_iff (the driver's O predicate is AllValidX), "
                "no_new_values_sound and leaf_check_sound (the driver's K relation on a real transition implies validity of the real "
                "after-state), uneval_top_shape. A State that is used again for another objective function g (init steps of "
                "BestIndividualUpdate, ElitistArchiveUpdate, PersonalBestParticlesInit, GlobalBestParticleUpdate, ChemicalReactionInit, "
                "PopulationEvaluator modelled as they are written; callerReset, configRun, reruns): reinit_valid_partial (the inits never "
                "fail and leave every individual valid for g whatever the owned memories held before), rerun_valid_partial (ANY used "
                "state, any sequence of steps after the inits, also stopped by an Err), reruns_valid_partial (any number of consecutive "
                "runs with different objective functions), memstep_preserves_valid extended to the init steps. Excluded region, proved "
                "real on the unchanged code by rerun_gbest_violates: the PSO global best (GlobalBestParticleUpdate::init is "
                "entry().or_insert and keeps it; known finding). Tied to /repo by running the real API on real individuals, real components on "
                "prepared states and the per-step audit of all template runs."),
    level_note=("Trusted: Lean kernel; harness + driver printing; raw_f as reference; interning of solutions by ==. The theorems are "
                "about the model; exact agreement model = code is checked (K) for the API and for the memory / evaluator / archive / CRO "
                "components, the other components are checked against a relation (kind), not an exact model, and not for their numeric "
                "behaviour. The per-step audit covers the shipped templates on the shared instances only; the elitist archive occurs "
                "in no shipped template and is tied at component level only (also for the re-initialisation). Consecutive runs: two "
                "or three runs per case, the shipped templates on the shared instances; what the caller leaves on the population stack "
                "is the caller's responsibility and is replaced by the harness; the Evaluations counter (reset by "
                "PopulationEvaluator::init, modelled as initEvals) is not observed here (C06). partial: the PSO global best survives "
                "re-initialisation in the unchanged code (known finding real_pso::rerun / GlobalBestParticleUpdate::reinit "
                "[stale-pso-global]); a change of that init shows as a model disagreement. Nested scopes: the audit sees the innermost "
                "BestIndividual while inside a scope."),
)
