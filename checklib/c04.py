import re

CONFIG = dict(
    bin="c04",
    drv="drv_c04",
    lean_modules=["MahfModel.Props.C04", "MahfModel.Props.C04Scope", "MahfModel.Props.C04Comp"],
    namespaces=["MahfModel.Props.C04", "MahfModel.Props.C04Scope", "MahfModel.Props.C04Comp"],
    shrink_lists=["ops", "cl", "sc", "cf", "if", "mf", "hold", "hold-err"],
    level="proof",
    rule=("programs of Populations operations on a real State (plain histories, and programs with scopes and failing steps). Individuals carry a unique tag and an optional objective value "
          "(evaluated with objective = tag / evaluated with a small objective shared by several individuals / not evaluated); "
          "tag and objective are printed on every read. Sites: (exh) a prefix building height 0..3 followed by every sequence of "
          "L ops (L=2 quick, 3 thorough) over a 40-op alphabet incl. arguments 2^64-1, tied and unevaluated individuals, in-place "
          "edits, reset; (rotn, c-rotn) for every height h<=6 and every n<=h+1, n successive rotate(n) / RotatePopulations(n); "
          "(bound) every depth-taking operation with arguments h-1, h, h+1, 2^32, 2^63, 2^64-2, 2^64-1 at heights 0..4; "
          "(edit) every in-place edit (assign, push, extend, truncate, swap_remove, remove, insert, swap, reverse, clear, retain) with "
          "every index 0..len+1 and 2^64-1 through current_mut and get_current_mut at heights 0..2; (rand) seeded random histories of "
          "length 10..60 (quick) / 10..200 (thorough) in three flavours of individuals; (scoped) random histories with every "
          "operation executed inside 0..4 nested with_inner_state scopes; (scope-err) a failing step inside 1..3 nested scopes "
          "(kinds per level: with_inner_state closure chaining its steps with `?`, Scope::new executed as a component, "
          "ConfigurationBuilder::scope_ + Configuration::run, mixed), 0..2 populations below, 0..3 steps before the failing one, "
          "nine failing steps (a step returning Err, a step that pushes / pops / rotates / edits and then returns Err, "
          "RotatePopulations above the height incl. 2^64-1, Scope::new_with with a failing state_init or states_merge), skipped "
          "steps behind it at every level, optionally an enclosing scope body that looks at the result and carries on reading, "
          "then seven operations of the caller on the same State; (scope-rand) random programs of 4..20 (quick) / 4..40 "
          "(thorough) top-level elements, about a third of them scope trees up to depth 3 whose bodies mix operations, "
          "RotatePopulations above the height, (fail), (failing OP), (try ITEM) and nested scopes of all five kinds; the top "
          "level carries on after every result and the final stack is read through the accessors; random histories and "
          "programs also contain PopulationEvaluator (identifier Global / A), the shipped pop-process-push components "
          "(c-comp: selections All / None / CloneSingle / FullyRandom / RandomWithoutRepetition / Tournament / LinearRank / "
          "RouletteWheel, replacements Merge / DiscardOffspring / MuPlusLambda / Generational / RandomReplacement / "
          "KeepBetterAtIndex, the real mutation and recombination drivers with a harness operator incl. a failing one, "
          "ElitistArchiveUpdate / ElitistArchiveIntoPopulation; parameters 0..3) and State::holding::<Populations> with 0..4 "
          "operations on the held stack and a closure returning Ok or Err; (hold) holding at scope depth 0..3 (kinds of scope "
          "per level), 0..2 populations below, five edit sequences on the held stack, Ok / Err, reads inside every scope on "
          "the way out and seven operations of the caller afterwards; (comp) each of 28 components on a current population of "
          "0, 1, 2, 5 individuals (one flavour with an unevaluated individual), a second population of 0 / 2 and 0..1 more "
          "below, at scope depth 0..2, followed by len, try_peek 0..2, RotatePopulations, an evaluation and reads; "
          "(scope-eval) evaluations inside 1..3 scopes of every kind followed by an evaluation, ClearPopulation, an "
          "evaluation of the EMPTY population and RotatePopulations(2) outside, once or twice; (split) populations of 0..9 or 21..48 individuals with few "
          "distinct objective values, split / interleave / split again; (deep) 15..40 populations of up to 12 individuals, rotations "
          "and peeks around the height. A history is non-trivial if it has at least 3 operations and contains a rotation, peek, "
          "interleave, split, in-place edit or failing step; distinct = distinct canonical op list."),
    nontrivial=lambda inp: inp.count("(") >= 4 and re.search(r"rot|peek|ileave|split|edit|fail|hold|c-eval|c-comp", inp) is not None,
    trusted_base=[
        "Vec/slice primitives (push, pop, last, get, rotate_right, truncate, swap_remove, remove, insert, swap, reverse, clear, "
        "retain, extend) are represented by their list semantics; usize arguments by naturals (the generator goes up to 2^64-1)",
        "individuals are a tag plus an optional natural objective value; RefCell borrows of Populations inside State are not "
        "modelled here (C02); the registry chain is modelled only as far as Populations is concerned (each registry holds one or "
        "not; find walks to the root; with_inner_state = take, child, body, restore, then the result); the legacy `(in k op)` "
        "is modelled as `op`",
        "harness step components (NodeComp) standing for the steps of a scope body: they perform the operation through the "
        "public API / the real utility component, record its output by program position and return Err where the program "
        "says so; Block, Scope, ConfigurationBuilder, Configuration::run and State::with_inner_state are the real ones",
        "the non-stack state the shipped components need (Random seeded 0, Evaluations, sequential evaluators with "
        "identifiers Global and A on TagProblem (objective = tag), ElitistArchive) is inserted into the root registry; the "
        "table of documented stack effects (needs / takes / puts per component family) in Model/PopStack.frameEffect? and the "
        "harness' puts_of; the harness operators TagMutation / TagRecombination behind the real drivers",
        "witnesses read off the real run: what a pop-process-push component put back (any populations, exactly `puts` of them) "
        "or the height after its Err / panic (accepted iff between height-takes and height); the two halves produced by SplitPopulationByObjectiveValue (accepted iff a sorted "
        "permutation with the prescribed sizes, otherwise the model answers with the stable sort) and the stack height after a "
        "panic inside a component (accepted iff untouched or code-shaped partial state)"],
    assumptions=["panics never cross a scope boundary in the generated programs (every operation is caught where it is "
                 "executed); what a State is worth after a panic unwound through with_inner_state is not part of the property",
                 "SplitMix64-seeded generator; itertools::interleave modelled as alternate-until-both-exhausted; "
                 "sort_unstable_by_key modelled as 'any ascending order' (legal-witness nondeterminism)"],
)
CONFIG.update(
    level_text=("Lean 4 theorems: the Vec-with-index-arithmetic model of Populations refines a plain stack for every finite "
                "history and every witness (history_refines), try_peek = spec[d]?, the non-panicking accessors (try_peek, try_pop, "
                "get_current, get_current_mut) answer None exactly when the stack is empty / too shallow and never panic, the panicking "
                "ones panic exactly then (panics_iff), and a None or panic leaves the stack as it was (failed_access_leaves_stack); "
                "rotate(n) shifts exactly the top n, and n rotations — through the API or through RotatePopulations — are the identity "
                "for every n <= height with no panic / Err on the way; over every history of pushes, pops, reads and rotations the "
                "populations on the stack plus those handed out are exactly those initially there plus those pushed "
                "(stack_conservation); any in-place edit, also a panicking one, changes nothing below the top "
                "(edit_touches_top_only); RotatePopulations errs (never panics) on insufficient height; "
                "SplitPopulationByObjectiveValue, whatever order the unstable sort leaves ties in, keeps the individuals, cuts "
                "ceil(n/2)/floor(n/2), orders the halves by objective (split_spec), panics exactly on < 2 individuals or an "
                "unevaluated one (split_panics_iff). Across failing steps (Props/C04Scope): on every registry chain in which "
                "Populations is found, every program of operations, failing steps, callers that carry on and scopes of every kind "
                "nested to any depth leaves the chain as it was with only the stack replaced, and stack, outputs and results are "
                "those of the same program on a plain stack with transparent scopes (scoped_program_refines); whatever a scope's "
                "body does and however it ends (Ok, Err at any depth, failing state_init / states_merge) the caller gets its "
                "registry chain back, with_inner_state does not panic, and every later operation answers as the plain stack "
                "(state_survives_failing_scope); scopes and failing steps only decide which operations run: every program "
                "amounts to a plain history that is a subsequence of its operations (failing_steps_only_cut_the_history); the "
                "first failing step ends the body with its own effect on the stack kept (abort_at_first_error); "
                "scope_hook_failures; plain histories are the special case (top_level_history_is_run); State::holding::<Populations> "
                "from any scope depth, closure returning Ok or Err, puts the edited stack back into the registry that owned it, "
                "leaves every registry in place and answers as the plain stack (holding_returns_the_stack_to_its_owner, "
                "holding_inside_a_scope_keeps_the_callers_stack). Shipped components (Props/C04Comp): PopulationEvaluator keeps "
                "height, every lower population and tags/order of the top for EVERY current population incl. the empty one "
                "(evaluator_keeps_the_stack, evaluator_keeps_individuals); for every component with stack effect needs/takes/puts, "
                "every stack and every witness: the populations below the top `takes` are untouched, success means height "
                "len-takes+puts with exactly the populations put back on top, a failure leaves a prefix no shorter than the "
                "untouched part, too low a stack can only panic (component_frame), and try_peek(puts+d) afterwards = "
                "try_peek(takes+d) before for every d (component_frame_reads). The model is tied to /repo by running the real Populations/State/components on "
                "exhaustive short and seeded long histories and diffing against the compiled model (K) and the abstract stack (O)."),
    level_note=("Trusted: Lean kernel; Vec/slice primitives represented by list semantics; harness + driver printing. "
                "Individuals are tag + optional objective. Nondeterminism over legal witnesses: order of equal objective values in a "
                "split; stack state after a panic inside InterleavePopulations/SplitPopulationByObjectiveValue (untouched or already "
                "popped — neither property nor docs promise either). partial: RefCell borrows are outside this model; of the "
                "registry only the part that concerns Populations is modelled (no shadowing Populations inserted inside a scope; "
                "State::holding::<Populations> is modelled as take-from-owner / put-back-to-owner, the marker type itself is not); "
                "of the shipped pop-process-push components only the FRAME is modelled and judged (height effect, every other "
                "population untouched) — what a selection / replacement / mutation puts back is taken from the run (other "
                "properties), only PopulationEvaluator is modelled exactly; a component that fails may have taken any of its "
                "operands off (neither property nor docs promise which); boundary components, DE / CRO / swarm operators are not "
                "driven (their encodings are not TagProblem's); holding while other state is used by the closure is not generated; a panic that unwinds through with_inner_state is not generated. "
                "The theorems are about the model; agreement with the code is checked on the generated histories only."),
)
