import re

CONFIG = dict(
    bin="c04",
    drv="drv_c04",
    lean_modules=["MahfModel.Props.C04"],
    namespaces=["MahfModel.Props.C04"],
    shrink_lists=["ops"],
    level="proof",
    rule=("histories of Populations operations: (1) exhaustive — a prefix building height 0..3 followed by every "
          "sequence of L ops (L=2 quick, 3 thorough) over a 28-op alphabet; (2) for every height h<=6 and every "
          "n<=h+1, n successive rotate(n) / RotatePopulations(n); (3) seeded random histories of length 10..60 "
          "(quick) / 10..200 (thorough). A history is non-trivial if it has at least 3 operations and contains a "
          "rotation, peek or interleave; distinct = distinct canonical op list."),
    nontrivial=lambda inp: inp.count("(") >= 4 and re.search(r"rot|peek|ileave", inp) is not None,
    trusted_base=[
        "Vec/slice primitives (push, pop, last, get, rotate_right) are represented by their list semantics",
        "individuals are opaque tags; RefCell borrow of Populations inside State not modelled here (C02)"],
    assumptions=["SplitMix64-seeded generator; itertools::interleave modelled as alternate-until-both-exhausted"],
)
CONFIG.update(
    level_text=("Lean 4 theorems: the Vec-with-index-arithmetic model of Populations refines a plain stack for every finite "
                "history (history_refines), try_peek = spec[d]?, non-panicking accessors answer None exactly when too shallow, "
                "rotate(n) shifts exactly the top n and n rotations are the identity for every n <= height, stack ops permute "
                "populations only, RotatePopulations errs (never panics) on insufficient height. The model is tied to /repo by "
                "running the real Populations/State/components on exhaustive short and seeded long histories and diffing against "
                "the compiled model (K) and the abstract stack (O)."),
    level_note=("Trusted: Lean kernel; Vec/slice primitives represented by list semantics; harness + driver printing. "
                "Individuals are opaque tags. The theorem is about the model; agreement with the code is checked on the generated histories only."),
)
