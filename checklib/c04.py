import re

CONFIG = dict(
    bin="c04",
    drv="drv_c04",
    lean_modules=["MahfModel.Props.C04"],
    namespaces=["MahfModel.Props.C04"],
    shrink_lists=["ops"],
    level="proof",
    rule=("histories of Populations operations on a real State. Individuals carry a unique tag and an optional objective value "
          "(evaluated with objective = tag / evaluated with a small objective shared by several individuals / not evaluated); "
          "tag and objective are printed on every read. Sites: (exh) a prefix building height 0..3 followed by every sequence of "
          "L ops (L=2 quick, 3 thorough) over a 40-op alphabet incl. arguments 2^64-1, tied and unevaluated individuals, in-place "
          "edits, reset; (rotn, c-rotn) for every height h<=6 and every n<=h+1, n successive rotate(n) / RotatePopulations(n); "
          "(bound) every depth-taking operation with arguments h-1, h, h+1, 2^32, 2^63, 2^64-2, 2^64-1 at heights 0..4; "
          "(edit) every in-place edit (assign, push, extend, truncate, swap_remove, remove, insert, swap, reverse, clear, retain) with "
          "every index 0..len+1 and 2^64-1 through current_mut and get_current_mut at heights 0..2; (rand) seeded random histories of "
          "length 10..60 (quick) / 10..200 (thorough) in three flavours of individuals; (scoped) random histories with every "
          "operation executed inside 0..4 nested with_inner_state scopes; (split) populations of 0..9 or 21..48 individuals with few "
          "distinct objective values, split / interleave / split again; (deep) 15..40 populations of up to 12 individuals, rotations "
          "and peeks around the height. A history is non-trivial if it has at least 3 operations and contains a rotation, peek, "
          "interleave, split or in-place edit; distinct = distinct canonical op list."),
    nontrivial=lambda inp: inp.count("(") >= 4 and re.search(r"rot|peek|ileave|split|edit", inp) is not None,
    trusted_base=[
        "Vec/slice primitives (push, pop, last, get, rotate_right, truncate, swap_remove, remove, insert, swap, reverse, clear, "
        "retain, extend) are represented by their list semantics; usize arguments by naturals (the generator goes up to 2^64-1)",
        "individuals are a tag plus an optional natural objective value; RefCell borrow of Populations inside State and the "
        "parent-chain lookup from child scopes are not modelled here (C02/C03): `(in k op)` is modelled as `op`",
        "witnesses read off the real run: the two halves produced by SplitPopulationByObjectiveValue (accepted iff a sorted "
        "permutation with the prescribed sizes, otherwise the model answers with the stable sort) and the stack height after a "
        "panic inside a component (accepted iff untouched or code-shaped partial state)"],
    assumptions=["SplitMix64-seeded generator; itertools::interleave modelled as alternate-until-both-exhausted; "
                 "sort_unstable_by_key modelled as 'any ascending order' (legal-witness nondeterminism)"],
)
CONFIG.update(
    level_text=("Lean 4 theorems: the Vec-with-index-arithmetic model of Populations refines a plain stack for every finite "
                "history and every witness (history_refines), try_peek = spec[d]?, the non-panicking accessors (try_peek, try_pop, "
                "get_current, get_current_mut) answer None exactly when the stack is empty / too shallow and never panic, the panicking "
                "ones panic exactly then (panics_iff), and a None or panic leaves the stack as it was (failed_access_leaves_stack); "
                "rotate(n) shifts exactly the top n, and n rotations — through the API or through RotatePopulations — are the identity "
                "for every n <= height with no panic / Err on the way; over every history of pushes, pops, reads and rotations the "
                "populations on the stack plus those handed out are exactly those initially there plus those pushed "
                "(stack_conservation); any in-place edit, also a panicking one, changes nothing below the top "
                "(edit_touches_top_only); RotatePopulations errs (never panics) on insufficient height; "
                "SplitPopulationByObjectiveValue, whatever order the unstable sort leaves ties in, keeps the individuals, cuts "
                "ceil(n/2)/floor(n/2), orders the halves by objective (split_spec), panics exactly on < 2 individuals or an "
                "unevaluated one (split_panics_iff). The model is tied to /repo by running the real Populations/State/components on "
                "exhaustive short and seeded long histories and diffing against the compiled model (K) and the abstract stack (O)."),
    level_note=("Trusted: Lean kernel; Vec/slice primitives represented by list semantics; harness + driver printing. "
                "Individuals are tag + optional objective. Nondeterminism over legal witnesses: order of equal objective values in a "
                "split; stack state after a panic inside InterleavePopulations/SplitPopulationByObjectiveValue (untouched or already "
                "popped — neither property nor docs promise either). partial: scope lookup (parent chain) and RefCell borrows are "
                "outside this model; the scoped site only checks that the stack behaves the same from inside child scopes. "
                "The theorems are about the model; agreement with the code is checked on the generated histories only."),
)
