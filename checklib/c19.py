import re

CONFIG = dict(
    bin="c19",
    drv="drv_c19",
    lean_modules=["MahfModel.Props.C19", "MahfModel.Props.C19Run", "MahfModel.Props.C19Eval"],
    namespaces=["MahfModel.Props.C19"],
    shrink_lists=["pop"],
    level="proof",
    rule=("(1) AcoGeneration alone on instances of 1, 2, 3..8 and 9..12 cities (and, outside the property, 0 cities) with "
          "arbitrary pheromone matrices (constant, random, log-uniform 1e-12..1e6 with zeros, many ties, nearly evaporated "
          "1e-300, huge), distances uniform / log-uniform 1e-6..1e6 / two clusters / astronomically unequal (1e60..1e299 next "
          "to 1e-6..1e6, so that (1/d)^beta underflows to 0), alpha, beta in {0,1,5} (+0.5,2,3), 0..8 ants, seeded Random, on a "
          "state whose current population holds leftovers of an earlier pass (must be replaced, stack height unchanged); the "
          "witnesses (index taken from `remaining` at every step, for the greedy route and for every sampled route) are "
          "recovered from the produced tours. (2) AsPheromoneUpdate / MinMaxPheromoneUpdate alone on prepared populations "
          "(tours, truncated / repeated / rotated routes, equal objective values, astronomically long tours, +inf objective), "
          "rho in {0,0.1,0.9,1} + random, bounds incl. min = 0 and min ~ max, 0..8 ants, 1..12 cities. (3) chains of assembled "
          "generation -> PopulationEvaluator -> update steps where every reached matrix is the next input. (3b) the same chains "
          "composed from the public components the way the generic `aco::aco::<P, I>` wires them, under evaluator identifier "
          "Global, A or B (`ConfigurationBuilder::evaluate_with::<I>()`), with the tour-length evaluator registered under the "
          "requested identifier and a decoy evaluator (number of long hops / 1/(1+length) / constant / none) under the two other "
          "identifiers, 3..12 cities, 1..8 ants: the objectives that reach the update must be the closing-edge tour lengths "
          "[objective], an Err of the evaluation step is a violation [panic]. (4) 32 long runs "
          "(200 quick / 5000 thorough updates) of the shipped templates ant_system and max_min_ant_system over the 4 parameter "
          "points of the shared template grid (incl. the degenerate-valid one) x 4 TSP instances under the step observer: every "
          "step is checked in-process (count, permutation from city 0, finite, non-negative, within bounds; first matrix = "
          "default_pheromones everywhere as read back from the built configuration [init]; matrix before a generation = matrix "
          "after the previous update, bit for bit [discontinuity]; population stack height unchanged by generation [stack]), "
          "sampled steps (the first 60/200 and every 5th/20th, with the matrix before and after and the parameters read back "
          "from the built configuration) are replayed by the model. A separate malformed stream (zero / negative / NaN / "
          "infinite distances or pheromones, rho outside [0,1], min >= max, unevaluated or out-of-range individuals) checks "
          "only what is determined there: update results, constructor errors, and that a produced population consists of "
          "permutations from city 0. A case is non-trivial if it has one sampled ant or one rewarded individual; distinct = "
          "distinct input."),
    nontrivial=lambda inp: (re.match(r"\((run|tstep) ", inp) is not None) or (
        re.search(r"\(ants [1-9]", inp) is not None or inp.count("(ind ") >= 2),
    trusted_base=[
        "f64 arithmetic (+ - * /) is IEEE double in both Rust and Lean's Float; theorems are over an ordered field (exact arithmetic)",
        "f64::powf, WeightedIndex/Uniform sampling (rand 0.8.5) are abstracted: pow is a parameter, a sampled tour is a function of a witness",
        "Vec::remove / slice indexing represented by their list semantics",
        "the test problem's objective (closing-edge tour length) is the harness' Tsp; PopulationEvaluator<I> is the real component "
        "(run under Global, A and B with decoy evaluators under the other identifiers); in the model an evaluator is a function "
        "on routes looked up by identifier"],
    assumptions=[
        "valid parameters: 0 <= rho <= 1, decay coefficient >= 0, 0 <= min < max, finite distances >= 1e-9 between distinct cities "
        "(no upper limit other than a finite tour length: up to 1e300), alpha, beta in [0,5], non-negative finite pheromones, "
        "positive tour lengths (or +inf: no deposit); num_ants >= 0 (0 is accepted by every constructor); at least one city "
        "(run theorems: at least two, so that tour lengths are positive)",
        "SplitMix64-seeded generators; mahf's Random seeded from the same stream"],
    timeout_quick=600,
    timeout_thorough=3600,
)
CONFIG.update(
    level_text=("Lean 4 theorems over a generic numeric carrier: AcoGeneration yields 1 + num_ants routes and every one is a "
                "permutation of all cities starting at city 0 for EVERY pheromone matrix, distance function, exponent pair, legal "
                "witness and every way of breaking ties in the greedy route (each step removes the chosen index from `remaining`); "
                "the greedy route follows a maximal trail at every step whichever legal tie-breaking is used, and the code's "
                "`max_by` (last maximum) is one legal tie-breaking; legal sampling witnesses exist and are never rejected, so on a "
                "well-formed non-negative matrix with positive distances generation ALWAYS returns a population (exact arithmetic). "
                "In an ordered field the ant-system update is entry by entry (1-rho)*tau + sum over tours 1.. of c/len * (number of "
                "consecutive-city edges {i,j}) where that number is 1 for an edge of the tour and 0 otherwise (never the closing "
                "edge), symmetric matrices stay symmetric, entries stay non-negative and bounded ((1-rho)*B + m*c/L; invariant bound "
                "max(tau0, m*c/(rho*L))), the max-min update is clamp(min, max, (1-rho)*tau + 1/len_best on the edges of the best "
                "sampled tour) and every entry is within [min, max] whatever the old matrix was. Run level (all histories): every "
                "state reachable from init by any number of passes, any draws and any greedy tie-breaking is a well-formed "
                "non-negative n x n matrix (within bounds after the first max-min update); on every reachable state no pass can "
                "panic, every completed pass satisfies all generation and update clauses, and for legal draws the pass completes. "
                "A step composed under any evaluator identifier whose evaluator is the tour length IS that step, whatever is "
                "registered under the other identifiers (composed_step_is_step, composed_step_ignores_other_identifiers), and its "
                "passes stay within the reachable states (composed_pass_reachable). "
                "The model is tied to /repo by running the real components alone, assembled, and inside long runs of both templates, "
                "and diffing against the compiled model (K); the property's executable clauses are evaluated on the "
                "implementation's outputs (O)."),
    level_note=("K is tie-agnostic where the property is: the greedy route is accepted for any maximal trail at each step "
                "(witness-based), the max-min update for any of the tied best sampled tours. The max-min theorems are total (any "
                "number of sampled individuals incl. num_ants = 0: evaporate + clamp, after fix 444b092 in /repo). Generation loops "
                "run in a worker process (address space limited, killed and retried once before a case counts as `timeout`). "
                "Trusted: Lean kernel; harness + driver parsing/printing. Modelled, not verified: rounding (theorems are exact "
                "arithmetic; the tie compares floats with relative tolerance 1e-9), powf and rand's weighted sampling (any index of "
                "`remaining` is a legal draw; the model only decides whether WeightedIndex::new can fail). partial: finiteness of the "
                "trails in f64 is checked on the explored runs only (the bound theorems are exact arithmetic; with rho = 0 the "
                "ant-system trails grow without bound by design). Observed, outside the property: on an instance without any "
                "city generation returns the route [0]; distances below ~1e-62 with beta = 5 overflow (1/d)^beta and "
                "WeightedIndex::new panics (the harness' domain starts at 1e-9). The generic template `aco::aco::<P, I>` itself is "
                "not run under a non-Global identifier (its `Parameters` cannot be built outside the crate and the shared template "
                "runner covers the 21 shipped templates only); the same loop body is composed from the public components instead "
                "(step chains, identifiers Global / A / B only)."),
)
