import re

CONFIG = dict(
    bin="c11",
    drv="drv_c11",
    lean_modules=["MahfModel.Props.C11"],
    namespaces=["MahfModel.Props.C11"],
    shrink_lists=["pop", "objs"],
    level="proof",
    rule=("(1) every selection operator executed through the real component's `execute` on a State holding Populations + "
          "Random::new(seed): populations of size 0..8 of uniquely tagged individuals (5 quick / 12 thorough objective "
          "patterns per size: all equal, positive with ties, negative, 11-value grid with ties/zero/negatives/+inf, finite "
          "grid), with and without a population below; counts 0..size+1; tournament sizes 0..size+1 and = size; DE y in {1,2}; "
          "IWO (min,max) incl. min>max (an Err since /repo df44458); 20 (quick) / 40 (thorough) seeds per case; every witness is reconstructed from the "
          "tags of the OUTPUT (chosen indices, DE blocks, a competitor list explaining each tournament winner); the property "
          "predicate never looks at generator draws (tournament: winner is a member with at most len-size strictly better "
          "members); only the SUS start point is replayed, for the model comparison, with a legality fallback; "
          "(2) DECurrentToBest on populations with duplicated individuals; (3) SUS with scripted draws at the edges of [0,1) "
          "(Random::with_rng); (4) the public helpers proportional_weights / reverse_rank / objective_bounds compared "
          "directly on random objective lists; (5) selection pressure: 3 members with distinct objectives, 6000 draws per "
          "fitness-based operator, 5-sigma ordering test; (5b) an 'extreme' stream (finite objectives/offsets around 1e308 whose "
          "weight arithmetic overflows to inf/NaN) on which only the model's prediction is compared; (6) a 'malformed' stream (empty stack, unevaluated members, "
          "negative/NaN offset, base outside [eps,1), y outside {1,2}) on which only the model's predicted Err/panic is "
          "compared. A case is non-trivial if it is not in the malformed stream and its population / objective list has "
          "at least 2 members; distinct = distinct input string."),
    nontrivial=lambda inp: "malformed" not in inp and (inp.count("(pop (") >= 1 and inp.split("(pop", 2)[1].count("(") >= 2
                                                       or inp.startswith("(pw") or inp.startswith("(rrank") or inp.startswith("(freq")),
    trusted_base=[
        "rand 0.8 primitives are represented by their contracts only: SliceRandom::choose / choose_multiple (positions in range, "
        "distinct, min(k,len) many), WeightedIndex::new (Err on no item / invalid weight / zero total; panic on non-finite total), "
        "WeightedIndex::sample (a position in range), Rng::gen::<f64>() in [0,1)",
        "Vec/iterator primitives (iter, flat_map, filter, repeat/take, min_by_key = first minimum, itertools sorted_by_key = stable, "
        "group_by on consecutive equal keys) represented by their list semantics",
        "population stack = plain list (refinement of Populations proved in C04)",
        "Lean `Float` = IEEE binary64 with the same +,-,*,/,floor as Rust f64 (used by the compiled driver only)"],
    assumptions=["objective values are never NaN (SingleObjective::try_from, C09)",
                 "theorems are in exact arithmetic (ordered field): rounding, overflow to inf and x/0 = inf are outside them; "
                 "the compiled Float model is compared bit-for-bit with the code instead",
                 "harness built with debug assertions / overflow checks (dev profile)"],
    timeout_quick=600,
)
CONFIG.update(
    level_text=("Lean 4 theorems over an arbitrary ordered field and every legal witness: selection leaves the source untouched and "
                "pushes exactly one population (none on Err/panic); every selected individual is a member of the source (tag and "
                "objective) and, for index samplers, the member at the witness index; all/none/n individuals are returned; without "
                "repetition the positions are distinct; Err is returned exactly in the listed cases and nothing panics on evaluated "
                "input with documented parameters; proportional weights, linear and exponential rank weights are antitone in the "
                "objective; reverse_rank gives rank 1 to the lowest objective, ties share; a tournament winner is the first minimum "
                "of its competitors and a whole-population tournament returns a best individual; SUS returns exactly n on Ok "
                "over any carrier (Float included); the DE selections return one block of 2y+1 per member; IWO copies each member between min and max times, "
                "antitone in the objective. Partial forms + counterexample theorems document the two helper guarantees that "
                "the code does not meet (side findings below). The model is tied to /repo by executing the real components and comparing with the compiled Float "
                "model under the recovered witness (K), evaluating the property predicate on the implementation's output (O), and "
                "a 5-sigma frequency test for selection pressure."),
    level_note=("Trusted: Lean kernel; contracts of rand's sampling primitives; list semantics of iterator adaptors; harness + "
                "driver parsing/printing. partial: the distributions of the samplers (only the 5-sigma ordering test looks at "
                "frequencies), floating-point rounding/overflow in the weight arithmetic (theorems are exact arithmetic; the "
                "Float model is compared with the code on the generated cases only), WeightedIndex internals; on the 'extreme' stream RouletteWheel panics ('Uniform::new: range overflow') when the weight "
                "total overflows (e.g. objectives 0, 0, 5e307, 5e307, 1, -1 with offset 1) — predicted by the model, not judged. Side findings "
                "outside the property statement (Lean counterexamples proportional_weights_lt_offset, "
                "proportional_weights_not_normalized): proportional_weights returns weight 1 < offset for all-equal non-positive "
                "objectives with offset > 1, and ignores `normalize` for all-positive objectives."),
)
