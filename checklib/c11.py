import re

CONFIG = dict(
    bin="c11",
    drv="drv_c11",
    lean_modules=["MahfModel.Props.C11", "MahfModel.Props.C11Range", "MahfModel.Props.C11Pairs"],
    namespaces=["MahfModel.Props.C11"],
    shrink_lists=["pop", "objs"],
    level="proof",
    rule=("(1) every selection operator executed through the real component's `execute` on a State holding Populations + "
          "Random::new(seed): populations of size 0..8 of uniquely tagged individuals (5 quick / 12 thorough objective "
          "patterns per size: all equal, positive with ties, negative, 11-value grid with ties/zero/negatives/+inf, finite "
          "grid), with and without a population below; counts 0..size+1; tournament sizes 0..size+1 and = size; DE y in {1,2}; "
          "IWO (min,max) incl. min>max (an Err since /repo df44458); 20 (quick) / 40 (thorough) seeds per case; every witness is reconstructed from the "
          "tags of the OUTPUT (chosen indices, DE blocks, a competitor list explaining each tournament winner); the property "
          "predicate never looks at generator draws (tournament: winner is a member with at most len-size strictly better "
          "members); only the SUS start point is replayed, for the model comparison, with a legality fallback; "
          "(2) DECurrentToBest on populations with duplicated individuals; (3) SUS with scripted draws at the edges of [0,1) "
          "(Random::with_rng); (4) the public helpers proportional_weights / reverse_rank / objective_bounds compared "
          "directly on random objective lists; (5) selection pressure: 3 members with distinct objectives, 6000 draws per "
          "fitness-based operator, 5-sigma ordering test; (5b) an 'extreme' stream: inputs on which the weight arithmetic of RouletteWheel / SUS / IWO can overflow to inf/NaN "
          "or underflow to 0 (all objectives finite and len*((max-min)+offset) not below 1e300, or a spread max-min / an offset that is "
          "positive but below 1e-290, or an offset beyond 1e150) — outside the exact-arithmetic theorems, only the model's prediction is "
          "compared there, and any frame-keeping outcome agrees (Err/panic with the stack untouched, or one pushed population of source "
          "members in the requested number); every OTHER operator only compares objective values and is judged by O on the whole range; "
          "(6) a 'malformed' stream (empty stack, unevaluated members under an operator that selects by fitness, "
          "negative/NaN offset, base outside [eps,1), y outside {1,2}) on which only the model's predicted Err/panic is "
          "compared; on a population with an unevaluated member a fitness-based operator may panic or not (agreement: the code "
          "panics, or does what the model does, or the model panics and the code reports Err / pushes copies of source members); "
          "(7) the operators that never read an objective (All, None, CloneSingle, FullyRandom, RandomWithoutRepetition, DERand) on "
          "unevaluated / partly evaluated populations on top of 0..3 other populations — inside the property, judged by O; "
          "(8) populations of 12..40 members with ties, counts 0, 1, len-1, len, len+1, 3*len, tournament sizes up to len+1, stacks of "
          "height 1..4, every operator. The member standing in the 'best' slot of DEBest / DECurrentToBest is read off the output "
          "(any member of minimal objective is legal). -0.0 is in the objective grids. "
          "(9) populations at the extremes of the objective range for EVERY operator (14 operators x 12 patterns x 3 sizes x 2 entry points "
          "systematically, plus 1500 quick / 12000 thorough random ones, sizes 0..8 and 12..31): all members +inf, all members equal "
          "(0, -0, +-1, +-f64::MAX, MIN_POSITIVE, +-5e-324, 1e6), a single finite value among +inf, a single +inf among finite values, "
          "+-f64::MAX mixed, -0.0/+0.0 mixed, f64::MAX next to +inf, -f64::MAX next to +inf, subnormals, adjacent floats (near ties), one "
          "member one ulp away from a plateau; the documented-error clause is judged exactly there (an Err is a violation unless the operator "
          "documents that input — too few individuals, not exactly one, an infinite objective for RouletteWheel / SUS / IWO — or it is one of the "
          "corners the statement leaves open: sampling from an empty population, an empty tournament, all weights zero). "
          "(9b) a second entry point: the operator built with `from_params` and `Selection::select` called directly on the slice "
          "(sites `<Op>::select`), on stream 9 and on the ordinary grids. "
          "(10) individuals as (solution, objective) PAIRS: populations of 1..16 members that share a solution (tag) and differ in the objective "
          "(one solution evaluated size times; two solutions; every solution evaluated twice with noise), members that share the objective but "
          "not the solution, identical duplicates and mixtures — every operator (the three DE selections get a third of the cases), through both "
          "entry points (sites `<Op>@shared`, 2400 quick / 14000 thorough); every witness position is recovered from exact copies (tag AND objective bits), "
          "positions of identical members are used at most once; "
          "(11) selection executed on a State that ALSO holds other best / memory states — BestIndividual (filled through `update`), ElitistArchive "
          "(filled by the real ElitistArchiveUpdate component), PSO BestParticles / BestParticle — whose individuals are not members of the current "
          "population (unknown tag; the tag of a member with another objective; objective better / worse / equal; a copy of a member of the population "
          "below) or are members that are not the best: sites `<Op>@states`, 1500 quick / 9000 thorough, two thirds on DEBest / DECurrentToBest / the "
          "fitness-based operators; every second case is repeated through the direct `Selection::select` entry point on the same population and seed. "
          "A case is non-trivial if it is not in the malformed stream and its population / objective list has "
          "at least 2 members; distinct = distinct input string."),
    nontrivial=lambda inp: "malformed" not in inp and (inp.count("(pop (") >= 1 and inp.split("(pop", 2)[1].count("(") >= 2
                                                       or inp.startswith("(pw") or inp.startswith("(rrank") or inp.startswith("(freq")),
    trusted_base=[
        "rand 0.8 primitives are represented by their contracts only: SliceRandom::choose / choose_multiple (positions in range, "
        "distinct, min(k,len) many), WeightedIndex::new (Err on no item / invalid weight / zero total; panic on non-finite total), "
        "WeightedIndex::sample (a position in range), Rng::gen::<f64>() in [0,1)",
        "Vec/iterator primitives (iter, flat_map, filter, repeat/take, min_by_key = first minimum (tournament rounds; for the DE 'best' "
        "any minimum is accepted), itertools sorted_by_key = stable, group_by on consecutive equal keys) represented by their list semantics",
        "population stack = plain list (refinement of Populations proved in C04)",
        "a solution is represented by its tag (u64 encoding of the harness' TagProblem): `Individual: PartialEq` = same tag and same objective; "
        "encodings whose `PartialEq` is not an equivalence (f64 vectors holding NaN) are not generated",
        "Lean `Float` = IEEE binary64 with the same +,-,*,/,floor as Rust f64 (used by the compiled driver only)",
        "f64 without NaN under `<` / `<=` (SingleObjective: Ord through partial_cmp) is a total preorder — the carrier assumption of Props/C11Range.lean"],
    assumptions=["objective values are never NaN (SingleObjective::try_from, C09)",
                 "theorems about weights are in exact arithmetic (ordered field): rounding, overflow to inf, underflow to 0 and x/0 = inf are outside them "
                 "(the comparison-only operators are also stated over a total preorder, which has no such restriction); "
                 "the compiled Float model is compared bit-for-bit with the code instead",
                 "harness built with debug assertions / overflow checks (dev profile)"],
    timeout_quick=600,
)
CONFIG.update(
    level_text=("Lean 4 theorems over an arbitrary ordered field and every legal witness: selection leaves the source untouched and "
                "pushes exactly one population (none on Err/panic); every selected individual is a member of the source (tag and "
                "objective) and, for index samplers, the member at the witness index; all/none/n individuals are returned; without "
                "repetition the positions are distinct; Err is returned exactly in the listed cases and nothing panics on evaluated "
                "input with documented parameters; proportional weights, linear and exponential rank weights are antitone in the "
                "objective; reverse_rank gives rank 1 to the lowest objective, ties share; a tournament winner is the first minimum "
                "of its competitors and a whole-population tournament returns a best individual; SUS returns exactly n on Ok "
                "over any carrier (Float included), its k-th selected position is the FIRST position whose cumulative weight reaches the "
                "k-th selection point (u+k)*total/n, positions come in population order (sus_point_in_range), and copies are handed out in "
                "proportion to the weights up to one copy (sus_copies_proportional: k2-k1 points on one member need weight >= (k2-k1)*g, a member "
                "skipped between two points k1 < k2 has weight < (k2-k1)*g, end-of-wheel bounds); the DE selections return one block of 2y+1 per "
                "member whose CONTENT is as documented (de_rand_blocks: 2y+1 pairwise distinct positions; de_best_blocks: [best, 2y distinct]; "
                "de_current_to_best_blocks: [current, best, 2y-1 distinct others]) where 'best' is ANY member of minimal objective (witness "
                "position, BestIdx) and the code's first minimum is one of the legal choices (code_best_is_legal); All returns the population "
                "itself and None nothing (all_none_exact); the six operators that never read an objective behave as documented on EVERY "
                "population, unevaluated ones included, without any side condition (documented_errors_no_fitness); the operators that only COMPARE "
                "objective values (Tournament, LinearRank, DEBest, DECurrentToBest, and f::best behind the two DE selections) are additionally "
                "treated over an arbitrary TOTAL PREORDER with arbitrary arithmetic (Props/C11Range.lean: the carrier may have a greatest element = "
                "+inf, values of any magnitude, and distinct elements that compare equal = -0.0/+0.0): best never panics, answers None exactly on "
                "the empty population and returns a member of minimal objective (best_any_range), on a plateau (all +inf, all equal) every member is "
                "a legal best (plateau_every_member_is_best), Err is returned on too few individuals and on NO other input and nothing panics "
                "(documented_errors_any_range), the DE blocks have the documented content (de_best_blocks_any_range, "
                "de_current_to_best_blocks_any_range, code_best_is_legal_any_range) and a whole-population tournament returns a minimal member "
                "(tournament_whole_population_is_best_any_range); IWO copies each member between min and max times, "
                "antitone in the objective. Partial forms + counterexample theorems document the two helper guarantees that "
                "the code does not meet (side findings below). The model is tied to /repo by executing the real components and comparing with the compiled Float "
                "model under the recovered witness (K), evaluating the property predicate on the implementation's output (O; for SUS "
                "additionally: a worse member never gets more than two copies more than a better one — the integer consequence of "
                "sus_copies_proportional, one boundary point on either side; for All and IWO the multiset of copies, not their order), and "
                "a 5-sigma frequency test for selection pressure. O judges every operator on the whole range of objective values "
                "(-f64::MAX..f64::MAX, +inf, signed zeros, subnormals; all-+inf and all-equal populations included) through both entry points "
                "(`execute` and a direct `Selection::select`), except RouletteWheel / SUS / IWO where their weight arithmetic can overflow or underflow. "
                "Props/C11Pairs.lean: individuals are (solution, objective) pairs — the comparison the code uses is equality of the pair "
                "(same_individual_iff_pair); the pool of 'other' individuals of DECurrentToBest has population size minus the number of identical copies "
                "of the member, a member sharing only the solution or only the objective stays in it (de_current_to_best_pool_counts_pairs); on ANY "
                "evaluated population DECurrentToBest errs exactly if it is empty or some member has fewer than 2y-1 members differing from it as a pair, "
                "and never panics (de_current_to_best_err_iff_pairs); at least 2y pairwise different pairs are a usable input however many share a "
                "solution (de_current_to_best_shared_solutions_ok). O judges membership, counts, distinctness and the documented errors on pairs "
                "(copies compared by tag and objective bits; identical members form one group: IWO copies per member = group copies / group size, SUS "
                "pressure bound on group totals). States holding other best / memory states (model SelState: stack + BestIndividual + ElitistArchive + "
                "PSO bests): `execute` is `select` on the source population, every pushed individual is a source member "
                "(execute_is_select_on_source), two States with the same stack give the same result (execute_depends_on_source_only), the other "
                "states are left alone (execute_keeps_other_states); O/K run the real `execute` on such States, so an individual taken from a cache "
                "instead of the population is reported (`not-member` / `wrong-value`) with the failing input."),
    level_note=("That `execute` reads nothing but the population stack and the generator is how the model is WRITTEN (SelState/execute); the three "
                "execute_* theorems are consequences of that shape, their tie to /repo is the differential run on States with foreign best / archive / PSO "
                "contents (stream 11) — other custom states a component might consult are not generated. The harness does not report the other states "
                "after the call (the property does not speak about them). "
                "Trusted: Lean kernel; contracts of rand's sampling primitives; list semantics of iterator adaptors; harness + "
                "driver parsing/printing. partial: the distributions of the samplers (only the 5-sigma ordering test looks at "
                "frequencies), floating-point rounding/overflow in the weight arithmetic (theorems are exact arithmetic; the "
                "Float model is compared with the code on the generated cases only), WeightedIndex internals; ExponentialRank on +inf / huge "
                "objectives is covered by O and K only (its weights are field arithmetic on the base, so it is not in the total-preorder theorems); "
                "on the 'extreme' stream (outside O) SUS selects only the first member when the objectives differ by a subnormal amount, e.g. "
                "objectives -0.0, -5e-324 with offset 0 and 7 points: total/7 underflows to 0 — a rounding effect the exact-arithmetic statement does "
                "not cover, predicted by the model; there RouletteWheel also panics ('Uniform::new: range overflow') when the weight "
                "total overflows (e.g. objectives 0, 0, 5e307, 5e307, 1, -1 with offset 1) — predicted by the model, not judged, and not pinned "
                "either (where an overflow surfaces depends on how the same weight is written). Not pinned down on purpose: which of several "
                "equally good members is 'best' in the DE selections, the order of the copies in O (K still compares it), whether a "
                "fitness-based operator panics on an unevaluated member, the sign of a zero returned by objective_bounds. The step from sus_copies_proportional to the integer bound "
                "'at most two copies more' used by O (contiguity of equal positions in a sorted list) is argued in the docstring, not "
                "proved. Still pinned by K only: Err-versus-Ok in corners the property leaves open (e.g. LinearRank with n = 0 on an empty "
                "population), the order of the copies of All / IWO, the rounding direction of the IWO seed count. Side findings "
                "outside the property statement (Lean counterexamples proportional_weights_lt_offset, "
                "proportional_weights_not_normalized): proportional_weights returns weight 1 < offset for all-equal non-positive "
                "objectives with offset > 1, and ignores `normalize` for all-positive objectives."),
)
