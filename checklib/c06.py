import re
from checklib.c16 import pregen as _pregen_templates

CONFIG = dict(
    bin="c06",
    drv="drv_c06",
    lean_modules=["MahfModel.Props.C06", "MahfModel.Props.C06Templates"],
    pregen=_pregen_templates,
    namespaces=["MahfModel.Props.C06"],
    shrink_lists=["steps"],
    level="proof",
    timeout_quick=600,
    rule=("(1) evaluation steps: real PopulationEvaluator components inside a real Configuration::run on prepared population "
          "stacks over a call-logging table objective: every size 0..50 x {Sequential, Parallel} x rayon pools {none,1,2,4,16} "
          "x identifiers {Global, custom}, plus seeded random step sequences (push/pop/eval, several populations, empty stack, "
          "pre-evaluated and stale members, unregistered identifier => require error); (2) loops guarded by "
          "LessThanN::evaluations(n) for n<=24 (quick) / 60 (thorough) x pass sizes {1,2,3,5,7,12}; (2b) the firefly skeleton fa::fa::<P, I> with FireflyPositionsUpdate::<I> for a NON-Global identifier I, with only I registered and with a distinct Global evaluator (own probe) registered as well: the run must succeed, every call must go to I's evaluator and the reported count must equal its probe; (3) run level: every leaf "
          "step of runs of all 21 templates x 3 parameter points x 4 instances x seeds x {seq,par}: counter delta vs. objective "
          "calls, and reported evaluations vs. total calls at the end. A case is non-trivial if it contains an evaluation step "
          "(component level), a loop (budget) or is a template run; distinct = distinct canonical input."),
    nontrivial=lambda inp: ("(eval " in inp) or inp.startswith("(budget") or inp.startswith("(run") or inp.startswith("(fa"),
    trusted_base=[
        "rayon scheduler not modelled (parallel call order compared as a multiset; schedule independence is C08)",
        "u32 counter overflow not modelled (counter is a Nat)",
        "Vec/slice primitives represented by list semantics",
        "step observer hook (cfg mahf_verif) in Block/Loop; harness classifies leaf steps by component type name"],
    assumptions=["SplitMix64-seeded generators; objective values from a grid incl. ties, negative values, +inf, denormals (no NaN, no -0.0)",
                 "run level covers the 21 shipped templates on the shared test instances (Sphere/OneMax/TSP), iteration-bounded"],
    level_text=("Lean 4 theorems over the PopMachine model: evaluate_step (same length/order/solutions, every member carries f(sol), "
                "call log extended by exactly the population's solutions in order, counter += length), each_individual_called_once, "
                "evaluate_empty_stack_noop, evaluator_missing_require_fails, evals_eq_calls for every sequence of modelled steps "
                "(induction), budget_overshoot + budget_loop_terminates, counter_exact_partial for runs without a counter-shadowing "
                "scope, and the counterexample ils_scoped_counter_violates / counter_exact_fails for the shipped ILS shape. "
                "The model is tied to /repo by running the real components and all 21 templates (K) and by evaluating the "
                "property predicate on the implementation's outputs (O)."),
    level_note=("Trusted: Lean kernel; harness + driver printing; list semantics of Vec; rayon and u32 overflow not modelled. "
                "partial: the run-level statement is proved for runs without a scope that shadows the counter; for ILS the full "
                "statement is refuted (known finding, recorded). Template wiring is audited by running the templates, not by a "
                "regenerated static analysis."),
)

CONFIG["level_text"] = CONFIG["level_text"] + " " + "Template level: a `counterExact` analysis over the component trees (no scope shadows the evaluation counter) is proved sound for every execution of an abstract interpreter, and the kernel re-evaluates it by `decide` on the trees of all 21 templates x 4 parameter points regenerated from the code's own Serialize output on every run (84 obligations; ILS = false, the recorded finding, with a concrete violating model execution)."

# K-only stream: the component classes the template-level analysis relies on (Tpl.callsObjective / Tpl.eclass) are
# compared with what every executed component of every template run was observed to do.
CONFIG["extra"] = [dict(bin="c16", drv="drv_c16", args=["--audit"], head="audit")]
CONFIG["trusted_base"] = CONFIG.get("trusted_base", []) + [
    "component classes of Model/TemplatesEval.lean (callsObjective, insertsCounter, eclass) are declared, not derived; "
    "validated per executed step of all template runs by the audit stream (K)"]
