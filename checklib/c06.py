import os, re, subprocess
from checklib.c16 import pregen as _pregen_templates

N_GENERIC = 13 * 4      # generic loop functions x parameter points (hcommon::templates_generic::GENERIC_TEMPLATES x N_VARIANTS)


def _pregen(ctx):
    """Regenerated layer of C06: the shared template trees (C16's pregen: Generated/Templates.lean) and
    Generated/TemplatesGenericA.lean = the trees of the generic loop functions `heuristics::xx::xx::<P, identifier::A>`
    with the evaluator identifier every component names (`c06 --generic-trees | drv_c06 --gen-generic`)."""
    _pregen_templates(ctx)
    lean, target = ctx["lean"], ctx["target"]
    with ctx["Lock"](os.path.join(lean, ".lock")):
        rc, out = ctx["sh"](["lake", "build", "drv_c06"], cwd=lean, timeout=3600)
        if rc != 0:
            raise RuntimeError("drv_c06 does not build: " + out[-400:])
        trees = subprocess.run([os.path.join(target, "debug", "c06"), "--generic-trees"], capture_output=True, text=True, timeout=600)
        if trees.returncode != 0:
            raise RuntimeError("c06 --generic-trees failed: " + trees.stderr[-400:])
        gen = subprocess.run([os.path.join(lean, ".lake", "build", "bin", "drv_c06"), "--gen-generic"], input=trees.stdout,
                             capture_output=True, text=True, timeout=600)
        if gen.returncode != 0 or gen.stdout.count("\ndef ") != N_GENERIC:
            raise RuntimeError("generic tree translation failed: " + (gen.stderr or gen.stdout)[-400:])
        path = os.path.join(lean, "MahfModel", "Generated", "TemplatesGenericA.lean")
        old = open(path).read() if os.path.exists(path) else ""
        if old != gen.stdout:
            open(path, "w").write(gen.stdout)


CONFIG = dict(
    bin="c06",
    drv="drv_c06",
    lean_modules=["MahfModel.Props.C06", "MahfModel.Props.C06Templates", "MahfModel.Props.C06Generic", "MahfModel.Props.C06Runs"],
    pregen=_pregen,
    namespaces=["MahfModel.Props.C06"],
    shrink_lists=["steps", "order", "cfg", "scope", "body", "then", "else"],
    level="proof",
    timeout_quick=600,
    rule=("(1) evaluation steps: real PopulationEvaluator components inside a real Configuration::run on prepared population "
          "stacks over a call-logging table objective: every size 0..50 x {Sequential, Parallel} x rayon pools {none,1,2,4,16} "
          "x identifiers {Global, custom}; sizes around powers of two and chunk boundaries (63, 64, 65, 100, 127..129, 255..257, 1000, "
          "1025, 4097; thorough: 51..4097 at 30 boundaries) x {Sequential, Parallel} x pools {none,1,2,3,4,8,16} and random sizes up to "
          "5000 in three-step sequences; plus seeded random step sequences (push/pop/eval, several populations, empty stack, "
          "pre-evaluated and stale members, unregistered identifier => require error); (2) loops guarded by "
          "LessThanN::evaluations(n) for n<=24 (quick) / 60 (thorough) x pass sizes {1,2,3,5,7,12}; (2b) the firefly skeleton fa::fa::<P, I> with FireflyPositionsUpdate::<I> for a NON-Global identifier I, with only I registered and with a distinct Global evaluator (own probe) registered as well: the run must succeed, every call must go to I's evaluator and the reported count must equal its probe; (3) run level: every leaf "
          "step of runs of all 21 templates x 3 parameter points x 4 instances x seeds x {seq,par}: counter delta vs. objective "
          "calls, and reported evaluations vs. total calls at the end; (3b) every template x 4 parameter points run 2..3 times through "
          "Configuration::run on ONE state (prepared as optimize_with prepares it): every run is judged as in (3), objective calls "
          "counted per run; (4) the generic loop functions heuristics::xx::xx::<P, I> "
          "(ga, es, de, pso, sa, ls, ils, rs, rw, iwo, fa, bh, cro; aco::aco cannot be built from outside the crate) instantiated with "
          "the NON-Global identifier I = identifier::A as complete configurations (the shipped constructor's prefix and components, "
          "with A) x 4 parameter points x 4 Sphere instances x seeds x {seq,par}: run on a state that holds ONLY Evaluator<P, A> "
          "(must complete; per-leaf and total count as in (3)) and on a state that holds ONLY Evaluator<P, Global> (must fail with an "
          "error before anything executes: no objective call, no component started); (5) generated configuration TREES run through "
          "Configuration::run, 1..3 consecutive runs ON ONE State (same configuration object again / different configurations): "
          "evaluation steps at top level, inside Scopes of depth 1..3, inside Loop bodies (LessThanN::iterations / "
          "LessThanN::evaluations budgets) and Branch arms (taken / not taken, with / without else), identifiers Global / custom / "
          "identifier::B, recording components at every scope entry/exit, loop pass/exit, branch arm and evaluation step: (5a) budget "
          "configurations run 2..3 times, (5b) random trees with everything registered (half of them without evaluation steps inside "
          "scopes), (5c) an UNREGISTERED identifier at each of 16 positions (top, scope depth 1/2/3, loop body, loop without pass, "
          "then/else taken/not taken, scope in loop, loop in scope, scope in a loop without pass / in a not-taken arm ...) x {the only "
          "evaluator use, one of several} x 5 registries, alone or as the second run on a used state, (5d) random trees with one "
          "identifier unregistered; (6) a single PopulationEvaluator<I> executed directly (Component::init/execute, no require) on "
          "states with / without Evaluator<P, I>, with / without the counter, stacks of 0..3 populations. A case is non-trivial if it "
          "contains an evaluation step (component level), a loop (budget) or is a template run; distinct = distinct canonical input."),
    nontrivial=lambda inp: ("(eval " in inp) or inp.startswith("(budget") or inp.startswith("(run") or inp.startswith("(fa") or inp.startswith("(generic") or inp.startswith("(direct") or inp.startswith("(rerun"),
    trusted_base=[
        "rayon scheduler not modelled (parallel call order compared as a multiset; schedule independence is C08)",
        "u32 counter overflow not modelled (counter is a Nat)",
        "Vec/slice primitives represented by list semantics",
        "step observer hook (cfg mahf_verif) in Block/Loop; harness classifies leaf steps by component type name",
        "configuration trees are assembled by the harness through Configuration::builder() (debug / evaluate_with / scope_ / while_ / "
        "if_ / if_else_) with recording debug components in between; the site of a tree case (scoped / missing / missing-in-scope) is "
        "computed from the input by the harness"],
    assumptions=["a configuration that names an unregistered evaluator identifier ONLY inside a Scope is not refused up front "
                 "(Scope does not forward require): recorded finding (late error / no error when the scope is never entered); what is "
                 "demanded and checked there without exception: the step with the missing evaluator never executes",
                 "a run whose configuration has no evaluation step outside scopes does not own the top-level counter; what "
                 "state.evaluations() shows after such a run on a used state is the earlier run's count and is not judged",
                 "SplitMix64-seeded generators; objective values from a grid incl. ties, negative values, +inf, denormals (no NaN, no -0.0)",
                 "run level covers the 21 shipped templates on the shared test instances (Sphere/OneMax/TSP), iteration-bounded",
                 "generic loop functions are exercised with one non-Global identifier (identifier::A) on Sphere instances; "
                 "aco::aco::<P, I> is not covered (aco::Parameters has only private fields and no constructor)"],
    level_text=("Lean 4 theorems over the PopMachine model: evaluate_step (same length/order/solutions, every member carries f(sol), "
                "call log extended by exactly the population's solutions in order, counter += length), each_individual_called_once, "
                "evaluate_empty_stack_noop, evaluator_missing_require_fails, evals_eq_calls for every sequence of modelled steps "
                "(induction), budget_overshoot + budget_loop_terminates, counter_exact_partial for runs without a counter-shadowing "
                "scope, and the counterexample ils_scoped_counter_violates / counter_exact_fails for the shipped ILS shape. "
                "Configuration trees (Model/EvalTreeC06.lean: interpreter of Configuration::run / Scope / Loop / Branch / "
                "PopulationEvaluator with scoped Evaluations and Iterations, consecutive runs on one state): "
                "missing_evaluator_fails_before_anything (identifier outside every scope: refused by require, nothing executed), "
                "scope_with_missing_evaluator_untouched, only_registered_evaluators_applied / missing_evaluator_never_applied (every "
                "execution, any tree / registry / prior state: a step whose identifier is not registered never evaluates), "
                "direct_step_without_evaluator_errs, run_reports_its_own_calls + consecutive_runs_report_own_calls (any prior counter "
                "value: a run without evaluation steps in scopes reports exactly its own objective calls), "
                "budget_loop_ends_with_budget_used; counterexamples scope_defers_require_violates, "
                "scope_never_entered_no_error_violates, scoped_eval_count_violates (+ *_oracle_rejects: the O predicate on the "
                "model's output of the witness) for the full statements MissingFailsBeforeAnything / ReportedEqualsCalls. "
                "The model is tied to /repo by running the real components and all 21 templates (K) and by evaluating the "
                "property predicate on the implementation's outputs (O)."),
    level_note=("Trusted: Lean kernel; harness + driver printing; list semantics of Vec; rayon and u32 overflow not modelled. "
                "partial: the missing-evaluator clause is proved in full for identifiers outside every Scope; for identifiers named only "
                "inside a Scope the full statement is refuted (Scope does not forward require: error on scope entry only, none if the "
                "scope is never entered; known finding, recorded) and what is proved is that the scope body / the step never executes. "
                "The tree model's conditions are LessThanN over Iterations / Evaluations only; the recording debug components of the "
                "harness are assumed not to touch the state. "
                "partial: the run-level statement is proved for runs without a scope that shadows the counter; for ILS the full "
                "statement is refuted (known finding, recorded; the same for the generic ils::ils with identifier A). The "
                "'uses only the requested evaluator' obligations cover the 13 generic loop functions that can be built from outside "
                "the crate, at the 4 parameter points instantiated in this run and for the identifier A (not for all parameters / all "
                "identifiers); which components apply an evaluator (PopulationEvaluator, FireflyPositionsUpdate) is declared "
                "(callsObjective), validated by the audit stream; the identifier is read from the component's own serialisation "
                "(PhantomId writes type_name::<I>()), so a component that serialised another identifier than it uses would escape the "
                "static layer (not the runs with only Evaluator<P, A> registered)."),
)

CONFIG["level_text"] = CONFIG["level_text"] + " " + (
    "Requested evaluator: a checker `usesOnlyTop w` over component trees that carry the evaluator identifier each component names "
    "(every evaluation-performing component names w, every component is known, some evaluator is demanded by `require`) is proved "
    "sound for every execution of an abstract interpreter of Configuration::run (uses_only_requested: every evaluator application of a "
    "finished run is an application of w; other_evaluators_irrelevant: the run equals the run on a state holding only w; "
    "requested_missing_fails_before_executing: without w the run is refused by `require`); on every run the trees of the 13 generic loop "
    "functions instantiated with identifier::A x 4 parameter points are re-extracted from the code's own Serialize output and the kernel "
    "re-checks `usesOnlyTop .A tree = true` and `counterExactTop (erase tree)` by `decide` (104 regenerated obligations; ils: counter "
    "analysis false, the recorded finding), with the mixed-identifier shape as a concrete rejected model execution.") + " " + "Template level: a `counterExact` analysis over the component trees (no scope shadows the evaluation counter) is proved sound for every execution of an abstract interpreter, and the kernel re-evaluates it by `decide` on the trees of all 21 templates x 4 parameter points regenerated from the code's own Serialize output on every run (84 obligations; ILS = false, the recorded finding, with a concrete violating model execution)."

# K-only stream: the component classes the template-level analysis relies on (Tpl.callsObjective / Tpl.eclass) are
# compared with what every executed component of every template run was observed to do.
CONFIG["extra"] = [dict(bin="c16", drv="drv_c16", args=["--audit"], head="audit")]
CONFIG["trusted_base"] = CONFIG.get("trusted_base", []) + [
    "component classes of Model/TemplatesEval.lean (callsObjective, insertsCounter, eclass) are declared, not derived; "
    "validated per executed step of all template runs by the audit stream (K)",
    "generic-A configurations are assembled by the harness (harness/src/templates_generic.rs) from the same components and parameter "
    "points as the shipped constructors; only the generic loop function itself is the code under test there",
    "the evaluator identifier of a component is taken from its serialised form `(T Id (str <type name>))` (sertree + Tpl.idOf?)"]
