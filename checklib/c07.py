import re
from checklib.c16 import pregen as _pregen_templates

CONFIG = dict(
    bin="c07",
    drv="drv_c07",
    lean_modules=["MahfModel.Props.C07", "MahfModel.Props.C07Ties", "MahfModel.Props.C07Templates"],
    pregen=_pregen_templates,
    namespaces=["MahfModel.Props.C07"],
    shrink_lists=["ops", "prog", "scope"],
    level="proof",
    timeout_quick=600,
    rule=("(1) sequences of 1..8 operations on a real State: feed a candidate population to BestIndividualUpdate, call "
          "BestIndividual::update with one candidate, show a population to ElitistArchiveUpdate(k), re-insert with "
          "ElitistArchiveIntoPopulation - all on the CURRENT population - and push/pop a bait population (individuals better than "
          "anything fed) UNDER it; population sizes 0..6 and, one in twelve, 21..48 over 60 solution ids with few distinct values "
          "(beyond the insertion-sort range of sort_unstable, ties really reordered); objective grid {-1,-0.0,0,1-ulp,1,1,1+ulp,2,2,3,3,"
          "5e-324,+-f64::MAX,+inf,+inf} (ties, exact duplicates, values one ulp apart); every capacity k=0..7, 800 (quick) / 4000 "
          "(thorough) sequences per k, unevaluated members in every 20th (quick) / 5th (thorough) sequence; plus long archive histories "
          "with k in {1,5,19,20,21,33,64} and populations of 15..40; "
          "(1b) scoped: 1500 / 8000 real component trees of Scope (nesting up to 4) around population setters, real "
          "BestIndividualUpdates and probes of the visible best individual; "
          "(2) run level: all 21 templates x 4 parameter points x 4 instances (instance 3 = sphere with the optimum outside the "
          "domain) x seeds x {seq,par}: values returned per leaf step, every best-update with its population and the visible best "
          "after it, final best_objective_value vs. the minimum the objective ever returned. Non-trivial: at least two operations / "
          "updates or a template run; distinct = distinct canonical input."),
    nontrivial=lambda inp: inp.startswith("(run") or inp.count("(feed") + inp.count("(arch") + inp.count("(upd") + inp.count("(into") + inp.count("(bu)") >= 2,
    trusted_base=[
        "the tie order of sort_unstable_by_key and the choice of min_by_key among equal minima are taken from the implementation's "
        "output as witnesses; the driver checks the witness is legal (sorted permutation / a member no member beats) and that the "
        "witness model reproduces the output; theorems quantify over all legal witnesses",
        "Individual equality on (solution id, objective value); objective values as order-preserving integer keys of IEEE bits "
        "(no NaN; -0.0 and 0.0 identified, as SingleObjective's PartialEq/PartialOrd do)",
        "step observer hook (cfg mahf_verif); harness classifies leaf steps by component type name"],
    assumptions=["SplitMix64-seeded generators", "run level covers the 21 shipped templates on the shared test instances, iteration-bounded",
                 "inputs with unevaluated individuals are outside the property (objective() panics); either side's panic is accepted there"],
    level_text=("Lean 4 theorems for every linear order of objective values. First-minimum / stable-sort models: best_update_spec (replace "
                "iff strictly better or empty, returns that Boolean), best_monotone, best_update_dominates_population, "
                "population_best_is_min, best_is_min_of_fed, archive_update_k_best, archive_history_k_best, archive_reinsert_no_dup. "
                "Tie-agnostic (for ALL legal witnesses: any member of minimal objective value offered; any sorted permutation produced "
                "by the unstable sort): best_update_any_min_spec (dominates the population; old record or a strictly better member), "
                "best_value_witness_independent, best_history_any_min, best_history_only_improves (whole histories), "
                "archive_update_any_sort, archive_values_witness_independent, archive_history_any_sort (sub-multiset, length min k "
                "shown, nothing omitted strictly better, kept objective values = the k smallest shown), with "
                "first_minimum_is_legal_witness / stable_sort_is_legal_witness showing the deterministic models are instances. "
                "The executable predicates the driver evaluates are proved equivalent to the specification "
                "(archive_predicate_iff_spec, reinsert_predicate_iff_spec). Scopes: scope_with_own_update_leaves_callers_best, "
                "scope_without_update_touches_only_visible_best (any well-bracketed body). Run level: "
                "best_le_all_returned_partial and best_eq_min_returned_partial (covered runs: reported best EQUALS the minimum "
                "returned), update_values_refine (the value-level update of the run model is BestIndividualUpdate seen through obj), "
                "and the counterexample evaluate_without_update_violates / best_is_min_fails for the firefly shape. Tied to /repo by "
                "feeding the real components, real Scope trees and all template runs (K: witness models reproduce the output; O: "
                "the proved predicates on the implementation's output)."),
    level_note=("Trusted: Lean kernel; harness + driver printing; list semantics of Vec. Not part of the property and therefore not "
                "compared: which of several equally good individuals is remembered / survives at the capacity boundary, the order of "
                "individuals inside the archive and inside the re-inserted population, panics on unevaluated input. partial: the "
                "run-level statement is proved for covered traces (every value returned is shown to an update, no scope shadows the "
                "best); it is refuted for the firefly template (known finding, recorded). ILS templates: the static analysis is not "
                "applicable (updates inside the scope go to a shadowing record); decided by the run-level check only."),
)

CONFIG["level_text"] = CONFIG["level_text"] + " " + 'Template level: an evaluate-then-update typestate analysis over the component trees is proved sound (reported best = minimum returned, for every execution of an abstract interpreter), and the kernel re-evaluates it by `decide` on the regenerated trees of all 21 templates x 4 parameter points (84 obligations; firefly = false, the recorded finding, with a concrete violating model execution; ILS = not applicable, decided by the run-level check).'

# K-only stream: the component classes the template-level analysis relies on (Tpl.callsObjective / Tpl.eclass) are
# compared with what every executed component of every template run was observed to do.
CONFIG["extra"] = [dict(bin="c16", drv="drv_c16", args=["--audit"], head="audit")]
CONFIG["trusted_base"] = CONFIG.get("trusted_base", []) + [
    "component classes of Model/TemplatesEval.lean (callsObjective, insertsCounter, eclass) are declared, not derived; "
    "validated per executed step of all template runs by the audit stream (K)"]
