import re
from checklib.c16 import pregen as _pregen_templates

CONFIG = dict(
    bin="c07",
    drv="drv_c07",
    lean_modules=["MahfModel.Props.C07", "MahfModel.Props.C07Templates"],
    pregen=_pregen_templates,
    namespaces=["MahfModel.Props.C07"],
    shrink_lists=["ops"],
    level="proof",
    timeout_quick=600,
    rule=("(1) sequences of 1..8 operations on a real State: feed a candidate population (size 0..6) to BestIndividualUpdate, call "
          "BestIndividual::update with one candidate, show a population to ElitistArchiveUpdate(k), re-insert with "
          "ElitistArchiveIntoPopulation; objective grid {-1,0,1,1,2,3,+inf,+inf} over 4 solution ids (ties and exact duplicates "
          "frequent), every capacity k=0..7, 400 (quick) / 4000 (thorough) sequences per k (thorough adds unevaluated members); "
          "(2) run level: all 21 templates x 3 parameter points x 4 instances (instance 3 = sphere with the optimum outside the "
          "domain) x seeds x {seq,par}: values returned per leaf step, every best-update with its population and the visible best "
          "after it, final best_objective_value vs. the minimum the objective ever returned. Non-trivial: at least two operations "
          "or a template run; distinct = distinct canonical input."),
    nontrivial=lambda inp: inp.startswith("(run") or inp.count("(feed") + inp.count("(arch") + inp.count("(upd") + inp.count("(into") >= 2,
    trusted_base=[
        "sort_unstable_by_key represented by a stable insertion sort; tie order at the truncation boundary is taken from the implementation (witness) and only keys are compared",
        "Individual equality on (solution id, objective bits); objective values as order-preserving integer keys of IEEE bits (no NaN, no -0.0)",
        "step observer hook (cfg mahf_verif); harness classifies leaf steps by component type name"],
    assumptions=["SplitMix64-seeded generators", "run level covers the 21 shipped templates on the shared test instances, iteration-bounded"],
    level_text=("Lean 4 theorems for every linear order of objective values: best_update_spec (replace iff strictly better or empty, "
                "returns that Boolean), best_monotone, best_update_dominates_population, population_best_is_min (first minimum), "
                "best_is_min_of_fed (any sequence of populations incl. ties/duplicates/top), archive_update_k_best and "
                "archive_history_k_best (sub-multiset of everything shown, length min k shown, nothing omitted strictly better than "
                "something kept), archive_reinsert_no_dup, run level best_le_all_returned_partial for runs in which every "
                "evaluation is shown to a best-update, and the counterexample evaluate_without_update_violates / best_is_min_fails "
                "for the firefly shape. Tied to /repo by feeding the real components (K) and evaluating the predicates on their "
                "outputs and on all template runs (O)."),
    level_note=("Trusted: Lean kernel; harness + driver printing; list semantics of Vec and of the unstable sort. partial: the "
                "run-level statement is proved for covered traces (every value returned is shown to an update, no scope shadows the "
                "best); it is refuted for the firefly template (known finding, recorded). Template wiring is audited by running "
                "the templates, not by a regenerated static analysis."),
)

CONFIG["level_text"] = CONFIG["level_text"] + " " + 'Template level: an evaluate-then-update typestate analysis over the component trees is proved sound (reported best = minimum returned, for every execution of an abstract interpreter), and the kernel re-evaluates it by `decide` on the regenerated trees of all 21 templates x 4 parameter points (84 obligations; firefly = false, the recorded finding, with a concrete violating model execution; ILS = not applicable, decided by the run-level check).'

# K-only stream: the component classes the template-level analysis relies on (Tpl.callsObjective / Tpl.eclass) are
# compared with what every executed component of every template run was observed to do.
CONFIG["extra"] = [dict(bin="c16", drv="drv_c16", args=["--audit"], head="audit")]
CONFIG["trusted_base"] = CONFIG.get("trusted_base", []) + [
    "component classes of Model/TemplatesEval.lean (callsObjective, insertsCounter, eclass) are declared, not derived; "
    "validated per executed step of all template runs by the audit stream (K)"]
