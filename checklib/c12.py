import re

CONFIG = dict(
    bin="c12",
    drv="drv_c12",
    lean_modules=["MahfModel.Props.C12"],
    namespaces=["MahfModel.Props.C12"],
    shrink_lists=["pop", "stack"],
    level="proof",
    rule=("population stacks of uniquely tagged individuals with explicit objective values, executed through the real "
          "component's `execute` on a State holding Populations + Random: (1) exhaustive — every pair (parents, offspring) "
          "of populations of size 0..3 (quick) / 0..4 (thorough) over a 3-value objective grid (ties, duplicates), with and "
          "without a population below, for DiscardOffspring, Generational, Merge, KeepBetterAtIndex and MuPlusLambda with "
          "every mu in 0..a+b+1 and 10; (2) RandomReplacement on all size pairs 0..4 x mu 0..10 x 10 (quick) / 40 (thorough) "
          "seeds; (3) seeded random stacks (sizes up to 8, 10% up to 39; 11-value grid incl. +inf, signed zeros, 1e300; depth "
          "2..4; all operators); (3b) offspring containing exact clones of parents (same tag and objective; multiset "
          "multiplicities matter); (4) a separate 'malformed' stream (fewer than two populations, unevaluated individuals) on "
          "which only the model's predicted Err/panic/stack is compared. A case is non-trivial if both populations together "
          "hold at least 2 individuals and the stream is not 'malformed'; distinct = distinct input string."),
    nontrivial=lambda inp: inp.count("(") - inp.count("(pop") >= 6,
    trusted_base=[
        "Vec primitives (extend, truncate, into_iter/zip/chain/collect) represented by their list semantics",
        "sort_unstable_by_key represented as 'stable sort of some permutation of the input' (tie order free, witness recovered from tags)",
        "SliceRandom::shuffle represented by an arbitrary permutation (witness recovered from tags); its distribution is not modelled",
        "population stack = plain list (refinement of Populations proved in C04)"],
    assumptions=["objective values are never NaN (guaranteed by SingleObjective::try_from, C09)",
                 "SplitMix64-seeded generator; mahf's Random::new(seed) (ChaCha12) for the component's own draws"],
)
CONFIG.update(
    level_text=("Lean 4 theorems over an arbitrary linear order of objective values and every legal witness permutation: replacement "
                "consumes two populations and pushes one (none on Err/panic), the result is a sub-multiset of parents+offspring "
                "as (tag, objective) pairs, DiscardOffspring/Generational/Merge return parents/offspring/concatenation, "
                "MuPlusLambda(mu) keeps min(mu, a+b) and never discards an individual strictly better than a kept one, "
                "RandomReplacement keeps min(mu, a+b), KeepBetterAtIndex is position-wise with ties kept by the parent and Err on "
                "unequal sizes; the executable predicate used by the check is proved to hold of the model "
                "(model_satisfies_predicate). The model is tied to /repo by running the real components on exhaustive small and "
                "seeded larger stacks and comparing with the compiled model under the witness recovered from the tags (K), and by "
                "evaluating the predicate on the implementation's own output (O)."),
    level_note=("Trusted: Lean kernel; list semantics of Vec primitives; harness + driver parsing/printing. The theorem is about "
                "the model; agreement with the code is checked on the generated stacks only. partial: the distribution of "
                "RandomReplacement's shuffle and the concrete tie order of sort_unstable are outside the model (left free)."),
)
