import re


def _nontrivial(inp):
    """Both populations together hold at least 2 individuals, all evaluated, at least two populations
    (i.e. inside the property's quantifier); every frequency case (>= 2000 executions each) counts."""
    if inp.startswith("(freq"):
        return True
    inds = inp.count("(") - inp.count("(pop") - 4 - (1 if "(via replace)" in inp else 0)
    return inds >= 2 and inp.count("(pop") >= 2 and " u)" not in inp


CONFIG = dict(
    bin="c12",
    drv="drv_c12",
    lean_modules=["MahfModel.Props.C12", "MahfModel.Props.C12Hist"],
    namespaces=["MahfModel.Props.C12"],
    shrink_lists=["pop", "stack"],
    level="proof",
    rule=("population stacks of uniquely tagged individuals with explicit objective values, executed through the real "
          "component's `execute` on a State holding Populations + Random (components built with `new`): (1) exhaustive — every "
          "pair (parents, offspring) of populations of size 0..3 (quick) / 0..4 (thorough) over a 3-value objective grid (ties, "
          "duplicates), with and without a population below, for DiscardOffspring, Generational, Merge, KeepBetterAtIndex and "
          "MuPlusLambda with every mu in 0..a+b+1 and 10; (2) RandomReplacement on all size pairs 0..4 x mu 0..10 x 10 (quick) / "
          "40 (thorough) seeds; (3) seeded random stacks (sizes up to 8, 10% up to 39; 11-value grid incl. +inf, signed zeros, "
          "1e300; depth 2..4; all operators); (3b) offspring containing exact clones of parents; (3c) the same individual "
          "(tag and objective) several times inside one population and across both; (3d) large populations (30..400 parents, "
          "0..200 offspring, few or many distinct objective values) with mu at 0, 1, a, n-1, n, n+1 and random; (3e) mu at the "
          "u8/u16/i32/u32 boundaries (255 .. 2^32-1); (3f) sites `<Op>/replace`: the public trait method `Replacement::replace` "
          "called directly on components built with `from_params` (exhaustive pairs of sizes 0..2 x every mu, random pairs up to "
          "11+11, boundary mu); (4) a separate 'malformed' stream (fewer than two populations, unevaluated individuals) on which "
          "only the model's predicted Err/panic/stack is compared (for MuPlusLambda with an unevaluated individual either the panic "
          "or the no-panic result is accepted); (5) site `RandomReplacement/freq`: the real RandomReplacement executed 2000 (quick) "
          "/ 8000 (thorough) times with different seeds on 10 size pairs x up to 6 values of mu; per input position the number of "
          "survivals must lie within 6 standard deviations (+1) of runs*min(mu,n)/n, per pair of positions the number of joint "
          "survivals within 6 sd of runs*k(k-1)/(n(n-1)), and at least two different kept sets must occur when 0 < k < n. "
          "A case is non-trivial if it is a frequency case or both populations together hold at least 2 individuals, all "
          "evaluated, on a stack of at least two populations; distinct = distinct input string."),
    nontrivial=_nontrivial,
    trusted_base=[
        "Vec primitives (extend, truncate, into_iter/zip/chain/collect) represented by their list semantics",
        "sort_unstable_by_key represented as 'stable sort of some permutation of the input' (tie order free, witness recovered from tags); step K compares MuPlusLambda results as multisets (order inside the surviving population is not part of the statement; mu_plus_lambda_order_free, agree_up_to_order_sound)",
        "SliceRandom::shuffle represented by an arbitrary permutation (witness recovered from tags); that it is *uniform* over the n! permutations is trusted and tied only statistically (frequency oracle, 6 sd)",
        "population stack = plain list (refinement of Populations proved in C04)",
        "Float.sqrt / Float arithmetic of the Lean runtime in the tolerance of the frequency oracle"],
    assumptions=["objective values are never NaN (guaranteed by SingleObjective::try_from, C09); they form a total preorder (signed zeros tie) — the theorems assume exactly that (Preorder + TotalLE), not antisymmetry",
                 "the State holds a Populations stack and a Random (replacement() panics otherwise, for every operator, before anything is pushed)",
                 "scope: the six implementors of the Replacement trait (mod.rs, common.rs); sa::ExponentialAnnealingAcceptance is C17, bh::EventHorizon acts in place and is not a two-population operator",
                 "SplitMix64-seeded generator; mahf's Random::new(seed) (ChaCha12) for the component's own draws"],
)
CONFIG.update(
    level_text=("Lean 4 theorems over an arbitrary total preorder of objective values (antisymmetry not assumed: covers f64 with "
                "signed zeros) and every legal witness permutation: replacement consumes two populations and pushes one (none on "
                "Err/panic), the result is a sub-multiset of parents+offspring as (tag, objective) pairs, "
                "DiscardOffspring/Generational/Merge return parents/offspring/concatenation, MuPlusLambda(mu) keeps min(mu, a+b) and "
                "never discards an individual strictly better than a kept one, RandomReplacement keeps min(mu, a+b), namely the "
                "individuals at the first mu positions of the witness, and — counting over all n! legal witnesses — exactly "
                "min(mu,n)*(n-1)! of them keep any given position, i.e. under a uniform shuffle every parent and every offspring "
                "survives with the same probability min(mu,n)/n (random_replacement_uniform_survival); KeepBetterAtIndex is "
                "position-wise with ties kept by the parent and Err on unequal sizes; for every finite history of replacement steps that all "
                "return Ok (runOps_ok_conserves, Props/C12Hist.lean) the stack is lower by exactly the number of steps, everything below "
                "the consumed populations is untouched and the individuals of the final stack are a sub-multiset of the initial ones; "
                "a failing step ends the history (runOps_stops_at_first_failure); the executable predicate used by the check is "
                "proved to hold of the model (model_satisfies_predicate) and to be blind to the order of MuPlusLambda's result. The "
                "model is tied to /repo by running the real components (through new+execute and through from_params+replace) on "
                "exhaustive small, seeded larger (up to ~600 individuals) and boundary-mu stacks and comparing with the compiled "
                "model under the witness recovered from the tags (K), by evaluating the predicate on the implementation's own "
                "output (O), and by a frequency oracle for the uniformity of RandomReplacement's choice."),
    level_note=("Trusted: Lean kernel; list semantics of Vec primitives; harness + driver parsing/printing. The theorem is about "
                "the model; agreement with the code is checked on the generated stacks only. partial: the distribution of "
                "RandomReplacement's shuffle is tied statistically only (marginal and pairwise survival frequencies, 6 sd; the "
                "pairwise frequencies have no Lean counterpart, only the marginal ones do); the concrete tie order of "
                "sort_unstable and the order of MuPlusLambda's survivors are left free; outside the quantifier (unevaluated "
                "individuals) MuPlusLambda may or may not panic."),
)
