import re

CONFIG = dict(
    bin="c09",
    drv="drv_c09",
    lean_modules=["MahfModel.Props.C09"],
    namespaces=["MahfModel.Props.C09"],
    shrink_lists=["sort"],
    level="proof",
    rule=("bit patterns of doubles: a grid of special values (both zeros, smallest/largest subnormals, smallest "
          "normals, 1, 1+eps, powers of two at the overflow boundaries 2^969/2^970/2^971/2^511/2^512/2^-1023/2^-1024, "
          "MAX and its neighbours, both infinities, 9 NaN patterns; each with both signs) plus seeded random patterns "
          "(uniform bits, exact powers of two, neighbourhoods of MAX and of the subnormals). Cases: constructor on every "
          "grid value and random patterns; all ordered pairs of ~150 legal values through <,<=,>,>=,==,partial_cmp,cmp; "
          "all ordered pairs of ~100 legal values through + and -, and through * and / with every grid value as raw f64 "
          "scalar (incl. NaN/-inf), and unary -; all ordered triples of a 40-value (thorough 64) grid; sort/min/max of "
          "random lists of up to 120 elements; multi-objective constructor on all vectors of length <=3 over a 9-value grid, partial_cmp on "
          "pairs of vectors of length <=3 over a 7-value grid incl. unequal lengths (all 160801 pairs in the thorough "
          "tier; all pairs of length <=2, all over a 4-value grid, and 30000 sampled pairs in the quick tier), random "
          "longer vectors, triples of vectors. A case is non-trivial if it involves at least two values or a vector; "
          "distinct = distinct input."),
    nontrivial=lambda inp: len(re.findall(r"x[0-9a-f]{16}", inp)) >= 2 or inp.startswith("(m"),
    trusted_base=[
        "hardware/LLVM IEEE-754 binary64 conformance (round-to-nearest-even) for the class of an arithmetic result; "
        "checked against the exact-integer model on every generated operand pair, incl. the rounding boundary MAX+2^970",
        "Rust core's f64::partial_cmp = match (a <= b, a >= b); derive(PartialOrd, PartialEq) on a one-field tuple struct "
        "delegates to the field; derive_more Add/Sub/Neg apply the f64 operator to the field, Mul/Div take a raw scalar",
        "slice::sort / Iterator::min / max call Ord::cmp only (modelled as stable insertion sort / folds)"],
    assumptions=["SplitMix64-seeded generator", "a finite double is k * 2^-1074 for an integer k; the model stores k"],
)
CONFIG.update(
    level_text=("Lean 4 theorems on an exact model of binary64 values (nan | -inf | +inf | k*2^-1074, bit-exact decoder): "
                "the constructors accept exactly the values other than NaN and -inf and return them unchanged (single and "
                "multi, NaN reported first); on legal values partial_cmp is never None so Ord::cmp cannot panic, it equals "
                "the numeric order, is antisymmetric and transitive, <= is total, sort/min/max never fail and return an "
                "ordered permutation / bounding members; the code's flag-loop Pareto comparison equals the specification "
                "(equal iff identical; dominates iff same length, nowhere worse, somewhere better; antisymmetric; transitive; "
                "incomparable on length mismatch or trade-off) for vectors of any length. The arithmetic closure asked for by "
                "the property is FALSE of the code: counterexample theorems for every (operator, class) and exact iff "
                "characterisations of the operand classes where closure holds (arith_closed_partial*). Tied to /repo by running "
                "the real constructors, operators and comparisons on ~1.8e5 (quick) generated cases and diffing against the "
                "compiled model (K) and against the specification-level predicates (O)."),
    level_note=("Trusted: Lean kernel; IEEE-754 conformance of the machine for result classes (exercised, not proved); "
                "Rust's derive expansions as described in trusted_base; harness + driver printing. Arithmetic is modelled at "
                "the level of the class (nan/-inf/+inf/finite) of the correctly rounded result, not the rounded value. "
                "Known findings (recorded, not repaired): the derived Add/Sub/Mul/Div/Neg on SingleObjective return NaN or "
                "-inf on legal operands, and a later cmp on a NaN result panics."),
)
