import re

CONFIG = dict(
    bin="c09",
    drv="drv_c09",
    lean_modules=["MahfModel.Props.C09", "MahfModel.Props.C09Ord"],
    namespaces=["MahfModel.Props.C09", "MahfModel.Props.C09Ord"],
    shrink_lists=["xs", "ys"],
    level="proof",
    rule=("bit patterns of doubles: a grid of special values (both zeros, smallest/largest subnormals, smallest "
          "normals, 1, 1+eps, powers of two at the overflow boundaries 2^969/2^970/2^971/2^511/2^512/2^-1023/2^-1024, "
          "MAX and its neighbours, both infinities, 9 NaN patterns; each with both signs) plus seeded random patterns "
          "(uniform bits, exact powers of two, neighbourhoods of MAX and of the subnormals). Cases: constructor on every "
          "grid value and random patterns; all ordered pairs of ~150 legal values through <,<=,>,>=,==,partial_cmp,cmp; "
          "all ordered pairs of ~100 legal values through + and -, and through * and / with every grid value as raw f64 "
          "scalar (incl. NaN/-inf), and unary -; all ordered triples of a 40-value (thorough 64) grid; sort/min/max of "
          "random lists of up to 120 elements; multi-objective constructor on all vectors of length <=3 over a 9-value grid, partial_cmp on "
          "pairs of vectors of length <=3 over a 7-value grid incl. unequal lengths (all 160801 pairs in the thorough "
          "tier; all pairs of length <=2, all over a 4-value grid, and 30000 sampled pairs in the quick tier), random "
          "longer vectors, triples of vectors; vectors of length 7..64 (some up to 300) in constructed relations (equal "
          "up to the sign of zeros, dominating in 1-3 coordinates placed first / last / anywhere, trade-off, proper "
          "prefix, one longer) with chains x<=y<=z, and constructor calls on such vectors with one or two illegal "
          "coordinates first / last / anywhere. Users of the order: Ord::min/max (by value, std::cmp, through "
          "references) on all pairs of a 14-value grid + random pairs, Ord::clamp on all triples of a 9-value grid "
          "(incl. min > max) + random triples, lexicographic cmp/partial_cmp/==/</<= of Vec<SingleObjective> on all "
          "pairs of lists of length <=2 over {-0,0,1,-1,inf} + random lists with shared prefixes; 26 std operations "
          "(Iterator::min/max/min_by/max_by/min_by_key/max_by_key with value and reference keys, min/max/sort of "
          "(objective,index) tuples, sort, sort_by(cmp), sort_by_key, sort_by_cached_key, sort_by_key(Reverse), "
          "sort_unstable, sort_unstable_by, sort_unstable_by_key, select_nth_unstable_by_key, BinaryHeap, BTreeSet "
          "collect and insert, BTreeMap insert, binary_search, dedup) and BestIndividual::best_individual on every "
          "list of length <=3 over {-0,0,1,-1,inf}, every list of length 4 over {-0,0,1} and on random lists of up to "
          "400 elements from tie-heavy pools, half of them with both zeros forced in. A case is non-trivial if it "
          "involves at least two values or a vector; distinct = distinct input."),
    nontrivial=lambda inp: len(re.findall(r"x[0-9a-f]{16}", inp)) >= 2 or inp.startswith("(m") or inp.startswith("(std")
    or inp.startswith("(lex") or inp.startswith("(best"),
    trusted_base=[
        "hardware/LLVM IEEE-754 binary64 conformance (round-to-nearest-even) for the class of an arithmetic result; "
        "checked against the exact-integer model on every generated operand pair, incl. the rounding boundary MAX+2^970",
        "Rust core's f64::partial_cmp = match (a <= b, a >= b); derive(PartialOrd, PartialEq) on a one-field tuple struct "
        "delegates to the field; derive_more Add/Sub/Neg apply the f64 operator to the field, Mul/Div take a raw scalar",
        "std's collection algorithms touch the elements only through Ord::cmp / PartialOrd::partial_cmp / PartialEq::eq and "
        "deliver what their documentation says (first of equal minima, last of equal maxima, stable sorts keep equal elements "
        "in order, BTreeSet/BTreeMap::insert do not replace an equal key, Ord::min returns the first and Ord::max the second "
        "of equal arguments, clamp asserts min <= max, slices compare lexicographically, dedup keeps the first of a run); "
        "these documented results are what the model's comparison programs compute and what the harness compares against",
        "f64::total_cmp = integer comparison of the bits with the low 63 bits flipped for negative patterns (read off core; "
        "only used to characterise where it differs from the numeric order)"],
    assumptions=["SplitMix64-seeded generator", "a finite double is k * 2^-1074 for an integer k; the model stores k"],
)
CONFIG.update(
    level_text=("Lean 4 theorems on an exact model of binary64 values (nan | -inf | +inf | k*2^-1074, bit-exact decoder): "
                "the constructors accept exactly the values other than NaN and -inf and return them unchanged (single and "
                "multi, NaN reported first); on legal values partial_cmp is never None so Ord::cmp cannot panic, it equals "
                "the numeric order, is antisymmetric and transitive, <= is total, sort/min/max never fail and return an "
                "ordered permutation / bounding members; the code's flag-loop Pareto comparison equals the specification "
                "(equal iff identical; dominates iff same length, nowhere worse, somewhere better; antisymmetric; transitive; "
                "incomparable on length mismatch or trade-off) for vectors of any length. Users of the order (Props/C09Ord): "
                "ANY algorithm that can look at objective values only through cmp / partial_cmp / == (a decision tree over these "
                "three questions, comparison_program_safe) never panics in a comparison and behaves exactly as under the numeric "
                "order; the documented std algorithms (first-min, last-max, stable sort, Reverse, Ord::min/max/clamp, lexicographic "
                "slice comparison, BTreeSet/BTreeMap insertion, dedup) are such programs, never fail, and Ord::min/max/clamp and set "
                "insertion meet their specifications. At the level of bit patterns: two legal patterns compare Equal iff they are "
                "the same pattern or the two zeros (cmp_eq_iff_bits), and f64::total_cmp agrees with the order everywhere except "
                "on (-0.0, +0.0) / (+0.0, -0.0) (total_cmp_differs_exactly_on_zeros) - the inputs the generator forces into its "
                "lists. The arithmetic closure asked for by "
                "the property is FALSE of the code: counterexample theorems for every (operator, class) and exact iff "
                "characterisations of the operand classes where closure holds (arith_closed_partial*). Tied to /repo by running "
                "the real constructors, operators, comparisons, the provided Ord methods, 26 std users of the order and "
                "BestIndividual::best_individual on ~2.1e5 (quick) generated cases and diffing against the compiled model (K) and "
                "against the specification-level predicates (O: numeric order + std's documented tie rules for std's own "
                "algorithms; tie-agnostic for Ord::min/max/clamp, unstable sorts, heaps, collected sets and best_individual)."),
    level_note=("Trusted: Lean kernel; IEEE-754 conformance of the machine for result classes (exercised, not proved); "
                "Rust's derive expansions as described in trusted_base; harness + driver printing. Arithmetic is modelled at "
                "the level of the class (nan/-inf/+inf/finite) of the correctly rounded result, not the rounded value. "
                "std's sorting / searching / tree code is not modelled: the theorem quantifies over all comparison-only "
                "algorithms and the documented results are written down as programs (trusted_base), the real std code is run by the "
                "harness. What cmp does on a NaN operator result (it panics today) is not pinned. Which error a vector holding both "
                "NaN and -inf is rejected with is not pinned. "
                "Known findings (recorded, not repaired): the derived Add/Sub/Mul/Div/Neg on SingleObjective return NaN or "
                "-inf on legal operands, and a later cmp on a NaN result panics."),
)
