//! C07 — best-so-far and elitist archive only improve and hold the true best.
//! (1) component level: sequences of candidate populations fed to the real `BestIndividualUpdate`,
//!     `BestIndividual::update`, `ElitistArchiveUpdate(k)` and `ElitistArchiveIntoPopulation`
//!     (sizes 0–6, objective grid with ties, duplicates, +inf, capacities 0..7);
//!     `feed`/`upd`/`arch`/`into` act on the current (top) population; `push`/`pop` insert / remove a
//!     population UNDER it (bait individuals better than anything ever fed: a component reading anything but
//!     the current population is noticed);
//! (1b) scoped: real `Scope` trees around population setters, real `BestIndividualUpdate`s and probes of the
//!     visible best individual (nesting up to depth 4);
//! (2) run level: every run of all 21 templates: the values returned by the objective function per
//!     leaf step, every best-update with the population it saw, and at the end the reported best
//!     objective value vs. the minimum the objective function ever returned.
use std::sync::{Arc, Mutex};

use hcommon::problems::TagProblem;
use hcommon::templates::*;
use hcommon::*;
use mahf::components::archive::{ElitistArchive, ElitistArchiveIntoPopulation, ElitistArchiveUpdate};
use mahf::components::evaluation::BestIndividualUpdate;
use mahf::state::common::{BestIndividual, Populations};
use mahf::verif::Phase;
use mahf::components::Scope;
use mahf::{Component, Configuration, ExecResult, Individual, SingleObjective, State};
use serde::Serialize;

type P = TagProblem;

fn ind_s(i: &Individual<P>) -> String {
    match i.get_objective() {
        None => format!("({})", i.solution()),
        Some(o) => format!("({} {})", i.solution(), fx(o.value())),
    }
}
fn mk_ind(x: &Sx) -> Individual<P> {
    let v = x.items().unwrap();
    let s = v[0].nat().unwrap();
    if v.len() > 1 {
        Individual::new(s, SingleObjective::try_from(v[1].float().unwrap()).unwrap())
    } else {
        Individual::new_unevaluated(s)
    }
}
fn mk_pop(x: &Sx) -> Vec<Individual<P>> { x.items().unwrap().iter().map(mk_ind).collect() }

fn best_s(state: &State<P>) -> String {
    match state.best_individual() {
        None => "(best none)".into(),
        Some(b) => format!("(best {})", ind_s(&b)),
    }
}

/// `(bestarch (k K) (ops …))`
fn run_bestarch(a: &[Sx]) -> String {
    let k = a[0].head().unwrap().1[0].nat().unwrap() as usize;
    let ops = a[1].head().unwrap().1;
    let problem = TagProblem;
    let mut state: State<P> = State::new();
    state.insert(Populations::<P>::new());
    state.populations_mut().push(vec![]);
    let bu = BestIndividualUpdate::new::<P>();
    let au = ElitistArchiveUpdate::new::<P>(k);
    let ai = ElitistArchiveIntoPopulation::new::<P>();
    bu.init(&problem, &mut state).unwrap();
    au.init(&problem, &mut state).unwrap();
    ai.require(&problem, &state.requirements()).unwrap();
    let mut outs = vec![];
    for op in ops {
        let (name, args) = op.head().unwrap();
        let r: Option<String> = match name {
            "feed" => {
                *state.populations_mut().current_mut() = mk_pop(&args[0]);
                catch(|| bu.execute(&problem, &mut state).is_ok()).and_then(|ok| ok.then(|| best_s(&state)))
            }
            "upd" => {
                let c = mk_ind(&args[0]);
                catch(|| state.borrow_mut::<BestIndividual<P>>().update(&c)).map(|r| format!("((ret {}) {})", b(r), best_s(&state)))
            }
            "arch" => {
                *state.populations_mut().current_mut() = mk_pop(&args[0]);
                catch(|| au.execute(&problem, &mut state).is_ok())
                    .and_then(|ok| ok.then(|| tagged("arch", state.borrow::<ElitistArchive<P>>().elitists().iter().map(ind_s))))
            }
            "into" => {
                *state.populations_mut().current_mut() = mk_pop(&args[0]);
                catch(|| ai.execute(&problem, &mut state).is_ok())
                    .and_then(|ok| ok.then(|| tagged("pop", state.populations().current().iter().map(ind_s))))
            }
            // a population inserted UNDER the current one / the population under the current one removed
            "push" => {
                let mut pops = state.populations_mut();
                let cur = pops.pop();
                pops.push(mk_pop(&args[0]));
                pops.push(cur);
                Some(format!("(h {})", pops.len()))
            }
            "pop" => {
                let mut pops = state.populations_mut();
                if pops.len() >= 2 {
                    let cur = pops.pop();
                    pops.pop();
                    pops.push(cur);
                }
                Some(format!("(h {})", pops.len()))
            }
            other => panic!("unknown op {other}"),
        };
        let panicked = r.is_none();
        outs.push(r.unwrap_or("panic".into()));
        if panicked { break; } // the state may be half-updated after a panic: the history ends here
    }
    tagged("outs", outs)
}

// ---------------------------------------------------------------- scoped trees
#[derive(Clone, Serialize)]
struct SetPop {
    #[serde(skip)]
    pop: Vec<Individual<P>>,
}
impl Component<P> for SetPop {
    fn execute(&self, _: &P, state: &mut State<P>) -> ExecResult<()> {
        *state.populations_mut().current_mut() = self.pop.clone();
        Ok(())
    }
}
/// Reports the visible best individual.
#[derive(Clone, Serialize)]
struct Peek {
    #[serde(skip)]
    log: Arc<Mutex<Vec<String>>>,
}
impl Component<P> for Peek {
    fn execute(&self, _: &P, state: &mut State<P>) -> ExecResult<()> {
        self.log.lock().unwrap().push(best_s(state));
        Ok(())
    }
}
fn build_items(items: &[Sx], log: &Arc<Mutex<Vec<String>>>) -> Vec<Box<dyn Component<P>>> {
    let mut v: Vec<Box<dyn Component<P>>> = vec![];
    for it in items {
        let (h, a) = it.head().unwrap();
        match h {
            "set" => v.push(Box::new(SetPop { pop: mk_pop(&a[0]) })),
            // the visible best right after every update is part of the output
            "bu" => {
                v.push(BestIndividualUpdate::new::<P>());
                v.push(Box::new(Peek { log: log.clone() }));
            }
            "peek" => v.push(Box::new(Peek { log: log.clone() })),
            "scope" => v.push(Scope::new(build_items(a, log))),
            other => panic!("unknown item {other}"),
        }
    }
    v
}
/// `(scoped (prog ITEM…))`
fn run_scoped(a: &[Sx]) -> String {
    let items = a[0].head().unwrap().1;
    let log = Arc::new(Mutex::new(vec![]));
    let config: Configuration<P> = Configuration::builder().do_many_(build_items(items, &log)).build();
    let problem = TagProblem;
    let mut state: State<P> = State::new();
    state.insert(Populations::<P>::new());
    state.populations_mut().push(vec![]);
    let r = catch(|| config.run(&problem, &mut state).is_ok());
    let mut outs = log.lock().unwrap().clone();
    match r {
        Some(true) => {}
        Some(false) => outs.push("err".into()),
        None => outs.push("panic".into()),
    }
    tagged("outs", outs)
}

struct BestAudit {
    frames: Vec<(usize, usize, String)>, // log length, children, population objective values at Before
    scopes: Vec<(usize, bool, bool)>,
    events: Vec<String>,
    result: String,
}
fn ov(v: Option<f64>) -> String { v.map(fx).unwrap_or("none".into()) }
impl Visitor for BestAudit {
    fn step<Q: HProblem>(&mut self, phase: Phase, name: &'static str, _index: usize, state: &State<Q>, problem: &Q) {
        let is_scope = name.contains("control_flow::Scope");
        match phase {
            Phase::Before => {
                if let Some(f) = self.frames.last_mut() { f.1 += 1; }
                let pop = if name.contains("BestIndividualUpdate") {
                    match state.populations().get_current() {
                        Some(p) => list(p.iter().filter_map(|i| i.get_objective().map(|o| fx(o.value())))),
                        None => "()".into(),
                    }
                } else { String::new() };
                self.frames.push((problem.probe().log.lock().unwrap().len(), 0, pop));
                if is_scope {
                    self.scopes.push((self.events.len(), false, false));
                    self.events.push(String::new());
                }
            }
            Phase::After => {
                let Some((l0, children, pop)) = self.frames.pop() else { return };
                if is_scope {
                    if let Some((i, he, hb)) = self.scopes.pop() { self.events[i] = format!("(s {} {})", b(he), b(hb)); }
                    self.events.push("(x)".into());
                    return;
                }
                if children > 0 { return; }
                let vals: Vec<String> = problem.probe().log.lock().unwrap()[l0..].iter().map(|v| fx(*v)).collect();
                if !vals.is_empty() { self.events.push(tagged("c", vals)); }
                if name.contains("PopulationEvaluator") {
                    if let Some(s) = self.scopes.last_mut() { s.1 = true; }
                }
                if name.contains("BestIndividualUpdate") {
                    if let Some(s) = self.scopes.last_mut() { s.2 = true; }
                    self.events.push(format!("(u {} {})", pop, ov(state.best_objective_value().map(|o| o.value()))));
                }
            }
        }
    }
    fn done<Q: HProblem>(&mut self, outcome: &Outcome, state: Option<&State<Q>>, problem: &Q) {
        // scopes left open by an error: patch with what was seen
        while let Some((i, he, hb)) = self.scopes.pop() { self.events[i] = format!("(s {} {})", b(he), b(hb)); }
        let best = state.and_then(|s| s.best_objective_value()).map(|o| o.value());
        self.result = list([
            format!("(out {})", outcome.tag()),
            tagged("trace", self.events.clone()),
            format!("(best {})", ov(best)),
            format!("(min {})", ov(problem.probe().min())),
        ]);
    }
}

/// `(run NAME V I ITERS SEED seq|par)`
fn run_run(a: &[Sx]) -> String {
    let name = a[0].atom().unwrap();
    let (v, i, iters, seed) = (a[1].nat().unwrap() as u32, a[2].nat().unwrap() as u32, a[3].nat().unwrap() as u32, a[4].nat().unwrap());
    let ek = if a[5].atom().unwrap() == "par" { EvalKind::Parallel } else { EvalKind::Sequential };
    let vis = BestAudit { frames: vec![], scopes: vec![], events: vec![], result: String::new() };
    match run_template(name, v, i, iters, seed, ek, vis) {
        Ok((vis, _)) => vis.result,
        Err(_) => "((out ctor-err) (trace) (best none) (min none))".into(),
    }
}

fn run_case(input: &Sx) -> (String, String) {
    let (tag, a) = input.head().unwrap();
    match tag {
        "bestarch" => ("best-archive".into(), run_bestarch(a)),
        "scoped" => ("scoped-best".into(), run_scoped(a)),
        "run" => (a[0].atom().unwrap().to_string(), run_run(a)),
        other => panic!("unknown case {other}"),
    }
}

/// ties and exact duplicates are frequent; +inf twice; -0.0 == 0.0 as objective values; 1.0 and its two
/// neighbours (1 ulp apart); the smallest subnormal; +-f64::MAX.
const GRID: [f64; 16] = [
    0.0, 1.0, 1.0, 2.0, 3.0, f64::INFINITY, -1.0, f64::INFINITY, -0.0, 1.0000000000000002, 0.9999999999999999, 5e-324,
    f64::MAX, -f64::MAX, 2.0, 3.0,
];
/// few values, many individuals: long runs of ties
const GRID_TIES: [f64; 4] = [1.0, 2.0, 2.0, f64::INFINITY];

struct G {
    uneval: bool,
    ids: u64,
    ties: bool,
}
fn gen_ind(r: &mut Sm, g: &G) -> String {
    let s = r.below(g.ids);
    if g.uneval && r.chance(1, 25) {
        format!("({s})")
    } else {
        let v = if g.ties { *r.pick(&GRID_TIES) } else { *r.pick(&GRID) };
        format!("({s} {})", fx(v))
    }
}
/// sizes 0..6 mostly; sometimes 21..48 (beyond the insertion-sort range of `sort_unstable`, few distinct values
/// over many solution ids, so that ties are really reordered)
fn gen_pop(r: &mut Sm, uneval: bool) -> String {
    if r.chance(1, 12) {
        let n = r.range(21, 48);
        let g = G { uneval, ids: 60, ties: !r.chance(1, 4) };
        list((0..n).map(|_| gen_ind(r, &g)))
    } else {
        let n = r.below(7);
        let g = G { uneval, ids: 4, ties: false };
        list((0..n).map(|_| gen_ind(r, &g)))
    }
}
/// bait: individuals better than anything that is ever fed
fn gen_bait(r: &mut Sm) -> String {
    let n = r.range(1, 3);
    list((0..n).map(|_| format!("({} {})", 90 + r.below(4), fx(if r.chance(1, 2) { -7.0 } else { *r.pick(&GRID) }))))
}
fn gen_small_pop(r: &mut Sm) -> String {
    let n = r.below(4);
    let g = G { uneval: false, ids: 4, ties: false };
    list((0..n).map(|_| gen_ind(r, &g)))
}
/// items of a scoped program; `depth` = nesting still allowed
fn gen_items(r: &mut Sm, depth: u32, budget: &mut u32) -> Vec<String> {
    let n = r.range(1, 5);
    let mut v = vec![];
    for _ in 0..n {
        if *budget == 0 { break; }
        *budget -= 1;
        match r.below(10) {
            0..=2 => v.push(format!("(set {})", gen_small_pop(r))),
            3..=5 => {
                v.push(format!("(set {})", gen_small_pop(r)));
                v.push("(bu)".into());
            }
            6 => v.push("(peek)".into()),
            _ if depth > 0 => {
                v.push(tagged("scope", gen_items(r, depth - 1, budget)));
                v.push("(peek)".into());
            }
            _ => v.push("(bu)".into()),
        }
    }
    v
}

fn main() {
    quiet_panics();
    let a = args();
    let mut out = Out::new();
    if let Some(r) = a.replay {
        let sx = Sx::parse(&r).expect("bad replay input");
        let (site, o) = run_case(&sx);
        out.case(&site, &r, &o);
        out.finish();
        return;
    }
    let mut emit = |input: String| {
        let sx = Sx::parse(&input).unwrap();
        let (site, o) = run_case(&sx);
        out.case(&site, &input, &o);
    };
    let mut r = Sm::new(a.seed ^ 0xC07);
    // 1. component level: all capacities 0..=7
    let per_k = if a.thorough { 4000 } else { 800 };
    for k in 0..=7u64 {
        for j in 0..per_k {
            let uneval = if a.thorough { j % 5 == 0 } else { j % 20 == 0 };
            let len = r.range(1, 8);
            let ops: Vec<String> = (0..len)
                .map(|_| match r.below(12) {
                    0..=2 => format!("(feed {})", gen_pop(&mut r, uneval)),
                    3 => format!("(upd {})", gen_ind(&mut r, &G { uneval, ids: 4, ties: false })),
                    4..=7 => format!("(arch {})", gen_pop(&mut r, uneval)),
                    8..=9 => format!("(into {})", gen_pop(&mut r, uneval)),
                    10 => format!("(push {})", gen_bait(&mut r)),
                    _ => if r.chance(1, 3) { "(pop)".into() } else { format!("(push {})", gen_bait(&mut r)) },
                })
                .collect();
            emit(format!("(bestarch (k {k}) {})", tagged("ops", ops)));
        }
    }
    // 1a. long archive histories with capacities around and beyond the insertion-sort range
    let n_long = if a.thorough { 400 } else { 80 };
    for j in 0..n_long {
        let k = *r.pick(&[1u64, 5, 19, 20, 21, 33, 64]);
        let len = r.range(3, 6);
        let ops: Vec<String> = (0..len)
            .map(|_| {
                let n = r.range(15, 40);
                let g = G { uneval: false, ids: 80, ties: j % 2 == 0 };
                let p = list((0..n).map(|_| gen_ind(&mut r, &g)));
                if r.chance(1, 5) { format!("(into {p})") } else { format!("(arch {p})") }
            })
            .collect();
        emit(format!("(bestarch (k {k}) {})", tagged("ops", ops)));
    }
    // 1b. scoped trees
    let n_scoped = if a.thorough { 8000 } else { 1500 };
    for _ in 0..n_scoped {
        let mut budget = 14;
        let items = gen_items(&mut r, 4, &mut budget);
        emit(format!("(scoped {})", tagged("prog", items)));
    }
    // 2. run level
    let seeds: u64 = if a.thorough { 10 } else { 2 };
    let iters = if a.thorough { 10 } else { 6 };
    for name in TEMPLATES {
        for v in 0..N_VARIANTS {
            for i in 0..N_INSTANCES {
                for k in 0..seeds {
                    let seed = a.seed * 1000 + k;
                    let ek = if (v + i + k as u32) % 4 == 0 { "par" } else { "seq" };
                    emit(format!("(run {name} {v} {i} {iters} {seed} {ek})"));
                }
            }
        }
    }
    out.finish();
}
