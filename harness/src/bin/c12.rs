//! C12 — replacement operators. Runs the real component (`execute` on a `State` holding
//! `Populations` + `Random`) on prepared population stacks of uniquely tagged individuals and prints
//! the outcome and the whole stack afterwards.
//!
//! input  `(rep (op NAME [mu]) (seed S) (stack (pop (tag obj)*)*) [(via replace)])`   stack top first; obj = xHEX | u
//! output `((res ok|(e exec)|panic) (stack (pop …)*))`
//! With `(via replace)` the component is built with `from_params` and the public trait method
//! `Replacement::replace` is called directly on the two populations (sites `<Op>/replace`); the output
//! stack is `(stack (pop r))` for `Ok(r)` and `(stack)` otherwise.
//!
//! input  `(freq (mu M) (a A) (b B) (runs N) (seed S))` — frequency oracle for "mu random ones": the real
//! `RandomReplacement` is executed N times with N different seeds on A parents and B offspring;
//! output `((counts c*) (pairs p*) (distinct D) (bad K))`: survivals per input position, joint survivals
//! per pair of positions (upper triangle, row by row), number of distinct results, number of runs that
//! did not return Ok with min(M, A+B) individuals.
use hcommon::problems::TagProblem;
use hcommon::*;
use mahf::components::replacement::*;
use mahf::state::common::Populations;
use mahf::{Component, Individual, Random, SingleObjective, State};

type P = TagProblem;

fn ind_s(i: &Individual<P>) -> String {
    let o = match i.get_objective() {
        Some(o) => fx(o.value()),
        None => "u".into(),
    };
    list([i.solution().to_string(), o])
}
fn pop_s(p: &[Individual<P>]) -> String {
    tagged("pop", p.iter().map(ind_s))
}
fn mk_ind(s: &Sx) -> Individual<P> {
    let v = s.items().unwrap();
    let tag = v[0].nat().unwrap();
    match v[1].float() {
        Some(o) => Individual::new(tag, SingleObjective::try_from(o).unwrap()),
        None => Individual::new_unevaluated(tag),
    }
}
fn mk_pop(s: &Sx) -> Vec<Individual<P>> {
    s.head().unwrap().1.iter().map(mk_ind).collect()
}

fn component(op: &[Sx]) -> Box<dyn Component<P>> {
    let name = op[0].atom().unwrap();
    let mu = op.get(1).and_then(|m| m.nat()).unwrap_or(0) as u32;
    match name {
        "discard" => DiscardOffspring::new(),
        "generational" => Generational::new(mu),
        "merge" => Merge::new(),
        "mupl" => MuPlusLambda::new(mu),
        "rand" => RandomReplacement::new(mu),
        "keepbetter" => KeepBetterAtIndex::new(),
        _ => panic!("unknown op {name}"),
    }
}

/// Calls `Replacement::replace` directly (not through `execute`) on a component built with `from_params`.
fn run_replace_direct(op: &[Sx], seed: u64, pops: &[Sx]) -> String {
    let name = op[0].atom().unwrap().to_string();
    let mu = op.get(1).and_then(|m| m.nat()).unwrap_or(0) as u32;
    let offspring = mk_pop(&pops[0]);
    let parents = mk_pop(&pops[1]);
    let mut rng = Random::new(seed);
    let r = catch(move || -> mahf::ExecResult<Vec<Individual<P>>> {
        match name.as_str() {
            "discard" => Replacement::<P>::replace(&DiscardOffspring::from_params(), parents, offspring, &mut rng),
            "generational" => Replacement::<P>::replace(&Generational::from_params(mu), parents, offspring, &mut rng),
            "merge" => Replacement::<P>::replace(&Merge::from_params(), parents, offspring, &mut rng),
            "mupl" => Replacement::<P>::replace(&MuPlusLambda::from_params(mu), parents, offspring, &mut rng),
            "rand" => Replacement::<P>::replace(&RandomReplacement::from_params(mu), parents, offspring, &mut rng),
            "keepbetter" => Replacement::<P>::replace(&KeepBetterAtIndex::from_params(), parents, offspring, &mut rng),
            _ => panic!("unknown op {name}"),
        }
    });
    match r {
        Some(Ok(pop)) => list([tagged("res", ["ok".to_string()]), tagged("stack", [pop_s(&pop)])]),
        Some(Err(_)) => list([tagged("res", ["(e exec)".to_string()]), tagged("stack", Vec::<String>::new())]),
        None => list([tagged("res", ["panic".to_string()]), tagged("stack", Vec::<String>::new())]),
    }
}

fn nat_arg(s: &Sx) -> u64 {
    s.head().unwrap().1[0].nat().unwrap()
}

/// Frequency oracle: `(freq (mu M) (a A) (b B) (runs N) (seed S))`.
fn run_freq(a: &[Sx]) -> String {
    let (mu, pa, ob, runs, seed) = (nat_arg(&a[0]), nat_arg(&a[1]) as usize, nat_arg(&a[2]) as usize, nat_arg(&a[3]), nat_arg(&a[4]));
    let n = pa + ob;
    let k = (mu as usize).min(n);
    let mut counts = vec![0u64; n];
    let mut pairs = vec![vec![0u64; n]; n];
    let mut seen = std::collections::BTreeSet::new();
    let mut bad = 0u64;
    let mut seeds = Sm::new(seed);
    let problem = TagProblem;
    let c = RandomReplacement::new::<P>(mu as u32);
    for _ in 0..runs {
        let mut state: State<P> = State::new();
        state.insert(Populations::<P>::new());
        state.insert(Random::new(seeds.next()));
        // position i of parents ++ offspring carries tag i; objective values play no role
        let parents: Vec<Individual<P>> = (0..pa).map(|i| Individual::new(i as u64, SingleObjective::try_from((i % 3) as f64).unwrap())).collect();
        let offspring: Vec<Individual<P>> = (pa..n).map(|i| Individual::new(i as u64, SingleObjective::try_from((i % 2) as f64).unwrap())).collect();
        state.populations_mut().push(parents);
        state.populations_mut().push(offspring);
        let ok = matches!(catch(|| c.execute(&problem, &mut state)), Some(Ok(())));
        let pops = state.populations();
        if !ok || pops.len() != 1 || pops.current().len() != k {
            bad += 1;
            continue;
        }
        let kept: Vec<usize> = pops.current().iter().map(|i| *i.solution() as usize).collect();
        let mut mark = vec![false; n];
        let mut fine = true;
        for &t in &kept {
            if t >= n || mark[t] { fine = false; break; }
            mark[t] = true;
        }
        if !fine { bad += 1; continue; }
        for i in 0..n {
            if mark[i] {
                counts[i] += 1;
                for j in i + 1..n { if mark[j] { pairs[i][j] += 1; } }
            }
        }
        let mut set = kept.clone();
        set.sort();
        seen.insert(set);
    }
    let mut flat = vec![];
    for i in 0..n { for j in i + 1..n { flat.push(pairs[i][j]); } }
    list([
        tagged("counts", counts.iter().map(|c| c.to_string())),
        tagged("pairs", flat.iter().map(|c| c.to_string())),
        tagged("distinct", [seen.len().to_string()]),
        tagged("bad", [bad.to_string()]),
    ])
}

fn run_case(input: &Sx) -> String {
    let (tag, a) = input.head().unwrap();
    if tag == "freq" {
        return run_freq(a);
    }
    if a.len() == 4 {
        let op = a[0].head().unwrap().1;
        let seed = a[1].head().unwrap().1[0].nat().unwrap();
        return run_replace_direct(op, seed, a[2].head().unwrap().1);
    }
    let op = a[0].head().unwrap().1;
    let seed = a[1].head().unwrap().1[0].nat().unwrap();
    let pops = a[2].head().unwrap().1;
    let mut state: State<P> = State::new();
    state.insert(Populations::<P>::new());
    state.insert(Random::new(seed));
    for p in pops.iter().rev() {
        state.populations_mut().push(mk_pop(p));
    }
    let c = component(op);
    let problem = TagProblem;
    let res = match catch(|| c.execute(&problem, &mut state)) {
        Some(Ok(())) => "ok".to_string(),
        Some(Err(_)) => "(e exec)".to_string(),
        None => "panic".to_string(),
    };
    let pops = state.populations();
    let stack = (0..pops.len()).map(|d| pop_s(pops.peek(d)));
    list([tagged("res", [res]), tagged("stack", stack)])
}

fn site_of_input(input: &str) -> String {
    let sx = Sx::parse(input).unwrap();
    let (tag, a) = sx.head().unwrap();
    if tag == "freq" {
        return "RandomReplacement/freq".to_string();
    }
    let op = a[0].head().unwrap().1[0].atom().unwrap().to_string();
    let base = site(&op, is_malformed(input));
    if a.len() == 4 { format!("{base}/replace") } else { base }
}

fn site(op: &str, malformed: bool) -> String {
    let n = match op {
        "discard" => "DiscardOffspring",
        "generational" => "Generational",
        "merge" => "Merge",
        "mupl" => "MuPlusLambda",
        "rand" => "RandomReplacement",
        _ => "KeepBetterAtIndex",
    };
    if malformed { format!("{n}/malformed") } else { n.to_string() }
}

/// Outside the property's quantifier: fewer than two populations, or an unevaluated individual
/// among the two top populations.
fn is_malformed(input: &str) -> bool {
    let sx = Sx::parse(input).unwrap();
    let pops = sx.head().unwrap().1[2].head().unwrap().1;
    pops.len() < 2 || pops[..2].iter().any(|p| p.head().unwrap().1.iter().any(|i| i.items().unwrap()[1].atom() == Some("u")))
}

/// `(pop (tag obj)*)` with tags `base+1..` and the given objective values (`None` = unevaluated).
fn pop_str(base: u64, objs: &[Option<f64>]) -> String {
    tagged("pop", objs.iter().enumerate().map(|(i, o)| {
        list([(base + 1 + i as u64).to_string(), o.map(fx).unwrap_or("u".into())])
    }))
}

fn all_patterns(size: usize, grid: &[f64]) -> Vec<Vec<Option<f64>>> {
    let mut out = vec![vec![]];
    for _ in 0..size {
        let mut nxt = vec![];
        for p in &out {
            for g in grid {
                let mut q: Vec<Option<f64>> = p.clone();
                q.push(Some(*g));
                nxt.push(q);
            }
        }
        out = nxt;
    }
    out
}

fn main() {
    quiet_panics();
    let a = args();
    let mut out = Out::new();
    if let Some(r) = a.replay {
        let sx = Sx::parse(&r).expect("bad replay input");
        out.case(&site_of_input(&r), &r, &run_case(&sx));
        out.finish();
        return;
    }
    let out = std::cell::RefCell::new(out);
    let emit = |op: &str, mu: Option<u64>, seed: u64, stack: &[String], direct: bool| {
        let ops = match mu {
            Some(m) => format!("(op {op} {m})"),
            None => format!("(op {op})"),
        };
        let mut parts = vec![ops, format!("(seed {seed})"), tagged("stack", stack.iter().cloned())];
        if direct { parts.push("(via replace)".to_string()); }
        let input = tagged("rep", parts);
        let sx = Sx::parse(&input).unwrap();
        out.borrow_mut().case(&site_of_input(&input), &input, &run_case(&sx));
    };
    let emit_freq = |mu: u64, pa: u64, ob: u64, runs: u64, seed: u64| {
        let input = format!("(freq (mu {mu}) (a {pa}) (b {ob}) (runs {runs}) (seed {seed}))");
        let sx = Sx::parse(&input).unwrap();
        out.borrow_mut().case("RandomReplacement/freq", &input, &run_case(&sx));
    };
    let mut rng = Sm::new(a.seed);
    let grid = [-1.5, 0.0, 2.0];
    let below = pop_str(900, &[Some(7.0), Some(-3.0)]);

    // 1. exhaustive: all pairs of populations of sizes 0..S over the 3-value grid.
    let max_size = if a.thorough { 4 } else { 3 };
    let mut pats = vec![];
    for s in 0..=max_size { pats.extend(all_patterns(s, &grid)); }
    for pp in &pats {
        for oo in &pats {
            let n = (pp.len() + oo.len()) as u64;
            let mut stack = vec![pop_str(100, oo), pop_str(0, pp)];
            if n % 2 == 1 { stack.push(below.clone()); }
            emit("discard", None, 0, &stack, false);
            emit("generational", Some(rng.below(11)), 0, &stack, false);
            emit("merge", None, 0, &stack, false);
            emit("keepbetter", None, 0, &stack, false);
            let mut mus: Vec<u64> = (0..=n + 1).collect();
            if n + 1 < 10 { mus.push(10); }
            for mu in mus { emit("mupl", Some(mu), rng.below(1000), &stack, false); }
        }
    }
    // 2. RandomReplacement: objective values play no role; all size pairs × mu × seeds.
    let n_seeds = if a.thorough { 40 } else { 10 };
    for pa in 0..=4usize {
        for ob in 0..=4usize {
            let pp: Vec<Option<f64>> = (0..pa).map(|_| Some(*rng.pick(&grid))).collect();
            let oo: Vec<Option<f64>> = (0..ob).map(|_| Some(*rng.pick(&grid))).collect();
            let stack = vec![pop_str(100, &oo), pop_str(0, &pp), below.clone()];
            for mu in 0..=10u64 {
                for _ in 0..n_seeds { emit("rand", Some(mu), rng.below(1 << 32), &stack, false); }
            }
        }
    }
    // 3. seeded random: larger populations, wider grid (ties, duplicates, +inf, signed zero), deeper stacks.
    let wide = [-1e300, -7.25, -1.5, -0.0, 0.0, 1e-300, 2.0, 2.0, 3.5, 1e300, f64::INFINITY];
    let n_rand = if a.thorough { 60000 } else { 6000 };
    for _ in 0..n_rand {
        let big = rng.chance(1, 10);
        let pa = rng.below(if big { 40 } else { 9 }) as usize;
        let ob = if rng.chance(1, 3) { pa } else { rng.below(if big { 40 } else { 9 }) as usize };
        let k = 1 + rng.below(wide.len() as u64) as usize;
        let sub: Vec<f64> = (0..k).map(|_| *rng.pick(&wide)).collect();
        let pp: Vec<Option<f64>> = (0..pa).map(|_| Some(*rng.pick(&sub))).collect();
        let oo: Vec<Option<f64>> = (0..ob).map(|_| Some(*rng.pick(&sub))).collect();
        let mut stack = vec![pop_str(100, &oo), pop_str(0, &pp)];
        for d in 0..rng.below(3) { stack.push(pop_str(900 + 10 * d, &[Some(1.0)])); }
        let op = *rng.pick(&["discard", "generational", "merge", "mupl", "mupl", "mupl", "rand", "rand", "keepbetter", "keepbetter"]);
        let mu = match op {
            "mupl" | "rand" | "generational" => Some(rng.below((pa + ob) as u64 + 3)),
            _ => None,
        };
        emit(op, mu, rng.below(1 << 32), &stack, false);
    }
    // 3b. offspring that contain exact clones of parents (same solution and objective), as produced by
    //     `All` selection followed by a variation that leaves some individuals unchanged.
    let n_clone = if a.thorough { 20000 } else { 3000 };
    for _ in 0..n_clone {
        let pa = 1 + rng.below(6) as usize;
        let pobjs: Vec<f64> = (0..pa).map(|_| *rng.pick(&grid)).collect();
        let pp: Vec<String> = pobjs.iter().enumerate().map(|(i, o)| list([(i + 1).to_string(), fx(*o)])).collect();
        let ob = if rng.chance(1, 2) { pa } else { rng.below(7) as usize };
        let oo: Vec<String> = (0..ob).map(|j| {
            if rng.chance(2, 3) { pp[rng.below(pa as u64) as usize].clone() } else { list([(101 + j).to_string(), fx(*rng.pick(&grid))]) }
        }).collect();
        let stack = vec![tagged("pop", oo), tagged("pop", pp)];
        let op = *rng.pick(&["discard", "generational", "merge", "mupl", "mupl", "mupl", "rand", "rand", "keepbetter"]);
        let mu = match op {
            "mupl" | "rand" | "generational" => Some(rng.below((pa + ob) as u64 + 2)),
            _ => None,
        };
        emit(op, mu, rng.below(1 << 32), &stack, false);
    }
    // 3c. duplicates inside one population (same tag and objective several times among the parents and
    //     among the offspring): multiplicities matter for "at most as often as it occurred there".
    let n_dup = if a.thorough { 6000 } else { 800 };
    for _ in 0..n_dup {
        let mk = |rng: &mut Sm, base: u64, n: usize| -> Vec<String> {
            let distinct = 1 + rng.below(3);
            (0..n).map(|_| { let t = rng.below(distinct); list([(base + t).to_string(), fx(grid[(t % 3) as usize])]) }).collect()
        };
        let pa = rng.below(6) as usize;
        let ob = if rng.chance(1, 2) { pa } else { rng.below(6) as usize };
        let pp = mk(&mut rng, 1, pa);
        // offspring share tags with the parents half of the time
        let ob_base = if rng.chance(1, 2) { 1 } else { 101 };
        let oo = mk(&mut rng, ob_base, ob);
        let stack = vec![tagged("pop", oo), tagged("pop", pp)];
        let op = *rng.pick(&["discard", "generational", "merge", "mupl", "mupl", "rand", "rand", "keepbetter"]);
        let mu = match op {
            "mupl" | "rand" | "generational" => Some(rng.below((pa + ob) as u64 + 2)),
            _ => None,
        };
        emit(op, mu, rng.below(1 << 32), &stack, false);
    }
    // 3d. large populations (std's sort and shuffle take other code paths above 20 / 50 elements; shipped
    //     templates use populations of 20..1000) with mu around every interesting cut.
    let n_large = if a.thorough { 1200 } else { 120 };
    for _ in 0..n_large {
        let span = if rng.chance(1, 4) { 370 } else { 120 };
        let pa = 30 + rng.below(span) as usize;
        let ob = match rng.below(4) { 0 => pa, 1 => rng.below(8) as usize, _ => rng.below(200) as usize };
        let k = 1 + rng.below(wide.len() as u64) as usize;
        let few: Vec<f64> = (0..k).map(|_| *rng.pick(&wide)).collect();
        let many = rng.chance(1, 2);
        let val = |rng: &mut Sm| if many { (rng.below(1000) as f64) * 0.5 - 100.0 } else { *rng.pick(&few) };
        let pp: Vec<Option<f64>> = (0..pa).map(|_| Some(val(&mut rng))).collect();
        let oo: Vec<Option<f64>> = (0..ob).map(|_| Some(val(&mut rng))).collect();
        let mut stack = vec![pop_str(10000, &oo), pop_str(0, &pp)];
        if rng.chance(1, 2) { stack.push(below.clone()); }
        let op = *rng.pick(&["merge", "generational", "discard", "mupl", "mupl", "mupl", "mupl", "rand", "rand", "keepbetter"]);
        let n = (pa + ob) as u64;
        let mu = match op {
            "mupl" | "rand" | "generational" => Some(match rng.below(8) {
                0 => 0, 1 => 1, 2 => pa as u64, 3 => n - 1, 4 => n, 5 => n + 1, _ => rng.below(n + 2),
            }),
            _ => None,
        };
        emit(op, mu, rng.below(1 << 32), &stack, false);
    }
    // 3e. mu at the boundaries of u16 / i32 / u32 (max_population_size is a u32 that is cast to usize).
    for mu in [255u64, 256, 65535, 65536, 65537, (1 << 31) - 1, 1 << 31, (1 << 32) - 2, (1 << 32) - 1] {
        for (pa, ob) in [(0usize, 0usize), (1, 0), (0, 1), (2, 3), (5, 5), (12, 30)] {
            let pp: Vec<Option<f64>> = (0..pa).map(|_| Some(*rng.pick(&wide))).collect();
            let oo: Vec<Option<f64>> = (0..ob).map(|_| Some(*rng.pick(&wide))).collect();
            let stack = vec![pop_str(100, &oo), pop_str(0, &pp), below.clone()];
            for op in ["mupl", "rand", "generational"] {
                emit(op, Some(mu), rng.below(1 << 32), &stack, false);
                emit(op, Some(mu), rng.below(1 << 32), &stack[..2], true);
            }
        }
    }
    // 3f. the public trait method `Replacement::replace` called directly on components built with
    //     `from_params` (everything above goes through `new` + `execute`): exhaustive small pairs and random ones.
    for pp in pats.iter().filter(|p| p.len() <= 2) {
        for oo in pats.iter().filter(|p| p.len() <= 2) {
            let n = (pp.len() + oo.len()) as u64;
            let stack = vec![pop_str(100, oo), pop_str(0, pp)];
            for op in ["discard", "merge", "keepbetter"] { emit(op, None, 0, &stack, true); }
            emit("generational", Some(rng.below(4)), 0, &stack, true);
            for mu in 0..=n + 1 {
                emit("mupl", Some(mu), rng.below(1000), &stack, true);
                emit("rand", Some(mu), rng.below(1 << 32), &stack, true);
            }
        }
    }
    let n_direct = if a.thorough { 8000 } else { 1000 };
    for _ in 0..n_direct {
        let pa = rng.below(12) as usize;
        let ob = if rng.chance(1, 3) { pa } else { rng.below(12) as usize };
        let unevaluated = rng.chance(1, 12);
        let val = |rng: &mut Sm| if unevaluated && rng.chance(1, 4) { None } else { Some(*rng.pick(&wide)) };
        let pp: Vec<Option<f64>> = (0..pa).map(|_| val(&mut rng)).collect();
        let oo: Vec<Option<f64>> = (0..ob).map(|_| val(&mut rng)).collect();
        let stack = vec![pop_str(100, &oo), pop_str(0, &pp)];
        let op = *rng.pick(&["discard", "generational", "merge", "mupl", "mupl", "rand", "keepbetter", "keepbetter"]);
        let mu = match op {
            "mupl" | "rand" | "generational" => Some(rng.below((pa + ob) as u64 + 3)),
            _ => None,
        };
        emit(op, mu, rng.below(1 << 32), &stack, true);
    }
    // 5. frequency oracle for RandomReplacement ("mu random ones"): every position of parents ++ offspring
    //    survives min(mu, n)/n of the time, every pair min(mu,n)(min(mu,n)-1)/(n(n-1)) of the time, and the
    //    outcome depends on the seed.
    let runs = if a.thorough { 8000 } else { 2000 };
    for (pa, ob) in [(1u64, 1u64), (2, 2), (3, 1), (1, 3), (4, 4), (5, 2), (2, 6), (0, 5), (6, 0), (7, 5)] {
        let n = pa + ob;
        let mut mus = vec![1, n / 2, pa.max(1), n - 1, n, n + 3];
        mus.sort();
        mus.dedup();
        for mu in mus {
            if mu == 0 { continue; }
            emit_freq(mu, pa, ob, runs, rng.below(1 << 32));
        }
    }
    // 4. malformed stream (outside the property's quantifier): fewer than two populations,
    //    unevaluated individuals. Only the model's prediction (Err / panic / stack left) is compared.
    let n_mal = if a.thorough { 4000 } else { 600 };
    for _ in 0..n_mal {
        let op = *rng.pick(&["discard", "generational", "merge", "mupl", "rand", "keepbetter"]);
        let mu = match op { "mupl" | "rand" | "generational" => Some(rng.below(6)), _ => None };
        let height = if rng.chance(1, 2) { rng.below(2) } else { 2 + rng.below(2) };
        let mut stack = vec![];
        for d in 0..height {
            let n = rng.below(4) as usize;
            let objs: Vec<Option<f64>> = (0..n).map(|_| if rng.chance(1, 4) { None } else { Some(*rng.pick(&grid)) }).collect();
            stack.push(pop_str(100 * d, &objs));
        }
        emit(op, mu, rng.below(1 << 32), &stack, false);
    }
    out.into_inner().finish();
}
