//! C12 — replacement operators. Runs the real component (`execute` on a `State` holding
//! `Populations` + `Random`) on prepared population stacks of uniquely tagged individuals and prints
//! the outcome and the whole stack afterwards.
//!
//! input  `(rep (op NAME [mu]) (seed S) (stack (pop (tag obj)*)*))`   stack top first; obj = xHEX | u
//! output `((res ok|(e exec)|panic) (stack (pop …)*))`
use hcommon::problems::TagProblem;
use hcommon::*;
use mahf::components::replacement::*;
use mahf::state::common::Populations;
use mahf::{Component, Individual, Random, SingleObjective, State};

type P = TagProblem;

fn ind_s(i: &Individual<P>) -> String {
    let o = match i.get_objective() {
        Some(o) => fx(o.value()),
        None => "u".into(),
    };
    list([i.solution().to_string(), o])
}
fn pop_s(p: &[Individual<P>]) -> String {
    tagged("pop", p.iter().map(ind_s))
}
fn mk_ind(s: &Sx) -> Individual<P> {
    let v = s.items().unwrap();
    let tag = v[0].nat().unwrap();
    match v[1].float() {
        Some(o) => Individual::new(tag, SingleObjective::try_from(o).unwrap()),
        None => Individual::new_unevaluated(tag),
    }
}
fn mk_pop(s: &Sx) -> Vec<Individual<P>> {
    s.head().unwrap().1.iter().map(mk_ind).collect()
}

fn component(op: &[Sx]) -> Box<dyn Component<P>> {
    let name = op[0].atom().unwrap();
    let mu = op.get(1).and_then(|m| m.nat()).unwrap_or(0) as u32;
    match name {
        "discard" => DiscardOffspring::new(),
        "generational" => Generational::new(mu),
        "merge" => Merge::new(),
        "mupl" => MuPlusLambda::new(mu),
        "rand" => RandomReplacement::new(mu),
        "keepbetter" => KeepBetterAtIndex::new(),
        _ => panic!("unknown op {name}"),
    }
}

fn run_case(input: &Sx) -> String {
    let (_, a) = input.head().unwrap();
    let op = a[0].head().unwrap().1;
    let seed = a[1].head().unwrap().1[0].nat().unwrap();
    let pops = a[2].head().unwrap().1;
    let mut state: State<P> = State::new();
    state.insert(Populations::<P>::new());
    state.insert(Random::new(seed));
    for p in pops.iter().rev() {
        state.populations_mut().push(mk_pop(p));
    }
    let c = component(op);
    let problem = TagProblem;
    let res = match catch(|| c.execute(&problem, &mut state)) {
        Some(Ok(())) => "ok".to_string(),
        Some(Err(_)) => "(e exec)".to_string(),
        None => "panic".to_string(),
    };
    let pops = state.populations();
    let stack = (0..pops.len()).map(|d| pop_s(pops.peek(d)));
    list([tagged("res", [res]), tagged("stack", stack)])
}

fn site(op: &str, malformed: bool) -> String {
    let n = match op {
        "discard" => "DiscardOffspring",
        "generational" => "Generational",
        "merge" => "Merge",
        "mupl" => "MuPlusLambda",
        "rand" => "RandomReplacement",
        _ => "KeepBetterAtIndex",
    };
    if malformed { format!("{n}/malformed") } else { n.to_string() }
}

/// Outside the property's quantifier: fewer than two populations, or an unevaluated individual
/// among the two top populations.
fn is_malformed(input: &str) -> bool {
    let sx = Sx::parse(input).unwrap();
    let pops = sx.head().unwrap().1[2].head().unwrap().1;
    pops.len() < 2 || pops[..2].iter().any(|p| p.head().unwrap().1.iter().any(|i| i.items().unwrap()[1].atom() == Some("u")))
}

/// `(pop (tag obj)*)` with tags `base+1..` and the given objective values (`None` = unevaluated).
fn pop_str(base: u64, objs: &[Option<f64>]) -> String {
    tagged("pop", objs.iter().enumerate().map(|(i, o)| {
        list([(base + 1 + i as u64).to_string(), o.map(fx).unwrap_or("u".into())])
    }))
}

fn all_patterns(size: usize, grid: &[f64]) -> Vec<Vec<Option<f64>>> {
    let mut out = vec![vec![]];
    for _ in 0..size {
        let mut nxt = vec![];
        for p in &out {
            for g in grid {
                let mut q: Vec<Option<f64>> = p.clone();
                q.push(Some(*g));
                nxt.push(q);
            }
        }
        out = nxt;
    }
    out
}

fn main() {
    quiet_panics();
    let a = args();
    let mut out = Out::new();
    if let Some(r) = a.replay {
        let sx = Sx::parse(&r).expect("bad replay input");
        let op = sx.head().unwrap().1[0].head().unwrap().1[0].atom().unwrap().to_string();
        out.case(&site(&op, is_malformed(&r)), &r, &run_case(&sx));
        out.finish();
        return;
    }
    let mut emit = |op: &str, mu: Option<u64>, seed: u64, stack: &[String], _stream_malformed: bool| {
        let ops = match mu {
            Some(m) => format!("(op {op} {m})"),
            None => format!("(op {op})"),
        };
        let input = tagged("rep", [ops, format!("(seed {seed})"), tagged("stack", stack.iter().cloned())]);
        let sx = Sx::parse(&input).unwrap();
        out.case(&site(op, is_malformed(&input)), &input, &run_case(&sx));
    };
    let mut rng = Sm::new(a.seed);
    let grid = [-1.5, 0.0, 2.0];
    let below = pop_str(900, &[Some(7.0), Some(-3.0)]);

    // 1. exhaustive: all pairs of populations of sizes 0..S over the 3-value grid.
    let max_size = if a.thorough { 4 } else { 3 };
    let mut pats = vec![];
    for s in 0..=max_size { pats.extend(all_patterns(s, &grid)); }
    for pp in &pats {
        for oo in &pats {
            let n = (pp.len() + oo.len()) as u64;
            let mut stack = vec![pop_str(100, oo), pop_str(0, pp)];
            if n % 2 == 1 { stack.push(below.clone()); }
            emit("discard", None, 0, &stack, false);
            emit("generational", Some(rng.below(11)), 0, &stack, false);
            emit("merge", None, 0, &stack, false);
            emit("keepbetter", None, 0, &stack, false);
            let mut mus: Vec<u64> = (0..=n + 1).collect();
            if n + 1 < 10 { mus.push(10); }
            for mu in mus { emit("mupl", Some(mu), rng.below(1000), &stack, false); }
        }
    }
    // 2. RandomReplacement: objective values play no role; all size pairs × mu × seeds.
    let n_seeds = if a.thorough { 40 } else { 10 };
    for pa in 0..=4usize {
        for ob in 0..=4usize {
            let pp: Vec<Option<f64>> = (0..pa).map(|_| Some(*rng.pick(&grid))).collect();
            let oo: Vec<Option<f64>> = (0..ob).map(|_| Some(*rng.pick(&grid))).collect();
            let stack = vec![pop_str(100, &oo), pop_str(0, &pp), below.clone()];
            for mu in 0..=10u64 {
                for _ in 0..n_seeds { emit("rand", Some(mu), rng.below(1 << 32), &stack, false); }
            }
        }
    }
    // 3. seeded random: larger populations, wider grid (ties, duplicates, +inf, signed zero), deeper stacks.
    let wide = [-1e300, -7.25, -1.5, -0.0, 0.0, 1e-300, 2.0, 2.0, 3.5, 1e300, f64::INFINITY];
    let n_rand = if a.thorough { 60000 } else { 6000 };
    for _ in 0..n_rand {
        let big = rng.chance(1, 10);
        let pa = rng.below(if big { 40 } else { 9 }) as usize;
        let ob = if rng.chance(1, 3) { pa } else { rng.below(if big { 40 } else { 9 }) as usize };
        let k = 1 + rng.below(wide.len() as u64) as usize;
        let sub: Vec<f64> = (0..k).map(|_| *rng.pick(&wide)).collect();
        let pp: Vec<Option<f64>> = (0..pa).map(|_| Some(*rng.pick(&sub))).collect();
        let oo: Vec<Option<f64>> = (0..ob).map(|_| Some(*rng.pick(&sub))).collect();
        let mut stack = vec![pop_str(100, &oo), pop_str(0, &pp)];
        for d in 0..rng.below(3) { stack.push(pop_str(900 + 10 * d, &[Some(1.0)])); }
        let op = *rng.pick(&["discard", "generational", "merge", "mupl", "mupl", "mupl", "rand", "rand", "keepbetter", "keepbetter"]);
        let mu = match op {
            "mupl" | "rand" | "generational" => Some(rng.below((pa + ob) as u64 + 3)),
            _ => None,
        };
        emit(op, mu, rng.below(1 << 32), &stack, false);
    }
    // 3b. offspring that contain exact clones of parents (same solution and objective), as produced by
    //     `All` selection followed by a variation that leaves some individuals unchanged.
    let n_clone = if a.thorough { 20000 } else { 3000 };
    for _ in 0..n_clone {
        let pa = 1 + rng.below(6) as usize;
        let pobjs: Vec<f64> = (0..pa).map(|_| *rng.pick(&grid)).collect();
        let pp: Vec<String> = pobjs.iter().enumerate().map(|(i, o)| list([(i + 1).to_string(), fx(*o)])).collect();
        let ob = if rng.chance(1, 2) { pa } else { rng.below(7) as usize };
        let oo: Vec<String> = (0..ob).map(|j| {
            if rng.chance(2, 3) { pp[rng.below(pa as u64) as usize].clone() } else { list([(101 + j).to_string(), fx(*rng.pick(&grid))]) }
        }).collect();
        let stack = vec![tagged("pop", oo), tagged("pop", pp)];
        let op = *rng.pick(&["discard", "generational", "merge", "mupl", "mupl", "mupl", "rand", "rand", "keepbetter"]);
        let mu = match op {
            "mupl" | "rand" | "generational" => Some(rng.below((pa + ob) as u64 + 2)),
            _ => None,
        };
        emit(op, mu, rng.below(1 << 32), &stack, false);
    }
    // 4. malformed stream (outside the property's quantifier): fewer than two populations,
    //    unevaluated individuals. Only the model's prediction (Err / panic / stack left) is compared.
    let n_mal = if a.thorough { 4000 } else { 600 };
    for _ in 0..n_mal {
        let op = *rng.pick(&["discard", "generational", "merge", "mupl", "rand", "keepbetter"]);
        let mu = match op { "mupl" | "rand" | "generational" => Some(rng.below(6)), _ => None };
        let height = if rng.chance(1, 2) { rng.below(2) } else { 2 + rng.below(2) };
        let mut stack = vec![];
        for d in 0..height {
            let n = rng.below(4) as usize;
            let objs: Vec<Option<f64>> = (0..n).map(|_| if rng.chance(1, 4) { None } else { Some(*rng.pick(&grid)) }).collect();
            stack.push(pop_str(100 * d, &objs));
        }
        emit(op, mu, rng.below(1 << 32), &stack, true);
    }
    out.finish();
}
