//! C02 — dynamic borrows. Keeps live `Ref`/`RefMut` guards of the REAL `State` in a `Vec` while issuing
//! further requests through `&State`; `&mut State` statements (`ex …`) are executed only when no guard is
//! alive (Rust would not compile otherwise — the request is answered `illegal` without touching the state).
#[macro_use]
#[path = "../c01_reg.rs"]
mod reg;
use std::cell::{Ref, RefMut};

use hcommon::*;
use mahf::State;
use reg::*;

enum G<'a> { R(Ref<'a, u64>), W(RefMut<'a, u64>) }
struct Live<'a> { id: u64, idx: usize, key: u64, g: G<'a> }
impl Live<'_> {
    fn value(&self) -> u64 { match &self.g { G::R(r) => **r, G::W(w) => **w } }
    fn excl(&self) -> bool { matches!(self.g, G::W(_)) }
}

fn idx_of(st: &Rg, target: *const Rg) -> usize {
    chain(st).iter().position(|s| std::ptr::eq(*s as *const Rg, target)).expect("found registry is in the chain")
}

/// `parent()^d . try_borrow(_mut)::<K>()`, or the panicking variants; with `value` the guard comes from the
/// `*_value` accessors (`try_borrow_value`, `borrow_value`, `try_borrow_value_mut`, `borrow_value_mut`), which hand
/// out a `Ref<T::Target>` / `RefMut<T::Target>` on the same cell.
fn borrow<'a>(st: &'a St, d: u64, k: u64, excl: bool, panicking: bool, value: bool) -> Result<(usize, G<'a>), String> {
    let mut r: &'a Rg = &**st;
    for _ in 0..d { match r.parent() { Some(p) => r = p, None => return Err("noparent".into()) } }
    with_key!(k, T => {
        if excl {
            let g: RefMut<'a, u64> = match (value, panicking) {
                (false, true) => match catch(|| r.borrow_mut::<T>()) { Some(g) => RefMut::map(g, |x| &mut x.0), None => return Err("panic".into()) },
                (false, false) => match r.try_borrow_mut::<T>() { Ok(g) => RefMut::map(g, |x| &mut x.0), Err(e) => return Err(err_s(&e)) },
                (true, true) => match catch(|| r.borrow_value_mut::<T>()) { Some(g) => g, None => return Err("panic".into()) },
                (true, false) => match r.try_borrow_value_mut::<T>() { Ok(g) => g, Err(e) => return Err(err_s(&e)) },
            };
            let at = r.find::<T>().map(|x| x as *const Rg).unwrap();
            Ok((idx_of(st, at), G::W(g)))
        } else {
            let g: Ref<'a, u64> = match (value, panicking) {
                (false, true) => match catch(|| r.borrow::<T>()) { Some(g) => Ref::map(g, |x| &x.0), None => return Err("panic".into()) },
                (false, false) => match r.try_borrow::<T>() { Ok(g) => Ref::map(g, |x| &x.0), Err(e) => return Err(err_s(&e)) },
                (true, true) => match catch(|| r.borrow_value::<T>()) { Some(g) => g, None => return Err("panic".into()) },
                (true, false) => match r.try_borrow_value::<T>() { Ok(g) => g, Err(e) => return Err(err_s(&e)) },
            };
            let at = r.find::<T>().map(|x| x as *const Rg).unwrap();
            Ok((idx_of(st, at), G::R(g)))
        }
    })
}

fn locks_s(st: &St, live: &[Live]) -> String {
    tagged("locks", chain(st).into_iter().enumerate().map(|(i, s)| {
        list(map_s(s, true, &|k| live.iter().find(|l| l.idx == i && l.key == k && l.excl()).map(|l| l.value())))
    }))
}

fn n(a: &[Sx], i: usize) -> u64 { a[i].nat().expect("nat argument") }

fn run_case(input: &Sx) -> String {
    let (_, ops) = input.head().unwrap();
    let mut state: St = State::new();
    let mut outs: Vec<String> = vec![];
    let mut next = 0u64;
    let mut i = 0;
    while i < ops.len() {
        let (name, a) = ops[i].head().unwrap();
        if name == "ex" {
            exec_stmt(&mut state, &a[0], &mut outs);
            i += 1;
            continue;
        }
        // a phase in which the state is only shared: guards may be alive
        let st: &St = &state;
        let mut live: Vec<Live> = vec![];
        while i < ops.len() {
            let (name, a) = ops[i].head().unwrap();
            match name {
                "ex" => { if live.is_empty() { break; } outs.push("illegal".into()); }
                "bor" | "bormut" | "borp" | "bormutp" | "parbor" | "parbormut"
                | "borv" | "borvmut" | "borvp" | "borvmutp" | "parborv" | "parborvmut" => {
                    let (d, k) = if name.starts_with("par") { (n(a, 0), n(a, 1)) } else { (0, n(a, 0)) };
                    match borrow(st, d, k, name.contains("mut"), name.ends_with('p'), name.contains("borv")) {
                        Ok((idx, g)) => { live.push(Live { id: next, idx, key: k, g }); outs.push(format!("(g {next})")); next += 1; }
                        Err(e) => outs.push(e),
                    }
                }
                "drop" => match live.iter().position(|l| l.id == n(a, 0)) {
                    Some(p) => { drop(live.remove(p)); outs.push("ok".into()); }
                    None => outs.push("invalid".into()),
                },
                "rd" => match live.iter().find(|l| l.id == n(a, 0)) {
                    Some(l) => outs.push(val(l.value())),
                    None => outs.push("invalid".into()),
                },
                "wr" => match live.iter_mut().find(|l| l.id == n(a, 0)) {
                    Some(Live { g: G::W(w), .. }) => { **w = n(a, 1); outs.push("ok".into()); }
                    _ => outs.push("invalid".into()),
                },
                "sh" => outs.push(exec_shared(st, &a[0]).unwrap_or("illegal".into())),
                "locks" => outs.push(locks_s(st, &live)),
                other => panic!("unknown machine op {other}"),
            }
            i += 1;
        }
    }
    tagged("outs", outs)
}

// ------------------------------------------------------------------------------------------------ generators
fn product(alpha: &[String], len: usize, mut f: impl FnMut(Vec<String>)) {
    let mut idx = vec![0usize; len];
    loop {
        f(idx.iter().map(|&i| alpha[i].clone()).collect());
        let mut k = 0;
        while k < len { idx[k] += 1; if idx[k] < alpha.len() { break; } idx[k] = 0; k += 1; }
        if k == len { break; }
    }
}

fn guard_alphabet(full: bool) -> Vec<String> {
    let mut v: Vec<String> = ["(bor 0)", "(bormut 0)", "(bor 1)", "(parbor 1 0)", "(parbormut 1 0)", "(drop 0)", "(drop 1)",
        "(rd 0)", "(wr 0 9)", "(sh (tryget 0))", "(sh (set 0 7))"].iter().map(|s| s.to_string()).collect();
    if full {
        v.extend(["(bormut 1)", "(borp 0)", "(bormutp 0)", "(parbor 1 1)", "(parbor 2 0)", "(drop 2)", "(rd 1)", "(wr 1 8)",
            "(sh (get 0))", "(sh (set 1 6))", "(sh (parget 1 0))", "(ex (ins 0 5))", "(ex (rem 0))", "(sh (has 0))"].iter().map(|s| s.to_string()));
    }
    v
}

/// Guards handed out by the `*_value` accessors next to guards of the plain accessors on the same cells.
fn value_guard_alphabet() -> Vec<String> {
    ["(borv 0)", "(borvmut 0)", "(bor 0)", "(bormut 0)", "(borvp 0)", "(borvmutp 0)", "(parborv 1 0)", "(parborvmut 1 0)",
     "(borv 1)", "(drop 0)", "(drop 1)", "(rd 0)", "(wr 0 9)", "(sh (tryget 0))", "(sh (set 0 7))"].iter().map(|s| s.to_string()).collect()
}

/// All statements of nesting depth `depth` (exactly): at each level a helper kind, ok/err, one body operation.
fn nests(depth: usize, body_ops: &[&str]) -> Vec<(String, bool)> {
    let mut out = vec![];
    fn go(level: usize, depth: usize, body_ops: &[&str], held: &mut Vec<u64>, out: &mut Vec<(String, bool)>, wrap: &dyn Fn(String) -> String, same: bool) {
        for kind in 0..3u64 {
            for ok in ["ok", "err"] {
                for bop in body_ops {
                    let same2 = same || (kind < 2 && held.contains(&kind));
                    let head = if kind < 2 { format!("hold {kind} {} {ok}", level + 1) } else { format!("inner {ok}") };
                    let pre = if bop.is_empty() { String::new() } else { format!(" {bop}") };
                    if level + 1 == depth {
                        out.push((wrap(format!("({head}{pre} (tryget 0) (tryget 1))")), same2));
                    } else {
                        if kind < 2 { held.push(kind); }
                        let w = |inner: String| wrap(format!("({head}{pre} {inner} (tryget 0))"));
                        go(level + 1, depth, body_ops, held, out, &w, same2);
                        if kind < 2 { held.pop(); }
                    }
                }
            }
        }
    }
    go(0, depth, body_ops, &mut vec![], &mut out, &|s| s, false);
    out
}

struct Gen { rng: Sm, live: Vec<u64>, next: u64, held: Vec<u64> }
impl Gen {
    fn key(&mut self) -> u64 { if self.rng.chance(3, 4) { self.rng.below(2) } else { self.rng.below(4) } }
    fn rop_mut(&mut self) -> String {
        let (k, v) = (self.key(), self.rng.range(1, 50));
        match self.rng.below(14) {
            // value access next to a guard on the same type (guard acquired, access, guard dropped)
            12 => format!("(gset {k} {v})"),
            13 => format!("(gget {k})"),
            0..=2 => format!("(ins {k} {v})"),
            3 => format!("(rem {k})"),
            4 => format!("(ent-mod-orins {k} 1 {v})"),
            5 => format!("(occ-rem {k})"),
            6 => format!("(getmut {k} {v})"),
            7 => "(push)".into(),
            8 => "(pop)".into(),
            9 => format!("({} ({} {}) 1)", if self.rng.chance(1, 3) { "multip" } else { "multi" }, self.rng.below(4), self.rng.below(4)),
            10 => format!("(set {k} {v})"),
            _ => format!("(tryget {k})"),
        }
    }
    fn body(&mut self, depth: u64) -> String {
        let n = self.rng.below(4);
        let mut parts = vec![];
        for _ in 0..n { parts.push(self.stmt(depth)); }
        parts.join(" ")
    }
    fn stmt(&mut self, depth: u64) -> String {
        if depth >= 3 || self.rng.chance(2, 3) {
            loop {
                let o = self.rop_mut();
                if depth > 0 && (o == "(push)" || o == "(pop)") { continue; }
                return o;
            }
        }
        let ok = if self.rng.chance(2, 3) { "ok" } else { "err" };
        if self.rng.chance(2, 3) {
            // nested holding of the SAME type is the recorded finding (site holding-samekey): not generated here
            let k = self.key();
            if self.held.contains(&k) { return format!("(tryget {k})"); }
            self.held.push(k);
            let s = format!("(hold {k} {} {ok} {})", self.rng.below(3), self.body(depth + 1));
            self.held.pop();
            s
        } else {
            format!("(inner {ok} {})", self.body(depth + 1))
        }
    }
    fn mop(&mut self) -> String {
        let k = self.key();
        let g = if !self.live.is_empty() && self.rng.chance(9, 10) { *self.rng.pick(&self.live) } else { self.rng.below(self.next + 1) };
        match self.rng.below(100) {
            0..=9 => format!("(bor {k})"),
            10..=13 => format!("(borv {k})"),
            14..=20 => format!("(bormut {k})"),
            21..=23 => format!("(borvmut {k})"),
            24 => format!("(borp {k})"),
            25 => format!("(borvp {k})"),
            26 => format!("(bormutp {k})"),
            27 => format!("(borvmutp {k})"),
            28..=31 => format!("(parbor {} {k})", self.rng.below(5)),
            32..=33 => format!("(parborv {} {k})", self.rng.below(5)),
            34..=36 => format!("(parbormut {} {k})", self.rng.below(5)),
            37 => format!("(parborvmut {} {k})", self.rng.below(5)),
            38..=55 => { self.live.retain(|&x| x != g); format!("(drop {g})") }
            56..=63 => format!("(rd {g})"),
            64..=71 => format!("(wr {g} {})", self.rng.range(1, 50)),
            72..=75 => format!("(sh (tryget {k}))"),
            76..=78 => format!("(sh (get {k}))"),
            79..=82 => format!("(sh (set {k} {}))", self.rng.range(1, 50)),
            83 => format!("(sh (parget {} {k}))", self.rng.below(5)),
            84 => format!("(sh (find {k}))"),
            85..=86 => "(locks)".into(),
            // a multi-borrow through a random public entry point on a random `parent_mut()`
            87..=88 => {
                let via = *self.rng.pick(&["reg", "regp", "tup", "st", "stp", "sttup"]);
                let dist = if via.starts_with("st") { 0 } else { self.rng.below(4) };
                let n = self.rng.range(2, 3);
                let ks: Vec<u64> = (0..n).map(|_| self.rng.below(4)).collect();
                format!("(ex (multiv {via} {dist} {} {}))", nats(ks), self.rng.range(1, 3))
            }
            _ => format!("(ex {})", self.stmt(0)),
        }
    }
}

fn main() {
    quiet_panics();
    let a = args();
    let mut out = Out::new();
    if let Some(r) = a.replay {
        let sx = Sx::parse(&r).expect("bad replay input");
        out.case("replay", &r, &run_case(&sx));
        out.finish();
        return;
    }
    let mut emit = |site: &str, ops: Vec<String>| {
        let input = tagged("mops", ops);
        let sx = Sx::parse(&input).unwrap_or_else(|| panic!("generator produced bad input {input}"));
        out.case(site, &input, &run_case(&sx));
    };
    let ex = |s: &str| format!("(ex {s})");

    // 1. exhaustive guard interleavings over 2 types x 2..3 scopes
    let prefixes: Vec<Vec<String>> = vec![
        vec![ex("(ins 0 1)"), ex("(ins 1 2)")],
        vec![ex("(ins 0 1)"), ex("(ins 1 2)"), ex("(push)"), ex("(ins 0 3)")],
        vec![ex("(ins 0 1)"), ex("(push)"), ex("(ins 0 3)"), ex("(ins 1 4)"), ex("(push)")],
    ];
    let plans: Vec<(&str, bool, usize)> = if a.thorough { vec![("guards4", true, 4), ("guards5", false, 5)] }
                                          else { vec![("guards3", true, 3), ("guards4", false, 4)] };
    for (site, full, len) in plans {
        let alpha = guard_alphabet(full);
        for (pi, prefix) in prefixes.iter().enumerate() {
            if a.thorough && pi == 0 && len >= 5 { continue; } // longest sequences: only the layouts with nested scopes
            product(&alpha, len, |seq| {
                let mut ops = prefix.clone();
                ops.extend(seq);
                ops.push("(locks)".into());
                emit(site, ops);
            });
        }
    }

    // 1b. the `*_value` accessors as guard sources, mixed with the plain ones
    {
        let alpha = value_guard_alphabet();
        let len = if a.thorough { 4 } else { 3 };
        for prefix in &prefixes {
            product(&alpha, len, |seq| {
                let mut ops = prefix.clone();
                ops.extend(seq);
                ops.push("(locks)".into());
                emit("vguards", ops);
            });
        }
    }

    // 2. multi-borrow: every tuple of arity 2..8 over 2 types, 2..4 over 4 types, a fixed set over 8 types,
    //    each with every subset of the universe present (sampled for 8 types), flat and split over two scopes
    //    and through EVERY public entry point: `multi` / `multip` = StateRegistry::try_get_multiple_mut / get_multiple_mut
    //    (sites multi-u*), `tup` = the trait method MultiStateTuple::try_get_mut called directly (sites multi-trait-u*),
    //    `st` / `stp` / `sttup` = the same three on the `State` wrapper (sites multi-state-u*)
    let multi_case1 = |keys: &[u64], present: &[u64], split: bool, via: &str| -> Vec<String> {
        let mut ops = vec![];
        if split {
            for &k in present.iter().filter(|k| *k % 2 == 0) { ops.push(ex(&format!("(ins {k} {})", 10 + k))); }
            if let Some(&k) = present.first() { ops.push(ex(&format!("(ins {k} {})", 30 + k))); }
            ops.push(ex("(push)"));
            for &k in present.iter().filter(|k| *k % 2 == 1) { ops.push(ex(&format!("(ins {k} {})", 10 + k))); }
            if let Some(&k) = present.first() { ops.push(ex(&format!("(ins {k} {})", 20 + k))); }
        } else {
            for &k in present { ops.push(ex(&format!("(ins {k} {})", 10 + k))); }
        }
        ops.push(ex(&match via {
            "multi" | "multip" => format!("({via} {} 1)", nats(keys.iter().cloned())),
            _ => format!("(multiv {via} 0 {} 1)", nats(keys.iter().cloned())),
        }));
        ops.push("(locks)".into());
        ops
    };
    // (entry point, site prefix, all subsets of the universe present?)
    let routes: [(&str, &str, bool); 6] = [("multi", "multi", true), ("multip", "multi", true), ("tup", "multi-trait", true),
        ("st", "multi-state", false), ("stp", "multi-state", false), ("sttup", "multi-state", false)];
    for (uname, uni, max_arity) in [("u2", 2u64, 8usize), ("u4", 4, 4)] {
        for arity in 2..=max_arity {
            let alpha: Vec<String> = (0..uni).map(|k| k.to_string()).collect();
            let mut tuples = vec![];
            product(&alpha, arity, |t| tuples.push(t.iter().map(|x| x.parse::<u64>().unwrap()).collect::<Vec<_>>()));
            for t in tuples {
                for mask in 0..(1u64 << uni) {
                    let present: Vec<u64> = (0..uni).filter(|k| mask >> k & 1 == 1).collect();
                    let full = mask + 1 == 1 << uni;
                    for (via, prefix, all_masks) in routes {
                        // the State wrapper over 4 types: everything present or exactly one type missing
                        if !all_masks && uni > 2 && !a.thorough && present.len() + 1 < uni as usize { continue; }
                        let site = format!("{prefix}-{uname}");
                        emit(&site, multi_case1(&t, &present, false, via));
                        if full || a.thorough { emit(&site, multi_case1(&t, &present, true, via)); }
                    }
                }
            }
        }
    }
    let mut rng = Sm::new(a.seed ^ 0x5151);
    for t in U8_TUPLES {
        let all: Vec<u64> = (0..8).collect();
        for (via, prefix, _) in routes {
            let site = format!("{prefix}-u8");
            emit(&site, multi_case1(t, &all, false, via));
            emit(&site, multi_case1(t, &all, true, via));
            for miss in 0..8u64 {
                let present: Vec<u64> = (0..8).filter(|k| *k != miss).collect();
                emit(&site, multi_case1(t, &present, false, via));
            }
        }
        for _ in 0..(if a.thorough { 40 } else { 4 }) {
            let mask = rng.below(256);
            let present: Vec<u64> = (0..8).filter(|k| mask >> k & 1 == 1).collect();
            let sp = rng.chance(1, 2);
            let (via, prefix, _) = *rng.pick(&routes);
            emit(&format!("{prefix}-u8"), multi_case1(t, &present, sp, via));
        }
    }

    // 2b. the entry points on a registry reached by `parent_mut()`: three scopes, five layouts (shadowing, types only
    //     below / only above the addressed registry, empty scopes), every tuple of arity 2..3 (thorough: ..4) over 4
    //     types, each registry entry point, every distance 0..3 (3 = no such parent)
    {
        let layouts: [[&[u64]; 3]; 5] = [
            [&[0, 1, 2, 3], &[0], &[1]],
            [&[0], &[1, 2], &[3]],
            [&[], &[0, 1], &[0, 1, 2, 3]],
            [&[0, 1], &[], &[]],
            [&[2, 3], &[0, 1], &[0]],
        ];
        let alpha: Vec<String> = (0..4).map(|k| k.to_string()).collect();
        for arity in 2..=(if a.thorough { 4 } else { 3 }) {
            let mut tuples = vec![];
            product(&alpha, arity, |t| tuples.push(t.iter().map(|x| x.parse::<u64>().unwrap()).collect::<Vec<_>>()));
            for t in &tuples {
                for lay in &layouts {
                    for via in ["reg", "regp", "tup"] {
                        for dist in 0..=3u64 {
                            let mut ops = vec![];
                            for (lvl, scope) in lay.iter().enumerate() {
                                if lvl > 0 { ops.push(ex("(push)")); }
                                for &k in scope.iter() { ops.push(ex(&format!("(ins {k} {})", 10 * lvl as u64 + k + 1))); }
                            }
                            ops.push(ex(&format!("(multiv {via} {dist} {} 1)", nats(t.iter().cloned()))));
                            ops.push("(locks)".into());
                            emit("multi-parent", ops);
                        }
                    }
                }
            }
        }
    }

    // 3. nestings of holding / with_inner_state to depth 3, ok/err at each level
    let body_ops: Vec<&str> = if a.thorough { vec!["", "(ins 0 9)", "(rem 0)", "(set 1 7)", "(ins 1 8)", "(rem 1)", "(gset 1 5)", "(gget 0)"] }
                              else { vec!["", "(ins 0 9)", "(rem 1)"] };
    let hprefixes: Vec<Vec<String>> = vec![
        vec![ex("(ins 0 1)"), ex("(ins 1 2)")],
        vec![ex("(ins 0 1)"), ex("(ins 1 2)"), ex("(push)"), ex("(ins 0 3)")],
        vec![ex("(ins 0 1)"), ex("(push)"), ex("(ins 1 2)"), ex("(push)")],
    ];
    for depth in 1..=3 {
        for (stmt, same) in nests(depth, &body_ops) {
            for p in &hprefixes {
                let mut ops = p.clone();
                ops.push(ex(&stmt));
                ops.push("(locks)".into());
                // probes: a stale marker or a misplaced value shows in later holdings
                ops.push(ex("(hold 0 1 ok)"));
                ops.push(ex("(hold 1 1 ok)"));
                ops.push("(locks)".into());
                // a marker left in an inner scope misleads a later holding of the value further out
                ops.push(ex("(rem 0)"));
                ops.push(ex("(hold 0 1 ok)"));
                ops.push(ex("(rem 1)"));
                ops.push(ex("(hold 1 1 ok)"));
                ops.push("(locks)".into());
                emit(if same { "holding-samekey" } else { "holding" }, ops);
            }
        }
    }

    // 4. seeded random machine histories
    let n_rand = if a.thorough { 20000 } else { 1000 };
    let mut g = Gen { rng: Sm::new(a.seed), live: vec![], next: 0, held: vec![] };
    for _ in 0..n_rand {
        g.live.clear();
        g.next = 0;
        let len = g.rng.range(20, 80) as usize;
        let mut ops = vec![ex("(ins 0 1)"), ex("(ins 1 2)")];
        // up to 6 scopes; each further scope shadows a random subset of the two main types
        if g.rng.chance(1, 2) { ops.push(ex("(push)")); ops.push(ex("(ins 0 3)")); }
        if g.rng.chance(1, 3) {
            for lvl in 0..g.rng.range(1, 4) {
                ops.push(ex("(push)"));
                for k in 0..2u64 { if g.rng.chance(1, 2) { ops.push(ex(&format!("(ins {k} {})", 60 + 2 * lvl + k))); } }
            }
        }
        for _ in 0..len {
            let o = g.mop();
            // the generator's view of which guards are alive is approximate (it does not know which requests
            // are refused); ids are assigned per grant, so over-approximate
            if o.starts_with("(bor") || o.starts_with("(parbor") { let id = g.next; g.live.push(id); g.next += 1; }
            ops.push(o);
        }
        ops.push("(locks)".into());
        emit("rand", ops);
    }
    out.finish();
}
