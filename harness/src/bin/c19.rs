//! C19 — ant colony. Runs the real `AcoGeneration`, `AsPheromoneUpdate`, `MinMaxPheromoneUpdate`
//! (component by component, as an assembled generation → evaluation → update step, and inside long
//! runs of the two shipped templates) and prints what they did, together with the sampling witness
//! recovered from the produced tours.
use std::any::Any;
use std::io::{BufRead, BufReader, Write};
use std::process::{Child, ChildStdin, Command, Stdio};
use std::sync::mpsc;
use std::time::Duration;

use hcommon::problems::Tsp;
use hcommon::templates::*;
use hcommon::*;
use mahf::components::evaluation::PopulationEvaluator;
use mahf::components::generative::{AcoGeneration, AsPheromoneUpdate, MinMaxPheromoneUpdate, PheromoneMatrix};
use mahf::identifier::{Global, Identifier, A as IdA, B as IdB};
use mahf::problems::{Evaluate, Sequential};
use mahf::state::common::Populations;
use mahf::verif::Phase;
use mahf::{Component, Configuration, Individual, Random, SingleObjective, State};

type P = Tsp;

// ---------------------------------------------------------------- S-expression helpers
fn mat_s(tag: &str, n: usize, v: impl IntoIterator<Item = f64>) -> String {
    tagged(tag, std::iter::once(n.to_string()).chain(v.into_iter().map(fx)))
}
fn parse_mat(s: &Sx) -> (usize, Vec<f64>) {
    let (_, a) = s.head().unwrap();
    (a[0].nat().unwrap() as usize, a[1..].iter().map(|x| x.float().unwrap()).collect())
}
fn tours_s(ts: &[Vec<usize>]) -> String {
    tagged("tours", ts.iter().map(|t| nats(t.iter().map(|c| *c as u64))))
}
/// For every sampled tour the index each city had in `remaining` when it was chosen
/// (`remaining = 1..n`, `Vec::remove` semantics). 999 = the tour cannot be explained.
fn witness(n: usize, ts: &[Vec<usize>]) -> String {
    tagged("wit", ts.iter().skip(1).map(|t| {
        let mut rem: Vec<usize> = (1..n).collect();
        nats(t.iter().skip(1).map(|c| match rem.iter().position(|r| r == c) {
            Some(k) => { rem.remove(k); k as u64 }
            None => 999,
        }))
    }))
}
fn read_pm(state: &State<P>, n: usize) -> Vec<f64> {
    let pm = state.borrow::<PheromoneMatrix>();
    let mut v = Vec::with_capacity(n * n);
    for i in 0..n { for j in 0..n { v.push(pm[i][j]); } }
    v
}
fn make_pm(n: usize, v: &[f64]) -> PheromoneMatrix {
    let mut pm = PheromoneMatrix::new(n, 0.0);
    for i in 0..n { for j in 0..n { pm[i][j] = v[i * n + j]; } }
    pm
}
fn tsp_of(n: usize, v: &[f64]) -> Tsp {
    Tsp::new((0..n).map(|i| v[i * n..(i + 1) * n].to_vec()).collect())
}
fn current_tours(state: &State<P>) -> Vec<Vec<usize>> {
    state.populations().current().iter().map(|i| i.solution().clone()).collect()
}

// ---------------------------------------------------------------- watchdog
// Generation loops (`while !remaining.is_empty()`) may not terminate in a broken implementation and
// then allocate without bound. Cases that run them are executed in a worker *process* (this binary
// with `--worker`, address space limited): a worker that does not answer in time is killed, the case
// is retried once in a fresh worker with a long limit, and only then reported as `timeout`.
extern "C" {
    fn setrlimit(resource: i32, rlim: *const [u64; 2]) -> i32;
}
fn limit_address_space(bytes: u64) {
    const RLIMIT_AS: i32 = 9;
    let lim = [bytes, bytes];
    unsafe { setrlimit(RLIMIT_AS, &lim); }
}
struct Worker { child: Child, stdin: ChildStdin, rx: mpsc::Receiver<String> }
impl Worker {
    fn spawn() -> Worker {
        let mut child = Command::new(std::env::current_exe().unwrap()).arg("--worker")
            .stdin(Stdio::piped()).stdout(Stdio::piped()).stderr(Stdio::null()).spawn().expect("worker");
        let stdin = child.stdin.take().unwrap();
        let stdout = child.stdout.take().unwrap();
        let (tx, rx) = mpsc::channel();
        std::thread::spawn(move || {
            for l in BufReader::new(stdout).lines() {
                let Ok(l) = l else { break };
                if tx.send(l).is_err() { break; }
            }
        });
        Worker { child, stdin, rx }
    }
    fn ask(&mut self, input: &str, secs: u64) -> Option<String> {
        writeln!(self.stdin, "{input}").ok()?;
        self.stdin.flush().ok()?;
        self.rx.recv_timeout(Duration::from_secs(secs)).ok()
    }
    fn kill(mut self) {
        let _ = self.child.kill();
        let _ = self.child.wait();
    }
}
struct Guard { worker: Option<Worker> }
impl Guard {
    /// Output of the case, or `timeout` if two workers failed to produce it (hang or crash).
    fn run(&mut self, input: &str) -> String {
        for secs in [6, 60] {
            let mut w = self.worker.take().unwrap_or_else(Worker::spawn);
            match w.ask(input, secs) {
                Some(o) => { self.worker = Some(w); return o; }
                None => w.kill(),
            }
        }
        "timeout".into()
    }
}
fn worker_main() {
    limit_address_space(6 << 30);
    let stdin = std::io::stdin();
    let stdout = std::io::stdout();
    for l in stdin.lock().lines() {
        let Ok(l) = l else { break };
        let o = match Sx::parse(&l) {
            Some(sx) => catch(|| run_inproc(&sx)).unwrap_or("harness-panic".into()),
            None => "badinput".into(),
        };
        let mut h = stdout.lock();
        let _ = writeln!(h, "{o}");
        let _ = h.flush();
    }
}

// ---------------------------------------------------------------- component-level cases
enum Kind { As(f64, f64), Mmas(f64, f64, f64) }
fn parse_kind(s: &Sx) -> Kind {
    let (h, a) = s.head().unwrap();
    let f = |i: usize| a[i].float().unwrap();
    if h == "as" { Kind::As(f(0), f(1)) } else { Kind::Mmas(f(0), f(1), f(2)) }
}
fn update_component(k: &Kind) -> Result<Box<dyn Component<P>>, ()> {
    match *k {
        Kind::As(rho, c) => Ok(AsPheromoneUpdate::new(rho, c)),
        Kind::Mmas(rho, hi, lo) => MinMaxPheromoneUpdate::new(rho, hi, lo).map_err(|_| ()),
    }
}
fn base_state(problem: &P, n: usize, pm: &[f64], seed: u64) -> State<'static, P> {
    let mut state: State<P> = State::new();
    state.insert(Populations::<P>::new());
    state.populations_mut().push(Vec::new());
    state.insert(Random::new(seed));
    state.insert_evaluator(Sequential::<P>::new());
    PopulationEvaluator::new::<P>().init(problem, &mut state).unwrap();
    state.insert(make_pm(n, pm));
    state
}

/// `(gen (pm ..) (dist ..) (par a b) (ants k) (seed s))`
fn run_gen(a: &[Sx]) -> String {
    let (n, pm) = parse_mat(&a[0]);
    let (_, d) = parse_mat(&a[1]);
    let (_, par) = a[2].head().unwrap();
    let (alpha, beta) = (par[0].float().unwrap(), par[1].float().unwrap());
    let ants = a[3].head().unwrap().1[0].nat().unwrap() as usize;
    let seed = a[4].head().unwrap().1[0].nat().unwrap();
    let problem = tsp_of(n, &d);
    let mut state = base_state(&problem, n, &pm, seed);
    // leftovers of an earlier pass: generation must REPLACE the current population, at the same height
    *state.populations_mut().current_mut() = vec![Individual::new_unevaluated(vec![0]), Individual::new_unevaluated(vec![0])];
    let gen = AcoGeneration::new::<P>(ants, alpha, beta, 1.0);
    match catch(|| gen.execute(&problem, &mut state)) {
        Some(Ok(())) => {
            let ts = current_tours(&state);
            list(["ok".to_string(), tours_s(&ts), witness(n, &ts), format!("(depth {})", state.populations().len())])
        }
        Some(Err(_)) => "err".into(),
        None => "panic".into(),
    }
}

/// `(init n default)`: the matrix `AcoGeneration::init` inserts for an instance of `n` cities (read back whole).
fn run_init(a: &[Sx]) -> String {
    let n = a[0].nat().unwrap() as usize;
    let v = a[1].float().unwrap();
    let problem = tsp_of(n, &vec![1.0; n * n]);
    let mut state: State<P> = State::new();
    state.insert(Populations::<P>::new());
    state.insert(Random::new(0));
    // other parameters deliberately different from the default trail value
    let gen = AcoGeneration::new::<P>(3, 0.25, 0.75, v);
    match catch(|| gen.init(&problem, &mut state)) {
        Some(Ok(())) => {
            let dim_ok = catch(|| { let pm = state.borrow::<PheromoneMatrix>(); if n > 0 { let _ = pm[n - 1][n - 1]; } }).is_some();
            // one row more than `n` must not exist
            let over = catch(|| { let pm = state.borrow::<PheromoneMatrix>(); let _ = pm[n][0]; }).is_some();
            if !dim_ok || over { return list(["ok".to_string(), mat_s("pm", n + 1, vec![])]); }
            list(["ok".to_string(), mat_s("pm", n, read_pm(&state, n))])
        }
        Some(Err(_)) => "err".into(),
        None => "panic".into(),
    }
}

/// `(upd kind (pm ..) (pop (ind route obj|none)*))`
fn run_upd(a: &[Sx]) -> String {
    let kind = parse_kind(&a[0]);
    let (n, pm) = parse_mat(&a[1]);
    let (_, inds) = a[2].head().unwrap();
    let problem = tsp_of(n, &vec![1.0; n * n]);
    let mut state = base_state(&problem, n, &pm, 0);
    let pop: Vec<Individual<P>> = inds.iter().map(|i| {
        let (_, f) = i.head().unwrap();
        let route: Vec<usize> = f[0].items().unwrap().iter().map(|c| c.nat().unwrap() as usize).collect();
        match f[1].float() {
            Some(o) => Individual::new(route, SingleObjective::try_from(o).expect("objective must not be NaN/-inf")),
            None => Individual::new_unevaluated(route),
        }
    }).collect();
    *state.populations_mut().current_mut() = pop;
    let Ok(upd) = update_component(&kind) else { return "ctor-err".into() };
    match catch(|| upd.execute(&problem, &mut state)) {
        Some(Ok(())) => list(["ok".to_string(), mat_s("pm", n, read_pm(&state, n))]),
        Some(Err(_)) => "err".into(),
        None => "panic".into(),
    }
}

/// One generation → evaluation → update step on the real components.
/// `(step kind (pm ..) (dist ..) (par a b) (ants k) (seed s))`
fn run_step(a: &[Sx]) -> String {
    run_step_with::<Global>(a, Decoy::None)
}

/// An evaluator that measures something else than the tour length (a surrogate some other part of a larger
/// configuration would use). It is registered under every identifier the step does NOT ask for.
#[derive(Clone, Copy, PartialEq)]
enum Decoy { None, Hops, Const, Inv }
struct DecoyEval(Decoy);
impl Evaluate for DecoyEval {
    type Problem = P;
    fn evaluate(&mut self, problem: &P, _state: &mut State<P>, individuals: &mut [Individual<P>]) {
        for i in individuals {
            let t = i.solution().clone();
            let v = match self.0 {
                // number of "long" hops (closing edge not counted)
                Decoy::Hops => 1.0 + t.windows(2).filter(|w| problem.dist[w[0]][w[1]] > 1.0).count() as f64,
                Decoy::Const | Decoy::None => 1.0,
                // prefers LONG tours
                Decoy::Inv => { let l = problem.f(&t); if l.is_finite() && l >= 0.0 { 1.0 / (1.0 + l) } else { 0.5 } }
            };
            i.set_objective(SingleObjective::try_from(v).unwrap());
        }
    }
}
fn insert_eval_as<I: Identifier>(state: &mut State<'static, P>, want: bool, decoy: Decoy) {
    if want {
        state.insert_evaluator_as::<I>(Sequential::<P>::new());
    } else if decoy != Decoy::None {
        state.insert_evaluator_as::<I>(DecoyEval(decoy));
    }
}

/// The same step composed from the public components the way `heuristics::aco::aco::<P, I>` wires it, under
/// evaluator identifier `id` (`g` = Global, `a`, `b`): the tour-length evaluator is registered under `id`, a decoy
/// evaluator (`none` = nothing) under the two other identifiers; the evaluation step is what
/// `ConfigurationBuilder::evaluate_with::<I>()` creates.
/// `(cstep (eval id decoy) kind (pm ..) (dist ..) (par a b) (ants k) (seed s))`
fn run_cstep(a: &[Sx]) -> String {
    let (_, e) = a[0].head().unwrap();
    let decoy = match e[1].atom().unwrap() { "none" => Decoy::None, "hops" => Decoy::Hops, "const" => Decoy::Const, "inv" => Decoy::Inv, x => panic!("decoy {x}") };
    match e[0].atom().unwrap() {
        "g" => run_step_with::<Global>(&a[1..], decoy),
        "a" => run_step_with::<IdA>(&a[1..], decoy),
        "b" => run_step_with::<IdB>(&a[1..], decoy),
        x => panic!("identifier {x}"),
    }
}

fn run_step_with<I: Identifier>(a: &[Sx], decoy: Decoy) -> String {
    let kind = parse_kind(&a[0]);
    let (n, pm) = parse_mat(&a[1]);
    let (_, d) = parse_mat(&a[2]);
    let (_, par) = a[3].head().unwrap();
    let (alpha, beta) = (par[0].float().unwrap(), par[1].float().unwrap());
    let ants = a[4].head().unwrap().1[0].nat().unwrap() as usize;
    let seed = a[5].head().unwrap().1[0].nat().unwrap();
    let r = (move || -> String {
        let problem = tsp_of(n, &d);
        let mut state: State<P> = State::new();
        state.insert(Populations::<P>::new());
        state.populations_mut().push(Vec::new());
        state.insert(Random::new(seed));
        let me = std::any::TypeId::of::<I>();
        insert_eval_as::<Global>(&mut state, me == std::any::TypeId::of::<Global>(), decoy);
        insert_eval_as::<IdA>(&mut state, me == std::any::TypeId::of::<IdA>(), decoy);
        insert_eval_as::<IdB>(&mut state, me == std::any::TypeId::of::<IdB>(), decoy);
        // the evaluation step of the colony: `evaluate_with::<I>()`
        let eval = Configuration::<P>::builder().evaluate_with::<I>().build_component();
        eval.init(&problem, &mut state).unwrap();
        state.insert(make_pm(n, &pm));
        let Ok(upd) = update_component(&kind) else { return "ctor-err".into() };
        let gen = AcoGeneration::new::<P>(ants, alpha, beta, 1.0);
        match catch(|| gen.execute(&problem, &mut state)) {
            Some(Ok(())) => {}
            _ => return "gen-panic".into(),
        }
        let ts = current_tours(&state);
        // the harness' Tsp refuses a NaN tour length (malformed distance matrices only); an `Err` of the evaluation
        // step (no evaluator found under the identifier) is reported the same way
        match catch(|| eval.execute(&problem, &mut state)) {
            Some(Ok(())) => {}
            _ => return list(["eval-panic".to_string(), tours_s(&ts), witness(n, &ts)]),
        }
        if state.populations().current().iter().any(|i| !i.is_evaluated()) {
            return list(["eval-panic".to_string(), tours_s(&ts), witness(n, &ts)]);
        }
        let objs = tagged("objs", state.populations().current().iter().map(|i| fx(i.objective().value())));
        match catch(|| upd.execute(&problem, &mut state)) {
            Some(Ok(())) => list(["ok".to_string(), tours_s(&ts), witness(n, &ts), objs, mat_s("pm", n, read_pm(&state, n))]),
            _ => list(["upd-panic".to_string(), tours_s(&ts), witness(n, &ts), objs]),
        }
    })();
    r
}

// ---------------------------------------------------------------- template runs
/// The parameters of the template's two ACO components, read from the built configuration.
#[derive(Clone, Default)]
struct Params { ants: usize, alpha: f64, beta: f64, default: f64, kind: String }
struct ReadParams;
fn find<'a>(v: &'a serde_json::Value, key: &str) -> Option<&'a serde_json::Value> {
    match v {
        serde_json::Value::Object(m) => {
            if let Some(x) = m.get(key) { return Some(x); }
            m.values().find_map(|c| find(c, key))
        }
        serde_json::Value::Array(a) => a.iter().find_map(|c| find(c, key)),
        _ => None,
    }
}
impl ConfigUser for ReadParams {
    type Out = Params;
    fn use_config<Q: HProblem>(self, config: &Configuration<Q>, _problem: &Q) -> Params {
        let v = serde_json::to_value(config.heuristic()).expect("configuration serialises");
        let f = |k: &str| find(&v, k).and_then(|x| x.as_f64()).unwrap_or(f64::NAN);
        let kind = match find(&v, "max_pheromones") {
            Some(_) => format!("(mmas {} {} {})", fx(f("evaporation")), fx(f("max_pheromones")), fx(f("min_pheromones"))),
            None => format!("(as {} {})", fx(f("evaporation")), fx(f("decay_coefficient"))),
        };
        Params { ants: find(&v, "num_ants").and_then(|x| x.as_u64()).unwrap_or(u64::MAX) as usize, alpha: f("alpha"), beta: f("beta"), default: f("default_pheromones"), kind }
    }
}

struct RunVisitor {
    params: Params,
    bounds: Option<(f64, f64)>,
    emit: Box<dyn Fn(u32) -> bool + Send>,
    gens: u32,
    upds: u32,
    bad: Vec<(u32, &'static str)>,
    before: Vec<f64>,
    after: Option<Vec<f64>>,
    depth: usize,
    tours: Vec<Vec<usize>>,
    lines: Vec<(u32, String)>,
}
impl RunVisitor {
    fn flag(&mut self, k: u32, c: &'static str) {
        if self.bad.len() < 8 { self.bad.push((k, c)); }
    }
}
fn pm_of<Q: HProblem>(state: &State<Q>, n: usize) -> Vec<f64> {
    let pm = state.borrow::<PheromoneMatrix>();
    let mut v = Vec::with_capacity(n * n);
    for i in 0..n { for j in 0..n { v.push(pm[i][j]); } }
    v
}
impl Visitor for RunVisitor {
    fn step<Q: HProblem>(&mut self, phase: Phase, name: &'static str, _index: usize, state: &State<Q>, problem: &Q) {
        if phase != Phase::After {
            if name.ends_with("::AcoGeneration") { self.depth = state.populations().len(); }
            return;
        }
        let Some(tsp) = (problem as &dyn Any).downcast_ref::<Tsp>() else { return };
        let n = tsp.dist.len();
        if name.ends_with("::AcoGeneration") {
            let k = self.gens;
            self.gens += 1;
            self.before = pm_of(state, n);
            // the state generation works on: what `init` inserted (first pass), what the last update left (later)
            let bits = |v: &[f64]| v.iter().map(|x| x.to_bits()).collect::<Vec<_>>();
            match &self.after {
                None => if bits(&self.before) != bits(&vec![self.params.default; n * n]) { self.flag(k, "init"); },
                Some(a) => if bits(&self.before) != bits(a) { self.flag(k, "discontinuity"); },
            }
            // the routes replace the current population
            if state.populations().len() != self.depth { self.flag(k, "stack"); }
            self.tours = state.populations().current().iter().map(|i| {
                Sx::parse(&Q::enc(i.solution())).unwrap().items().unwrap().iter().map(|c| c.nat().unwrap() as usize).collect()
            }).collect();
            if self.tours.len() != 1 + self.params.ants { self.flag(k, "count"); }
            let ok = self.tours.iter().all(|t| {
                let mut s = t.clone();
                s.sort();
                t.first() == Some(&0) && s == (0..n).collect::<Vec<_>>()
            });
            if !ok { self.flag(k, "not-perm"); }
        } else if name.ends_with("::AsPheromoneUpdate") || name.ends_with("::MinMaxPheromoneUpdate") {
            let k = self.upds;
            self.upds += 1;
            let after = pm_of(state, n);
            if after.iter().any(|x| !x.is_finite()) { self.flag(k, "nonfinite"); }
            if after.iter().any(|x| !(*x >= 0.0)) { self.flag(k, "negative"); }
            if let Some((lo, hi)) = self.bounds {
                if after.iter().any(|x| !(*x >= lo * (1.0 - 1e-15) && *x <= hi * (1.0 + 1e-15))) { self.flag(k, "bounds"); }
            }
            self.after = Some(after.clone());
            if (self.emit)(k) {
                let objs = tagged("objs", state.populations().current().iter().map(|i| fx(problem.raw_f(i.solution()))));
                let cached: Vec<f64> = state.populations().current().iter().map(|i| i.objective().value()).collect();
                let objs_cached = tagged("objs", cached.iter().map(|v| fx(*v)));
                let _ = objs; // the cached values are what the update component read
                let out = list(["ok".to_string(), tours_s(&self.tours), witness(n, &self.tours), objs_cached, mat_s("pm", n, after)]);
                let line = list(["at".to_string(), self.params.kind.clone(), mat_s("pm", n, self.before.iter().cloned()),
                    mat_s("dist", n, tsp.dist.iter().flatten().cloned()),
                    format!("(par {} {})", fx(self.params.alpha), fx(self.params.beta)), format!("(ants {})", self.params.ants), out]);
                self.lines.push((k, line));
            }
        }
    }
    fn done<Q: HProblem>(&mut self, _outcome: &Outcome, _state: Option<&State<Q>>, _problem: &Q) {}
}

fn kind_bounds(kind: &str) -> Option<(f64, f64)> {
    let sx = Sx::parse(kind)?;
    let (h, a) = sx.head()?;
    if h == "mmas" { Some((a[2].float()?, a[1].float()?)) } else { None }
}

/// Runs template `name` and returns the summary and the requested per-step lines.
fn template_run(name: &str, variant: u32, instance: u32, iters: u32, seed: u64, emit: Box<dyn Fn(u32) -> bool + Send>) -> (String, Vec<(u32, String)>) {
    let params = match with_template(name, variant, instance, iters, ReadParams) {
        Ok(p) => p,
        Err(_) => return ("(ctor-err (gens 0) (upds 0) (bad))".into(), vec![]),
    };
    let v = RunVisitor { bounds: kind_bounds(&params.kind), params, emit, gens: 0, upds: 0, bad: vec![], before: vec![], after: None, depth: 0, tours: vec![], lines: vec![] };
    match run_template(name, variant, instance, iters, seed, EvalKind::Sequential, v) {
        Ok((v, outcome)) => {
            let bad = tagged("bad", v.bad.iter().map(|(k, c)| format!("({k} {c})")));
            (format!("({} (gens {}) (upds {}) {})", outcome.tag(), v.gens, v.upds, bad), v.lines)
        }
        Err(_) => ("(ctor-err (gens 0) (upds 0) (bad))".into(), vec![]),
    }
}
fn run_args(a: &[Sx]) -> (String, u32, u32, u32, u64) {
    (a[0].atom().unwrap().to_string(), a[1].nat().unwrap() as u32, a[2].nat().unwrap() as u32, a[3].nat().unwrap() as u32, a[4].nat().unwrap())
}

/// Runs a case; generation loops go through the guarded worker process.
fn run_case(guard: &mut Guard, input: &Sx) -> String {
    match input.head().unwrap().0 {
        "gen" | "step" | "cstep" => guard.run(&input.render()),
        _ => run_inproc(input),
    }
}

fn run_inproc(input: &Sx) -> String {
    let (h, a) = input.head().unwrap();
    match h {
        "gen" => run_gen(a),
        "init" => run_init(a),
        "upd" => run_upd(a),
        "step" => run_step(a),
        "cstep" => run_cstep(a),
        "run" => {
            let (name, v, i, it, seed) = run_args(a);
            template_run(&name, v, i, it, seed, Box::new(|_| false)).0
        }
        "tstep" => {
            let (name, v, i, it, seed) = run_args(a);
            let k = a[5].nat().unwrap() as u32;
            // the run is deterministic in its arguments: stop right after step k
            let (_, lines) = template_run(&name, v, i, it.min(k + 1), seed, Box::new(move |x| x == k));
            lines.into_iter().next().map(|l| l.1).unwrap_or("missing".into())
        }
        _ => panic!("unknown case {h}"),
    }
}

// ---------------------------------------------------------------- generators
struct Gen { rng: Sm }
impl Gen {
    fn logu(&mut self, lo: f64, hi: f64) -> f64 {
        (lo.ln() + self.rng.unit() * (hi.ln() - lo.ln())).exp()
    }
    /// Instance size: mostly 3..8 cities, the boundary sizes 1 and 2, and some larger ones.
    fn size(&mut self) -> usize {
        match self.rng.below(20) {
            0 => 1,
            1 => 2,
            2 => self.rng.range(9, 12) as usize,
            _ => self.rng.range(3, 8) as usize,
        }
    }
    fn dist(&mut self, n: usize, malformed: bool) -> Vec<f64> {
        let mode = self.rng.below(5);
        let mut d = vec![0.0; n * n];
        let asym = self.rng.chance(1, 6);
        for i in 0..n {
            for j in 0..n {
                if i == j || (j < i && !asym) { continue; }
                let v = match mode {
                    0 => 1.0 + self.rng.unit() * 9.0,
                    1 | 2 => self.logu(1e-6, 1e6),
                    // astronomically unequal: `(1/d)^beta` underflows to 0 for some pairs (weight = 1e-15)
                    4 => if self.rng.chance(1, 2) { self.logu(1e60, 1e299) } else { self.logu(1e-6, 1e6) },
                    _ => if (i < n / 2) == (j < n / 2) { self.logu(1e-6, 1e-5) } else { self.logu(1e5, 1e6) },
                };
                d[i * n + j] = v;
                if !asym { d[j * n + i] = v; }
            }
        }
        if malformed {
            // a zero, negative, infinite or NaN distance somewhere off the diagonal
            for _ in 0..(if n == 0 { 0 } else { self.rng.range(1, 3) }) {
                let (i, j) = (self.rng.below(n as u64) as usize, self.rng.below(n as u64) as usize);
                if i != j {
                    let v = *self.rng.pick(&[0.0, 0.0, -1.0, f64::INFINITY, f64::NAN]);
                    d[i * n + j] = v;
                    d[j * n + i] = v;
                }
            }
        }
        d
    }
    fn pm(&mut self, n: usize, malformed: bool) -> Vec<f64> {
        let mode = self.rng.below(6);
        let sym = self.rng.chance(3, 4);
        let mut m = vec![0.0; n * n];
        let c = *self.rng.pick(&[0.0, 0.1, 1.0, 2.5]);
        for i in 0..n {
            for j in 0..n {
                if sym && j < i { continue; }
                let v = match mode {
                    0 => c,
                    1 => self.rng.unit() * 10.0,
                    2 => if self.rng.chance(1, 5) { 0.0 } else { self.logu(1e-12, 1e6) },
                    3 => *self.rng.pick(&[0.0, 0.5, 0.5, 1.0, 1.0, 2.0]), // many ties
                    4 => self.logu(1e-300, 1e-200),                       // nearly evaporated
                    _ => self.logu(1e3, 1e12),
                };
                m[i * n + j] = v;
                if sym { m[j * n + i] = v; }
            }
        }
        if malformed && n > 0 {
            for _ in 0..self.rng.range(1, 3) {
                let k = self.rng.below((n * n) as u64) as usize;
                m[k] = *self.rng.pick(&[-1.0, f64::NAN, f64::INFINITY, -0.0, 1e300]);
            }
        }
        m
    }
    fn expo(&mut self) -> f64 {
        if self.rng.chance(1, 8) { *self.rng.pick(&[0.5, 2.0, 3.0]) } else { *self.rng.pick(&[0.0, 1.0, 5.0]) }
    }
    fn rho(&mut self, malformed: bool) -> f64 {
        if malformed { return *self.rng.pick(&[-0.5, 1.5, f64::NAN, 2.0]); }
        if self.rng.chance(1, 6) { self.rng.unit() } else { *self.rng.pick(&[0.0, 0.1, 0.9, 1.0]) }
    }
    fn kind(&mut self, mmas: bool, malformed: bool) -> String {
        let mal_rho = malformed && self.rng.chance(1, 2);
        let rho = self.rho(mal_rho);
        if !mmas {
            let c = if malformed && self.rng.chance(1, 2) { *self.rng.pick(&[-1.0, f64::NAN, f64::INFINITY]) } else { *self.rng.pick(&[1.0, 10.0, 0.1, 0.0, 1e3]) };
            format!("(as {} {})", fx(rho), fx(c))
        } else {
            let (hi, lo) = if malformed && self.rng.chance(2, 3) {
                *self.rng.pick(&[(1.0, 1.0), (0.5, 2.0), (f64::NAN, 0.1), (1.0, f64::NAN), (1.0, -1.0), (f64::INFINITY, 0.0)])
            } else {
                *self.rng.pick(&[(2.0, 0.5), (5.0, 0.1), (3.0, 1.0), (1.0, 0.0), (1e6, 1e-6), (1.0, 0.999)])
            };
            format!("(mmas {} {} {})", fx(rho), fx(hi), fx(lo))
        }
    }
    fn perm_from_zero(&mut self, n: usize) -> Vec<u64> {
        let mut v: Vec<u64> = (1..n as u64).collect();
        for i in (1..v.len()).rev() { let j = self.rng.below(i as u64 + 1) as usize; v.swap(i, j); }
        let mut t = vec![0];
        t.extend(v);
        t
    }
    fn population(&mut self, n: usize, ants: usize, malformed: bool) -> String {
        let shared = self.logu(1e-3, 1e3);
        let bad_at = if malformed { self.rng.below(ants as u64 + 1) as usize } else { usize::MAX };
        tagged("pop", (0..=ants).map(|i| {
            let mut route = self.perm_from_zero(n);
            // occasionally a route that is not a tour (the update must still follow its formula)
            match self.rng.below(12) {
                0 => { route.truncate(self.rng.range(0, n as u64) as usize); }
                1 => { let k = self.rng.below(n as u64) as usize; route[k] = self.rng.below(n as u64); }
                2 => { route.rotate_left(self.rng.below(n as u64) as usize); }
                _ => {}
            }
            // tour lengths: ordinary, shared (ties), astronomically long, +inf (a legal objective value: no deposit)
            let mut obj = match self.rng.below(16) {
                0..=3 => shared,
                4 => self.logu(1e60, 1e300),
                5 => f64::INFINITY,
                _ => self.logu(1e-6, 1e7),
            };
            let mut obj_s = fx(obj);
            if i == bad_at {
                match self.rng.below(4) {
                    0 => { let k = self.rng.below(n as u64) as usize; if !route.is_empty() { let k = k % route.len(); route[k] = n as u64 + self.rng.below(3); } }
                    1 => { obj_s = "none".into(); }
                    2 => { obj = *self.rng.pick(&[0.0, -1.0, f64::INFINITY]); obj_s = fx(obj); }
                    _ => { obj = 1e-320; obj_s = fx(obj); }
                }
            }
            format!("(ind {} {})", nats(route), obj_s)
        }))
    }
}

fn main() {
    quiet_panics();
    if std::env::args().any(|x| x == "--worker") {
        worker_main();
        return;
    }
    let a = args();
    let mut out = Out::new();
    let mut guard = Guard { worker: None };
    if let Some(r) = a.replay {
        let sx = Sx::parse(&r).expect("bad replay input");
        out.case("replay", &r, &run_case(&mut guard, &sx));
        out.finish();
        return;
    }
    let mut g = Gen { rng: Sm::new(a.seed) };
    let mut emit = |out: &mut Out, site: &str, input: String| -> String {
        let sx = Sx::parse(&input).unwrap();
        let o = run_case(&mut guard, &sx);
        out.case(site, &input, &o);
        if o == "timeout" {
            // confirmed hang or crash: the case has been reported; every further case would cost a minute
            std::mem::replace(out, Out::new()).finish();
            std::process::exit(0);
        }
        o
    };

    // 0. the matrix `init` inserts
    for n in 0..=12u64 {
        for v in [0.0, 1.0, 0.5, 2.0, 1e-3, 1e-300, 1e12, 0.25, 0.75, 3.0] {
            emit(&mut out, "AcoGeneration::init", format!("(init {n} {})", fx(v)));
        }
    }
    // 1. AcoGeneration alone on arbitrary pheromone matrices
    let n_gen = if a.thorough { 30000 } else { 4000 };
    for c in 0..n_gen {
        let malformed = c % 12 == 11;
        // no city at all: outside the property (route `[0]` names a city that does not exist), agreement only
        let n = if malformed && c % 96 == 95 { 0 } else { g.size() };
        let (mal_d, mal_p) = if malformed { let x = g.rng.chance(1, 2); (x, !x) } else { (false, false) };
        let input = list(["gen".to_string(), mat_s("pm", n, g.pm(n, mal_p)), mat_s("dist", n, g.dist(n, mal_d)),
            format!("(par {} {})", fx(g.expo()), fx(g.expo())), format!("(ants {})", g.rng.range(0, 8)), format!("(seed {})", g.rng.below(1 << 32))]);
        emit(&mut out, if malformed { "AcoGeneration/malformed" } else { "AcoGeneration" }, input);
    }
    // 2. the two update components alone on prepared populations
    let n_upd = if a.thorough { 30000 } else { 4000 };
    for c in 0..n_upd {
        let malformed = c % 10 == 9;
        let mmas = c % 4 >= 2;
        let n = g.size();
        let ants = g.rng.range(0, 8) as usize;
        let mal_kind = malformed && g.rng.chance(1, 3);
        let mal_pm = malformed && !mal_kind && g.rng.chance(1, 3);
        let mal_pop = malformed && !mal_kind && !mal_pm;
        let input = list(["upd".to_string(), g.kind(mmas, mal_kind), mat_s("pm", n, g.pm(n, mal_pm)), g.population(n, ants, mal_pop)]);
        let base = if mmas { "MinMaxPheromoneUpdate" } else { "AsPheromoneUpdate" };
        let site = if mmas && ants == 0 { format!("{base}/no-ants") } else if malformed { format!("{base}/malformed") } else { base.to_string() };
        emit(&mut out, &site, input);
    }
    // 3. chains of assembled generation → evaluation → update steps: every reached matrix is the next input
    let n_chain = if a.thorough { 4000 } else { 500 };
    for c in 0..n_chain {
        let mmas = c % 2 == 1;
        let malformed = c % 15 == 14;
        let n = g.size();
        let d = g.dist(n, malformed);
        let kind = g.kind(mmas, false);
        let (alpha, beta) = (g.expo(), g.expo());
        let ants = if c % 7 == 6 { 0 } else { g.rng.range(1, 8) };
        let default = *g.rng.pick(&[1.0, 0.5, 2.0, 0.0, 1e-3]);
        let mut pm = vec![default; n * n];
        let base = if mmas { "mmas-step" } else { "as-step" };
        let site = if mmas && ants == 0 { format!("{base}/no-ants") } else if malformed { format!("{base}/malformed") } else { base.to_string() };
        for _ in 0..g.rng.range(3, if a.thorough { 40 } else { 12 }) {
            let input = list(["step".to_string(), kind.clone(), mat_s("pm", n, pm.iter().cloned()), mat_s("dist", n, d.iter().cloned()),
                format!("(par {} {})", fx(alpha), fx(beta)), format!("(ants {ants})"), format!("(seed {})", g.rng.below(1 << 32))]);
            let o = emit(&mut out, &site, input);
            let Some(sx) = Sx::parse(&o) else { break };
            match sx.head() {
                Some(("ok", f)) => { pm = parse_mat(&f[3]).1; }
                _ => break,
            }
        }
    }
    // 3b. the same chains composed under an evaluator identifier (Global, A, B) the way `aco::aco::<P, I>` does
    //     (`evaluate_with::<I>()`), with a decoy evaluator under the other identifiers: the tours must reach the
    //     pheromone update carrying the objective of the REQUESTED evaluator
    let n_cchain = if a.thorough { 2000 } else { 300 };
    for c in 0..n_cchain {
        let mmas = c % 2 == 1;
        let id = ["a", "b", "g"][(c / 2) % 3];
        let decoy = if c % 11 == 10 { "none" } else { ["hops", "inv", "const"][(c / 6) % 3] };
        // instances on which the decoys really differ from the tour length: at least 3 cities, mostly ordinary distances
        let n = g.size().max(3);
        let d = g.dist(n, false);
        let kind = g.kind(mmas, false);
        let (alpha, beta) = (g.expo(), g.expo());
        let ants = g.rng.range(1, 8);
        let default = *g.rng.pick(&[1.0, 0.5, 2.0, 1e-3]);
        let mut pm = vec![default; n * n];
        let site = format!("{}-step/eval-{}", if mmas { "mmas" } else { "as" }, if id == "g" { "global" } else { "id" });
        for _ in 0..g.rng.range(3, if a.thorough { 30 } else { 10 }) {
            let input = list(["cstep".to_string(), format!("(eval {id} {decoy})"), kind.clone(), mat_s("pm", n, pm.iter().cloned()), mat_s("dist", n, d.iter().cloned()),
                format!("(par {} {})", fx(alpha), fx(beta)), format!("(ants {ants})"), format!("(seed {})", g.rng.below(1 << 32))]);
            let o = emit(&mut out, &site, input);
            let Some(sx) = Sx::parse(&o) else { break };
            match sx.head() {
                Some(("ok", f)) => { pm = parse_mat(&f[3]).1; }
                _ => break,
            }
        }
    }
    // 4. long runs of both shipped templates, checked at every step; sampled steps go to the model
    let iters: u32 = if a.thorough { 5000 } else { 200 };
    let thorough = a.thorough;
    for name in ["ant_system", "max_min_ant_system"] {
        for variant in 0..N_VARIANTS {
            for instance in 0..N_INSTANCES {
                let seed = g.rng.below(1 << 32);
                let sample: Box<dyn Fn(u32) -> bool + Send> =
                    if thorough { Box::new(|k| k < 200 || k % 20 == 0) } else { Box::new(|k| k < 60 || k % 5 == 0) };
                let (summary, lines) = template_run(name, variant, instance, iters, seed, sample);
                out.case(&format!("{name}/run"), &format!("(run {name} {variant} {instance} {iters} {seed})"), &summary);
                for (k, l) in lines {
                    out.case(&format!("{name}/tstep"), &format!("(tstep {name} {variant} {instance} {iters} {seed} {k})"), &l);
                }
            }
        }
    }
    out.finish();
}
